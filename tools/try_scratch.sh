#!/bin/bash
# try_scratch.sh <patch.diff> <prop> [<prop>...] : like try_seed.sh, but on the scratch worktree /tmp/wt/sm with its own
# work / evidence directories (VERIF_REPO, VERIF_WORK, VERIF_EVIDENCE), so /repo and /verif/evidence stay untouched
S=${SCRATCH:-/tmp/wt/sm}
[ -d $S ] || git -C /repo worktree add --detach $S HEAD >/dev/null 2>&1
git -C $S checkout -q -- .
p=$1; shift
git -C $S apply "$(realpath $p)" || { echo "patch does not apply"; exit 2; }
export VERIF_REPO=$S VERIF_WORK=$S-work VERIF_EVIDENCE=$S-evidence
(cd /verif && ./check $1 >/dev/null 2>&1)   # extraction once
for c in "$@"; do
  ( out=$(cd /verif && ./check $c 2>&1); rc=$?
    echo "== $c rc=$rc"; echo "$out" | grep -A3 "^VIOLATION" | grep -v "^--" | cut -c1-300 | head -${LINES_MAX:-12} ) &
done
wait
git -C $S checkout -q -- .
