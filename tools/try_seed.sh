#!/bin/bash
# try_seed.sh <patch.diff> <prop> [<prop>...] : apply a seeded change to /repo, run the checks, undo it
p=$1; shift
git -C /repo apply "$(realpath $p)" || { echo "patch does not apply"; exit 2; }
for c in "$@"; do
  out=$(cd /verif && ./check $c 2>&1); rc=$?
  echo "== $c rc=$rc"; echo "$out" | grep -A3 "^VIOLATION" | grep -v "^--" | cut -c1-260 | head -${LINES_MAX:-12}
done
git -C /repo checkout -- .
