#!/bin/bash
# try_seed.sh <patch.diff> <prop> [<prop>...] : apply a seeded change to /repo, run the checks, undo it,
# then re-run the same checks on the restored tree so that evidence/ describes the real tree again
p=$1; shift
git -C /repo apply "$(realpath $p)" || { echo "patch does not apply"; exit 2; }
for c in "$@"; do
  out=$(cd /verif && ./check $c 2>&1); rc=$?
  echo "== $c rc=$rc"; echo "$out" | grep -A3 "^VIOLATION" | grep -v "^--" | cut -c1-260 | head -${LINES_MAX:-12}
done
git -C /repo checkout -- .
for c in "$@"; do (cd /verif && ./check $c >/dev/null 2>&1) || echo "!! $c does not pass on the restored tree"; done
