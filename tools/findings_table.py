#!/usr/bin/env python3
"""Source of /verif/known_findings.json (run by hand after triage; never at check time).
Each entry: (finding id, [properties], rule key, what fails).  Keys are the exact violation keys printed by the checks."""
import json
import os

HERE = os.path.dirname(os.path.dirname(os.path.abspath(__file__)))

F = []


def add(fid, props, key, what):
    for p in props:
        F.append({"id": fid, "property": p, "key": key, "what": what})


FIXED = []


def fixed(fid, prop, commit, key, what):
    FIXED.append({"id": fid, "property": prop, "commit": commit, "key": key, "what": what, "line": "fixed: property=%s %s %s" % (prop, commit, what)})


fixed("F13", "C20", "4529e92", "C20.value|roundtrip|ErrorV", "Value::ErrorV crossed the plugin FFI boundary as FfiValue::ErrorV and came back as Value::Unit (silently altered); now refused with Err")
fixed("F1", "C01", "5836695", "C01.bounds|literal-fidelity|<utils::half_float::HFloat as std::convert::TryFrom<f64>>::try_from", "HFloat::try_from accepted |error| < 1e-5: the literal 0.001 became 0.0010004043579101563 on the VM only")
fixed("F2", "C01", "3082f70", "C01.ops|op|And", "And/Or (and the dormant Not): VM tested operands with `> 0`, WASM with `!= 0`: (0-1) && 1 gave 0.0 on the VM and 1.0 on WASM")
fixed("F2", "C01", "3082f70", "C01.ops|op|Or", "same defect, Or")
fixed("F24", "C16", "3cef71c", "C16.record-layout|slot|eval_expr_as_address|-", "nested field assignment `r.z.b = v` on a record whose annotation lists fields in non-alphabetical order wrote the wrong slot (203 instead of 1023; findings/repro/F24_*.mmm): an agreeing type annotation changed the output")
fixed("F25", "C16", "03b817f", "C16.record-layout|slot|add_bind_pattern|-", "record pattern `let {z = p, y = q} = r` on a record annotated `{z: float, y: float}` bound the fields crosswise (31 instead of 13; findings/repro/F25_*.mmm)")
fixed("F28", "C05", "7077c06", "C05.states-flow|dropped|eval_expr|Apply|eval_expr", "`({ big(1.0); delay })(4.0, 1.0, 2.0)`: the state cells of a delay call's callee expression were dropped from the published layout (try_make_delay early return); the VM wrote 60000 words past the state storage and crashed with SIGSEGV (findings/repro/F28_*.mmm)")
for _p in ("C05", "C01"):
    fixed("F29", _p, "acf6026", "C05.site-table|cursor-never-advances|delay_sizes", "every `delay` of a function ran on the VM with the ring length of the function's first delay (the position in FuncProto::delay_sizes was never advanced): `delay(4,c,2) + delay(100,c,50)` differed from WASM, and `delay(50000,..)` followed by `delay(4,..)` read and wrote outside the 6-word cell (findings/repro/F29*.mmm)")
fixed("F30", "C05", "f97a34c", "C05.branch-accounting|isolated|eval_expr|If", "`if (c > 3.0) delay(4.0, c, 2.0) else delay(4.0, c, 1.0)`: the else branch continued the then branch's offset accounting and the function-end pop summed both: VM panicked (state cursor underflow), WASM read header words as samples; the layout held only the larger branch (findings/repro/F30_*.mmm)")
fixed("F31", "C05", "5eb3d3a", "C05.branch-accounting|isolated|eval_match|Switch", "stateful calls in several arms of a literal `match`: each arm's push assumed the previous arms had run; VM panicked with cursor underflow (findings/repro/F31_*.mmm)")
fixed("F32", "C05", "6ca1bc7", "C05.branch-accounting|isolated|eval_union_match|Switch", "constructor `match` after a stateful call: each arm reset push_sum / next_state_offset to zero, so the arm's cell was placed on top of the preceding call's cell (c and m shared one counter: 201, 403 instead of 101, 202) while the layout listed them separately (findings/repro/F32_*.mmm)")
fixed("F32", "C05", "6ca1bc7", "C05.branch-accounting|reset|eval_union_match|push_sum", "same defect: constant reset of push_sum")
fixed("F32", "C05", "6ca1bc7", "C05.branch-accounting|reset|eval_union_match|next_state_offset", "same defect: constant reset of the pending offset")
fixed("F33", "C05", "4f28af6", "C05.branch-accounting|isolated|compile_decision_tree|Switch", "stateful calls in several cases of a tuple `match`: cumulative pushes; VM panicked with cursor underflow, WASM returned 131 instead of 101 (findings/repro/F33_*.mmm)")
for _p in ("C05", "C01"):
    fixed("F34", _p, "7fb4d49", "C05.site-table|cursor-never-advances|delay_sizes", "after acf6026 the VM selected delay_sizes by the run-time ordinal of the delay: `if (c > 3.0) delay(100.0, c, 2.0) else delay(4.0, c, 2.0)` ran the else delay with ring length 100 on its 6-word cell (garbage samples on the VM, zeros on WASM); the size is now looked up by code position (findings/repro/F34_*.mmm)")
for _p in ("C03", "C04"):
    fixed("F35", _p, "8d26740", "C03.guarded-index|guard|compiler::typing::InferContext::infer_type::{closure#3}|i-le-len", "`(1.0, 2.0).2`: the type checker's range test for tuple projection was `len < idx`, so idx == len indexed the element list and panicked (index out of bounds) on both back ends instead of reporting IndexOutOfRange (findings/repro/F35_*.mmm)")
fixed("F36", "C04", "f16cbe2", "C04.occurs|arm|Function", "`fn f(x){ x(x) }`: occur_check combined the argument and result of a function type with `&&`, so `'a := ('a) -> 'b` was bound and the type checker overflowed the stack (both back ends) instead of reporting CircularType (findings/repro/F36_*.mmm)")
fixed("F37", "C04", "c526c1f", "C04.occurs|arm|Code", "`#stage(macro) fn f(x){ f(lift(x)) }`: occur_check did not look into Code (nor Ref) types, `'a := Code('a)` overflowed the stack (findings/repro/F37_*.mmm)")
fixed("F37", "C04", "c526c1f", "C04.occurs|arm|Ref", "same defect, Ref component")
for _p in ("C03", "C04"):
    fixed("F38", _p, "3143cfd", "C03.admission|anchor|EscapeOutsideCode", "`#stage(macro) fn f(x){ $x }`: an escape at stage 0 was accepted by the type checker (the stage saturates at 0), translate_stage0 left it in place and the MIR generator panicked in unreachable!(\"Macro code should be expanded before mirgen\") (findings/repro/F38_*.mmm)")
fixed("F38", "C03", "3143cfd", "C03.belief|eliminated|Escape|compiler::translate_staging::translate_stage0", "same defect seen from the elimination table: the stage-0 arm for Escape hands the node back unchanged")
fixed("F39", "C04", "8a6ba5d", "C04.chain-walk|walk|compiler::typing::InferContext::resolve_type_alias|recursion|type_aliases", "`type alias A = B  type alias B = A  fn f(x:A){x}`: the cycle was detected and recorded, but the aliases were registered anyway and resolving the annotation recursed until the stack overflowed (both back ends); cyclic aliases are no longer registered (findings/repro/F39_*.mmm)")
fixed("F39", "C04", "8a6ba5d", "C04.chain-walk|walk|compiler::typing::InferContext::type_references_name|recursion|type_aliases", "same defect, second walker over the alias map")
fixed("F40", "C04", "15680de", "C04.errors-as-values|parse-errors-stop|compiler::Context::emit_mir", "`fn dsp(){ f(else |> ) }`: emit_mir ran type checking, macro expansion and MIR generation on the tree with error nodes before looking at the parse errors; the MIR generator panicked (\"non function type\") on both back ends instead of returning the two syntax diagnostics (findings/repro/F40_*.mmm)")
for _p in ("C07", "C08"):
    fixed("F41", _p, "a82e8d2", "C08.apply-source|source|new_resume", "a hot swap requested before the first dsp call (swap time 0) with a changed layout: the VM's state storage is still empty, apply_patches read past it and panicked (debug assertion; slice index in release); now migrates from all-zero state (findings/repro/F41_*/swap_at_zero.rs)")
    fixed("F41", _p, "a82e8d2", "C08.apply-source|source|try_hot_swap", "same defect in the WASM runtime's try_hot_swap (findings/repro/F41_*/swap_at_zero_wasm.rs)")
fixed("F48", "C17", "f82c1b2", "C17.context|bracket|Let", "`mod m { fn hidden(){7.0}  let k = 1.0 }  let v = m::hidden()`: the resolver kept the module context of the module-level `let` while resolving everything after it, so the following global `let` passed the privacy check for m\'s private member (7.0 instead of `Member \"hidden\" in module \"m\" is private`; findings/repro/F48_*.mmm)")
for _p in ("C01", "C03"):
    fixed("F49", _p, "23440b0", "C01.unit-merge|unit-merge|emit_instruction|Phi.0", "`fn maybe(t){ if (t > 1.0) { bump() } }`: the bytecode generator looked the value of a unit-valued `if` up in the register table and panicked (`value none not found`); WASM compiled and ran the program (findings/repro/F49_*.mmm)")
    fixed("F49", _p, "23440b0", "C01.unit-merge|unit-merge|emit_instruction|Phi.1", "same defect, else input of the Phi")
    fixed("F50", _p, "a2c4d82", "C01.unit-merge|unit-merge|Switch-inputs|input", "`match t { 1 => bump(), _ => { x = x + 10.0 } }`: same panic in the Switch lowering for an arm without a value (findings/repro/F50_*.mmm)")
fixed("F51", "C14", "0b515b8", "C14.keyword-space|kw|print_if_expr|If", "mimium-fmt printed `let y = if gate { 1.0 } else { 0.0 }` as `let y = ifgate { .. }` (keyword and an unparenthesised condition glued together: a different program); findings/repro/F51_*.mmm")
fixed("F52", "C14", "74fa295", "C14.list-items|items|print_grouped_list", "mimium-fmt printed `fn f(x:float, g = 2.0, h)` as `fn f(x, :float, g, =2.0, h)`: the shared list printer skipped the comma tokens and put its own separator after every child, also inside a typed parameter or a default value (a different, unparsable program); findings/repro/F52_*.mmm")
for _p in ("C05", "C03"):
    fixed("F57", _p, "6fde856", "C05.cursor|resize-before-execute|execute_main", "`fn counter(x){ self + x }  let init = counter(5.0)  fn dsp(){ init }`: Machine::execute_main ran the global initialiser on the global state storage without sizing it (only execute_idx did), so the stateful call wrote through an unchecked pointer into an empty Vec: SIGSEGV on the VM while WASM answered 5.0 (findings/repro/F57_*.mmm); execute_main now grows the storage to main's layout first")
fixed("F63", "C14", "59084d1", "C14.skipped-trivia|skip|print_grouped_list|Comma", "`f(1.0, /* second */ 2.0)`: the list printer swallows the commas and re-creates them, and the comment attached to the comma went with it (findings/repro/F63_*.mmm); 18 of the 249 .mmm files of the repository lost a comment when formatted, 0 after the repair")
fixed("F63", "C14", "59084d1", "C14.skipped-trivia|skip|print_block_expr|BlockEnd", "`fn dsp(){ .. } // end`: the block printer writes `}` itself and dropped its leading and trailing comments (findings/repro/F64_*.mmm)")
for _k in ("BlockBegin", "BlockEnd", "Comma"):
    fixed("F63", "C14", "59084d1", "C14.skipped-trivia|skip|print_use_target_multiple|" + _k, "`use m::{ /* first */ a, /* second */ b}`: braces and commas of a use list are written by the printer, their comments were dropped (findings/repro/F65_*.mmm)")
fixed("F73", "C14", "84f0656", "C14.token-glue|delimiters|print_lambda_expr|LambdaArgBeginEnd", "`let f = | | { 1.0 }`: the lambda printer writes `|` for both ends of the parameter list and nothing in between when the list is empty; `||` is the or-operator, the output does not parse (formatting it again gives an empty file). 27 of the repository's 249 .mmm files were affected (findings/repro/F73_*.mmm)")
fixed("F62", "C14", "266b19c", "C14.list-items|lone-comma|print_grouped_list", "`let t = (1.0,)  let (a,) = t`: print_grouped_list swallows the commas and writes items-1 separators back, so the comma that makes a one-element list a tuple was lost: `(1.0)` / `let (a) = t` parse to a different tree (findings/repro/F62_fmt_single_element_tuple.mmm); it now keeps a lone comma")
for _p in ("C04", "C03"):
    fixed("F61", _p, "8f445b5", "C04.rewrite-complete|identity-default|convert_recursively|ImcompleteRecord", "`fn f(a:float = 1.0, b:float = 2.0){ a + b }  fn dsp(){ let x = 3.0  f({a = (x + 1.0), ..}) }`: convert_recursively had no arm for Expr::ImcompleteRecord and its catch-all hands the node back unchanged, so no pronoun pass ever visited the fields: the BinOp survived convert_operators and recursecheck panicked (both back ends, a valid program); findings/repro/F61_incomplete_record_operator.mmm")
for _p in ("C08", "C07"):
    fixed("F60", _p, "7021963", "C08.lcs|walk|diagonal-ignores-table", "old [A,B] -> new [A,B,X] with A=F(M1,S1), B=F(M1,D1), X=F(M1,M2): lcs_by_score walked back taking the diagonal whenever the pair scored > 0, pairing B with X and A with B; only 2 of the 6 surviving words were carried, into the wrong cells. 3124 of 136640 single-subtree insertions (and as many removals) over layouts of <= 5 nodes lost surviving words; 0 after the repair (findings/repro/F60_lcs_greedy_walk/)")
fixed("F58", "C01", "cd5c593", "C01.prims|closure-state|reset", "`fn dsp(){ let k=1.0  let f = | |{self+k}  f() + mem(now) }`: the WASM host keys closure state by linear-memory address, fills it lazily and never removed an entry, and the bump allocator re-uses the addresses every tick: WASM 1,2,4,6,8 vs VM 1,1,2,3,4 (findings/repro/F58_closure_state_per_tick.mmm); a new import closure_state_reset is called where MakeClosure / Closure allocate")
fixed("F59", "C01", "6d6ce53", "C01.defaults|default-rate|RuntimeState.sample_rate|default", "`let sr = samplerate  fn dsp(){ sr }`: globals are evaluated before the host sets the rate; RuntimeState::default said 44100 while every driver, the CLI options and WasmDspRuntime's cache say 48000: WASM 44100 vs VM 48000 (findings/repro/F59_global_samplerate.mmm)")
fixed("F59", "C06", "6d6ce53", "C06.wasm|initial-setting|sample_rate", "same defect seen from the hot swap: the prewarmed engine ran `main` with 44100, try_hot_swap then re-applied the cached 48000")
fixed("F53", "C04", "ab82728", "C04.assign-protocol|kind|IfExpr", "`if (now > 1.0) x = 5.0 else x = 7.0` (branches without braces): the parser accepts it, the lowering took the children one by one, made an error node of the AssignExpr sibling without any diagnostic, and the back ends crashed (`Instruction not implemented: Error` on the VM, an invalid module on WASM); findings/repro/F53_if_*.mmm")
fixed("F53", "C04", "ab82728", "C04.assign-protocol|kind|MatchArm", "`_ => x = x + 10.0`: the arm body was lowered as `x` and the assignment dropped silently (0,1,1,1 instead of 10,11,21,31 on both back ends); findings/repro/F53_match_*.mmm")
fixed("F53", "C04", "ab82728", "C04.assign-protocol|kind|MatchExpr", "same commit (the match lowering reaches the sequence-aware arm lowering)")
fixed("F21", "C01", "52a554f", "C01.ops|truthiness|JmpIfNeg|F64Const+F64Gt", "`if` on a NaN condition took the then-branch on the VM (cond <= 0.0 test) and the else-branch on WASM (cond > 0.0)")

# ---- C01 operator templates ---------------------------------------------------------------------------
add("F3", ["C01"], "C01.ops|op|ModF", "ModF: VM uses f64 `%` (fmod), WASM computes a - trunc(a/b)*b (differs for infinite divisors and in the last bits, e.g. 5.5 % 0.3)")

# ---- bounded encodings (shared rule C01.bounds, also cited by C03) ---------------------------------------
B = ["C01", "C03"]
add("F4", B, "C01.bounds|cast|compiler::bytecodegen::ByteCodeGenerator|usize->u8|call:sum|x1", "GlobalPos = u8: with more than 255 global words global addresses alias on the VM (g43 + g299 = 598 on VM, 342 on WASM)")
add("F4", B, "C01.bounds|cast|compiler::bytecodegen::ByteCodeGenerator|usize->u8|place|x1", "GlobalPos = u8 (lookup path of the same truncation)")
add("F6", B, "C01.bounds|checked-unwrap|compiler::bytecodegen::ByteCodeGenerator::emit_instruction|HFloat", "array literal with more than 2049 elements: HFloat::try_from(i as f64).unwrap() panics in the bytecode generator; WASM compiles it")
add("F5", B, "C01.bounds|bump|region@256", "WASM global region 256..512 is never bounded: 150 globals overlap the state-exchange and allocation areas (dsp returns 126 instead of 225)")
add("F26", ["C01"], "C01.tables|name|not", "builtin `not` exists only in the VM's builtin table: the WASM generator neither resolves it as an import nor is it lowered as an intrinsic; `not(0.0) + 1.0` is 2.0 on the VM and 1.0 on WASM (findings/repro/F26_builtin_not.mmm)")
fixed("F27", "C01", "76e23e4", "C01.prims|array-index|GetArrayElem", "array index +inf: the VM mapped a non-finite index to element 0 while WASM saturates and clamps to the last element: `a[1.0/0.0]` on [10,20,30] was 10.0 on the VM and 30.0 on WASM; the VM now saturates too (findings/repro/F27_*.mmm)")
add("F9", ["C01"], "C01.prims|null-array|GetArrayElem", "indexing the empty rest of an array (the null array handle): the WASM host special-cases the sentinel handle and yields zeros, the VM's handle lookup panics `Invalid ArrayIdx` (findings/repro/F9_split_head_rest_index.mmm: VM panic, WASM 1.0)")
add("F22", B, "C01.bounds|bump|region@512", "WASM state-exchange region 512..1024 (64 words) is never bounded: 70 functions using `self` push GetState scratch slots into the allocation area; dsp returns 1,3,5 instead of 300 (findings/repro/F22_state_temp_overflow.mmm)")

# ---- stated beliefs (C03.belief; the same sites are cited by C04.belief) -------------------------------
add("F7", ["C03"], 'C03.belief|site|compiler::mirgen::Context|unreachable|unbounded delay access, should be an error at typing stage.', "delay(n, x, t) with a non-literal n: unreachable! in mirgen on both back ends (the type checker accepts it)")
fixed("F8", "C03", "c700c48", 'C03.belief|site|compiler::typing::InferContext|unimplemented|Assignment to array is not implemented yet.', "`a[0] = 3.0` hit unimplemented!() inside the type checker (both back ends); now the diagnostic ArrayElementAssignment (findings/repro/F8_*.mmm)")
fixed("F23", "C03", "dd3950c", 'C03.belief|site|<mir::StateType as std::convert::From<interner::TypeNodeId>>|todo|-', "`self` in a function whose value is a string, a variant or a boxed value hit todo!() in StateType::from and panicked the compiler on both back ends; the cell now has the type\'s word size (findings/repro/F23_*.mmm)")

# ---- C13 -------------------------------------------------------------------------------------------------
add("F10", ["C13"], "C13.trivia|loss|compiler::parser::preparser::preparse|clear", "preparse discards trivia that precedes the first syntax token when it ends in a line break (pending_trivia.clear()); asserted by the repo's own unit test test_preparse_leading_trivia, so it cannot be repaired without editing tests")
fixed("F8", "C04", "c700c48", 'C04.belief|site|compiler::typing::InferContext|unimplemented|Assignment to array is not implemented yet.', "same defect seen from the front-end entry points")

# ---- C05 -------------------------------------------------------------------------------------------------
for _p in ("C05", "C07"):
    fixed("F17", _p, "ab44fac", "C05.order|concat|compiler::mirgen::Context::eval_expr|Feed|call+cell", "`self` cell: GetState reads offset 0 of the function's state but its skeleton was appended after the body's cells (published [Mem, Feed], executed self@0 mem@1): on hot swap of `fn dsp(){ let y = mem(1.0); self + y }` after appending a delay, y lost its state (4,5,6 instead of 5,6,7; findings/repro/F17_self_cell_order/)")
fixed("F18", "C05", "f97a34c", "C05.accounting|push|compiler::mirgen::Context::eval_expr|x2", "`if` branches: the padding PushStateOffset was not accounted in push_sum (stateful calls of different sizes in the two branches underflowed the VM state cursor); the padding is gone, each branch pops what it pushed")
fixed("F18", "C05", "6ca1bc7", "C05.accounting|push|compiler::mirgen::Context::eval_union_match|x2", "`match` arms: same unaccounted padding (findings/repro/F18_match_branches.mmm panicked the VM in pop_pos while WASM ran); the padding is gone, each arm pops what it pushed")

# ---- C17 -------------------------------------------------------------------------------------------------
add("F12", ["C17"], "C17.register|arm|GlobalStatement", "module-level `let` is neither mangled nor recorded in visibility_map: `mod m { let secret = 42.0 }` is readable as `secret` from outside (findings/repro/m1.mmm)")

# ---- C09 / C10 -------------------------------------------------------------------------------------------
add("F14", ["C09"], "C09.names|unregistered|code_match", "`match` inside a quote: translate_staging emits `code_match`, which is never registered: Variable \"code_match\" not found (findings/repro/q1.mmm)")

add("F20", ["C10"], "C10.binders|binder|code_let|compiler::translate_staging::translate_let_pattern", "binders in quoted code keep their source names (code_let): a macro body's `let x` captures the user's `x` (200.0 instead of 101.0 after renaming; findings/repro/h1.mmm, h2.mmm)")
add("F20", ["C10"], "C10.binders|binder|code_let_tuple|compiler::translate_staging::translate_let_tuple_pattern", "binders in quoted code keep their source names (code_let_tuple): a macro body's `let x` captures the user's `x` (200.0 instead of 101.0 after renaming; findings/repro/h1.mmm, h2.mmm)")
add("F20", ["C10"], "C10.binders|binder|code_letrec_typed|compiler::translate_staging::translate_code", "binders in quoted code keep their source names (code_letrec_typed): a macro body's `let x` captures the user's `x` (200.0 instead of 101.0 after renaming; findings/repro/h1.mmm, h2.mmm)")
add("F20", ["C10"], "C10.binders|binder|code_lam1_finish_typed|compiler::translate_staging::translate_code", "binders in quoted code keep their source names (code_lam1_finish_typed): a macro body's `let x` captures the user's `x` (200.0 instead of 101.0 after renaming; findings/repro/h1.mmm, h2.mmm)")
add("F20", ["C10"], "C10.binders|binder|code_lam_finish_typed|compiler::translate_staging::translate_code", "binders in quoted code keep their source names (code_lam_finish_typed): a macro body's `let x` captures the user's `x` (200.0 instead of 101.0 after renaming; findings/repro/h1.mmm, h2.mmm)")
add("F20", ["C10"], "C10.binders|binder|code_lam_finish_defaults_typed|compiler::translate_staging::translate_code", "binders in quoted code keep their source names (code_lam_finish_defaults_typed): a macro body's `let x` captures the user's `x` (200.0 instead of 101.0 after renaming; findings/repro/h1.mmm, h2.mmm)")
add("F20", ["C10"], "C10.binders|binder|code_feed|compiler::translate_staging::translate_code", "binders in quoted code keep their source names (code_feed): a macro body's `let x` captures the user's `x` (200.0 instead of 101.0 after renaming; findings/repro/h1.mmm, h2.mmm)")

# ---- C14 ----
fixed("F11", "C14", "4f8203a", "C14.dispatch|leaf|MatchExpr", "mimium-fmt prints MatchExpr nodes by bare token concatenation: `match s {` becomes `matchs{`, `type Shape = ..` becomes `typeShape=..` (findings/repro/f1.mmm); the output does not parse back to the same program")
fixed("F11", "C14", "4f8203a", "C14.dispatch|leaf|MatchArm", "mimium-fmt prints MatchArm nodes by bare token concatenation: `match s {` becomes `matchs{`, `type Shape = ..` becomes `typeShape=..` (findings/repro/f1.mmm); the output does not parse back to the same program")
fixed("F11", "C14", "4f8203a", "C14.dispatch|leaf|MatchArmList", "mimium-fmt prints MatchArmList nodes by bare token concatenation: `match s {` becomes `matchs{`, `type Shape = ..` becomes `typeShape=..` (findings/repro/f1.mmm); the output does not parse back to the same program")
fixed("F11", "C14", "4f8203a", "C14.dispatch|leaf|MatchPattern", "mimium-fmt prints MatchPattern nodes by bare token concatenation: `match s {` becomes `matchs{`, `type Shape = ..` becomes `typeShape=..` (findings/repro/f1.mmm); the output does not parse back to the same program")
fixed("F11", "C14", "4f8203a", "C14.dispatch|leaf|ConstructorPattern", "mimium-fmt prints ConstructorPattern nodes by bare token concatenation: `match s {` becomes `matchs{`, `type Shape = ..` becomes `typeShape=..` (findings/repro/f1.mmm); the output does not parse back to the same program")
fixed("F11", "C14", "4f8203a", "C14.dispatch|leaf|TypeDecl", "mimium-fmt prints TypeDecl nodes by bare token concatenation: `match s {` becomes `matchs{`, `type Shape = ..` becomes `typeShape=..` (findings/repro/f1.mmm); the output does not parse back to the same program")
fixed("F11", "C14", "4f8203a", "C14.dispatch|leaf|VariantDef", "mimium-fmt prints VariantDef nodes by bare token concatenation: `match s {` becomes `matchs{`, `type Shape = ..` becomes `typeShape=..` (findings/repro/f1.mmm); the output does not parse back to the same program")

# ---- C19 -------------------------------------------------------------------------------------------------
add("F15", ["C19"], "C19.env|env|compiler::mirgen::MacroFileEnvGuard::new|set_var", "macro expansion publishes the current source file through the process environment (MIMIUM_CURRENT_MACRO_FILE), which mimium-symphonia reads to resolve relative sample paths: with two threads compiling /a/x.mmm and /b/y.mmm, T1 sets /a/x.mmm, T2 sets /b/y.mmm, T1's Sampler macro resolves its path against /b")
add("F15", ["C19"], "C19.env|env|compiler::mirgen::MacroFileEnvGuard::new|remove_var", "same defect: a compilation without a file path removes the variable while another thread's macro expansion relies on it; the Drop of one guard also restores a stale value under the other thread")


# ---- run-time primitives aborting on values (C03.value-aborts) -------------------------------------------
add("F42", ["C03"], "C03.value-aborts|abort|plugin::builtin_functins::try_make_specialized_extcls|length of a run-time object|panic!(\"Cannot split_head on empty array\")", "`let (h,t) = split_head([1.0])  split_head(t)`: the VM builtin panics (`Cannot split_head on empty array`) and the WASM host function panics (`array shorter than one element`): an accepted program aborts the process for an array that became empty at run time (findings/repro/F42_split_head_*.mmm); also at the macro stage")
add("F42", ["C03"], "C03.value-aborts|abort|plugin::builtin_functins::try_make_specialized_extcls|length of a run-time object|panic!(\"Cannot split_tail on empty array\")", "same for split_tail (findings/repro/F42_split_tail_*.mmm)")
add("F43", ["C03"], "C03.value-aborts|abort|plugin::builtin_functins::str_char_at::macro_function|string index / parse result|panic!( \"str_char_at: index {} out of bounds for s", "macro stage: `str_char_at(\"abc\", 5.0)` panics the compiler (both back ends) instead of a diagnostic (findings/repro/F43_*.mmm)")


# ---- reference-count pairing (C12.pairing) -----------------------------------------------------------------
add("F44", ["C12"], "C12.pairing|instr|Function", "closures are retained (CloneHeap) whenever they are passed to a function or returned, but the release inserter emits CloseHeapClosure for a function-typed value, which does not decrement anything: `fn app(f,x){f(x)} fn dsp(){ app(|x| x*2.0, 3.0) }` and `let g = mk(2.0)` grow by one closure and one heap object per sample (findings/repro/F44_F46_refcount_leaks/)")
add("F45", ["C12"], "C12.pairing|scope|arguments", "arguments are cloned by the caller for the callee, no function exit releases its parameters: `fn f(l: List) -> float { 1.0 }  f(l)` grows by one heap object per sample")
add("F46", ["C12"], "C12.pairing|scope|eval_union_match", "names bound by a constructor pattern get a cloned payload that is never released: `match l { Nil => 0.0, Cons(h, t) => h }` grows by one heap object per sample")
add("F46", ["C12"], "C12.pairing|scope|add_bind_pattern", "same for a `let` tuple pattern: `let (l, g) = (Cons(1.0, Nil), 2.0)` grows by one heap object per sample")
add("F46", ["C12"], "C12.pairing|scope|bind_pattern", "same for a tuple pattern inside a constructor pattern: `Pair((l, g)) => g` grows by one heap object per sample")
add("F46", ["C12"], "C12.pairing|scope|compile_decision_tree", "same for payload bindings of a tuple match: `match (l, 1.0) { (Cons(h, t), 1) => h, _ => 0.0 }` grows by one heap object per sample")


# ---- WASM scheduler: scheduled closures are reclaimed (C11.closure-lifetime, also a VM/WASM difference) ----------
add("F47", ["C11", "C01"], "C11.closure-lifetime|executor|generate_exec_closure_trampoline", "two self-rescheduling functions (`a@(now+2.0)` in a, `b@(now+5.0)` in b): `_mimium_exec_closure_void` restores the allocation pointer after each task, the re-scheduled closure's memory is reused by the next task, and WASM runs b where a was due: VM 0,1,101,102,102,103 … vs WASM 0,1,101,201,201,201 … (findings/repro/F47_*.mmm, run with the scheduler plugin)")


# ---- assignment protocol (C04.assign-protocol) ----------------------------------------------------------------
add("F55", ["C04"], "C04.assign-protocol|kind|RecordExpr", "`let r = {a = x = 1.0, b = 2.0}`: the record literal's lowering reads `a = x` and drops `= 1.0` without any diagnostic (x stays 0.0 on both back ends); findings/repro/F53_residual_record_field_assignment.mmm")

# ---- error vectors dropped by the unifier (C03.error-drop) ----------------------------------------------------
add("F56", ["C03"], "C03.error-drop|drop|compiler::typing::unification|collect|x1", "element-wise tuple unification collects the element errors and answers Ok when the remaining relations are consistent: `fn f(a:float, b:(float)->float){ b(a) }  fn dsp(){ f(1.0, 2.0) }` passes the type checker; the VM panics `Invalid indirect callable`, WASM traps `indirect call type mismatch` (findings/repro/F56_tuple_unify_drops_errors.mmm; _b: a number passed for a tuple gives an invalid WASM module). Returning the errors makes 6 existing tests fail: the suite pins the number of diagnostics of many_errors.mmm at 10, and the `str + 2.0` in that file is itself an instance of the defect (an 11th, correct, diagnostic appears); fixtures with default-valued record parameters rely on the leniency too. So it is recorded, not repaired")

# ---- invented binder names (C16.invented-names) ----------------------------------------------------------------
add("F65", ["C16", "C10"], "C16.invented-names|binder|feed_id{}", "`fn dsp(){ let feed_id0 = 5.0  self * 0.5 + feed_id0 }` gives 7.5, 7.5, 7.5 where the same program with the variable called `k` gives 5, 7.5, 8.75: convert_self binds the feedback variable of `self` under the spellable name feed_id<N>, which captures the user's variable (findings/repro/F65_*.mmm). Not repaired: the repository's unit test convert_pronoun::test pins the spelling `feed_id0`")
fixed("F66", "C16", "2dc402d", "C16.lookahead-nesting|depth|Parser::<'a>::is_tuple_expr", "`let r = ({a = 1.0, b = 2.0})  r.a + r.b` and `let f = (|x, y| x + y)`: is_tuple_expr looked for a comma at parenthesis depth 0 and counted only parentheses, so the comma of the record / of the lambda parameters made the parenthesised expression a one-element tuple; mirgen panicked (`expected record type for field access`, `non function type`); findings/repro/F66_*.mmm")
fixed("F66", "C16", "2dc402d", "C16.lookahead-nesting|depth|Parser::<'a>::parse_type_tuple_or_paren::{closure#0}", "same scan for types: `(x: ({a:float, b:float}))`")
fixed("F67", "C16", "3dc550a", "C16.block-scope|block|MIR-generator", "`let x = 1.0  let y = { let x = 2.0  x }  x + y` gave 4.0 on both back ends (3.0 with the inner binder renamed to z): the type checker opens a scope for a block, the MIR generator evaluated the body in the enclosing environment, so the inner `let` replaced the outer binding for the rest of the function (findings/repro/F67_*.mmm)")
fixed("F68", "C17", "aef7ba1", "C17.routes|final-target|convert_qualified_var", "`mod internal { fn secret(){ 42.0 } }  mod api { pub use internal::secret }  fn dsp(){ api::secret() }` compiled and returned 42.0: the qualified route checked the visibility of `api$secret` (public by construction of the re-export) and then handed out `internal$secret` without checking it (findings/repro/F68_*.mmm)")
fixed("F69", "C18", "fd781a2", "C18.prims|rust-array-index", "`a[1.0/0.0]`: after the VM was aligned with the WASM back end (F27) the Rust generator still wrote `else if !index_value.is_finite() { 0usize }` into the generated program: element 0 in the transpiled program, the last element on the VM. Found by the new generated-source rule (the statement is a string constant of the generator, parsed and evaluated); reported independently by a seeding agent from reading the code")
for _a in ("Mem", "Delay"):
    fixed("F70", "C18", "dfac186", "C18.borrow|arm|" + _a, "`fn dsp(){ let t = (now, 2.0)  mem(t.0) }`: the generated program holds `state` (&mut of the state storage) while it evaluates the operand, and a tuple element is read through `self.memory`: rustc rejects the transpiled program with E0502 (findings/repro/F70_*.mmm; `mimium-cli --emit-rust` + `rustc --crate-type lib`)")
for _p in ("C03", "C01"):
    fixed("F74", _p, "21ad381", "C03.type-substitution|arm|GetArrayElem", "`fn first(xs:[a]) -> a { xs[0.0] }  fn dsp(){ let t = first([(1.0, 2.0), (3.0, 4.0)])  t.0 * 10.0 + t.1 }`: substitute_types_in_instruction had no arm for GetArrayElem / SetArrayElem, the monomorphised copy kept the element type `a` (one word): WASM returned 0.0, the VM 12.0 (findings/repro/F74_*.mmm)")
fixed("F75", "C03", "80dcc4b", "C03.error-drop|discard|compiler::typing::InferContext::infer_type::{closure#21}|unify_types", "`let s = (1.0, 2.0)  match s { 1 => 10.0, _ => 20.0 }`: the result of unifying the pattern's type with the scrutinee's was thrown away (`let _ = self.unify_types(..)`): accepted, VM 10.0, the WASM module does not compile (findings/repro/F75_numeric_pattern_on_tuple.mmm)")
fixed("F75", "C03", "80dcc4b", "C03.error-drop|discard|compiler::typing::InferContext::infer_type|unify_types", "`match s { 1 => 10.0, _ => (1.0, 2.0) }`: the arms' types were unified and the result thrown away: accepted, VM 10.0, the WASM module does not compile (findings/repro/F75_match_arms_of_different_types.mmm)")
fixed("F75", "C03", "80dcc4b", "C03.error-drop|discard|compiler::typing::InferContext::check_pattern_against_type|unify_types", "same discard for literal patterns inside tuple patterns (multi-scrutinee match)")
fixed("F75", "C03", "80dcc4b", "C03.error-drop|discard|compiler::typing::InferContext::infer_type::{closure#14}|unify_types", "same discard for the provisional type of a recursive definition against its body (no failing input found for this site; repaired with the others)")
fixed("F64", "C16", "cfb0ebe", "C16.invented-names|binder|record_update_temp", "`let record_update_temp = 7.0  let q = {r <- a = record_update_temp}` failed to type-check (the desugared record update binds a temporary of that name, and the type checker special-cases the name): the temporary is now called `record_update$temp`, which no program can spell (findings/repro/F64_*.mmm)")

# ---- `|` after a parameter annotation (C16.annotation-ambiguity) ------------------------------------------------
add("F71", ["C16"], "C16.annotation-ambiguity|pipe|ParenBegin", "`let f = |x:float| (x + 1.0)` does not parse (`Expected ParenEnd, found OpSum`) while `|x| (x + 1.0)` and `|x:float| x + 1.0` do: after the annotation the parser reads `| (` as the continuation of a union type. Adding an agreeing annotation changes whether the program compiles (findings/repro/F71_*paren*.mmm). Not repaired: it needs a decision about the grammar (unions in lambda parameters would have to be parenthesised)")
add("F71", ["C16"], "C16.annotation-ambiguity|pipe|ArrayBegin", "same for a body that starts with `[`: `|x:float| [x, 1.0]` (findings/repro/F71_*array*.mmm)")

# ---- WASM never frees boxed values (C12.wasm-release) ----------------------------------------------------------
add("F72", ["C12"], "C12.wasm-release|host|usersum_release", "`type rec List = Nil | Cons(float, List)  fn dsp(){ let l = Cons(now, Cons(2.0, Nil))  head(l) }` on the WASM back end: the host's heap holds 2, 4, 6, … objects after 1, 2, 3, … samples (a scratch `eprintln!` of `state.heap.len()` in box_alloc_host; findings/repro/F72_*.mmm): wasmgen lowers ReleaseUserSum to `usersum_release(0, size, 0)` with placeholder arguments and usersum_release_host only logs. Not repaired: it needs the value's address and a type table on the WASM side")

# ---- F76 / F77 (found by seeding agents as pristine oddities; rules written from the constructs) ------------------
for _p in ("C09", "C10"):
    fixed("F76", _p, "313668e", "C09.pattern-cover|arm|translate_staging::pattern_to_symbol|Record", "`let {a = x} = r` inside quoted code: the staging translation reduced a record pattern to the key of its first field (`fields.first()`), bound the whole record under that name and left `x` unbound; the compiler panicked with `value extfun x ! not found` (findings/repro/F76_*.mmm)")
    fixed("F76", _p, "313668e", "C09.pattern-cover|arm|translate_staging::pattern_to_symbol|Tuple", "same reduction for a tuple pattern nested in a position the tuple translation did not handle")
for _fn in ("print_lambda_expr", "print_record_expr", "print_macro_expansion"):
    fixed("F77", "C14", "ff0d6b2", "C14.skipped-trivia|skip|%s|Comma|guarded" % _fn, "`{a = 1.0, /* c */ b = 2.0}`, `|x, /* c */ y| ..`, `m!(a, /* c */ b)`: the guarded `Comma if in_..` arm of %s swallowed the comma without reading its trivia; the comment was lost" % _fn)

# ---- F78 (reported by a seeding agent as a pristine oddity; the loop classifier of C15.hash was refined until it derives it)
fixed("F78", "C15", "6f307f1", "C15.hash|iter|compiler::typing::InferContext::register_type_declarations|HashMap|for-insert-foreign-key", "`type A = Foo | Bar  type B = Foo | Baz  fn dsp(){ match Foo { Foo => 1.0, Bar => 2.0 } }`: the type declarations were visited in HashMap order and each constructor name inserted into one map, so which type `Foo` belonged to changed from run to run: 4 of 8 runs printed 1.0, the others rejected the match as not exhaustive (findings/repro/F78_shared_constructor_name.mmm)")


# ---- F79 (the scratch-local rule, written for a seeded change, reported it on the unchanged tree)
fixed("F79", "C03", "d8514e8", "C05.scratch|function-scoped|alloc_ptr_save_local", "`fn dsp(){ let k = 1.0  let f = | | { k + 1.0 }  f() }` on WASM, dsp called directly: emit_runtime_alloc used the local that holds the entry function's saved allocator pointer as its temporary, so the restore at `Return` wrote back the end of the last allocation; `__alloc_ptr` read 1024, 1056, 1088, ... after successive calls instead of staying at 1024 (the module's own protection against per-sample growth never worked; only the host's rewind in WasmDspRuntime::run_dsp hid it) (findings/repro/F79_alloc_save_slot/)")


# ---- F80 (mentioned by a seeding agent as a pristine oddity; C18.verbatim derives it)
fixed("F80", "C18", "f6bed1a", "C18.verbatim|replace|rewrite_infallible_generated_line|?", "`fn dsp(){ let s = \"what? memory.wav\"  1.0 }`: the Rust generator rewrote `?` to `.unwrap()` and `memory.` to `self.memory.` in every finished line of an infallible function, also inside the string literal of the program written into that line: the transpiled program allocates the string \"what.unwrap() self.memory.wav\" (findings/repro/F80_rust_string_literal/)")
fixed("F80", "C18", "f6bed1a", "C18.verbatim|replace|rewrite_infallible_generated_line|memory.", "same defect, second pattern (`memory.`)")


# ---- F81 (reported by a round-7 seeding agent as a capture that already exists on the pinned tree; the rule had listed the name as an audited exception "no failing input")
add("F81", ["C16", "C10"], "C16.invented-names|binder|__lambda_arg_{}", "`3.0 ||> mix(_, twice!(inc(_))(1.0))` gives 34.0 on both back ends where the same program with the inner partial application written by hand (`twice!(|inner| `{ inc($inner) })`) gives 33.0: the parameter of a `_` lambda is named after the argument position (`__lambda_arg_1` for both holes here) and the inlining of `||>` substitutes by name, so the piped 3.0 also fills the hole of the inner lambda (findings/repro/F81_placeholder_capture.mmm). Not repaired: the spelling is pinned by the unit test convert_pronoun::test::test_placeholder_converts_to_macro_lambda")


# ---- F82 (the type-kinds rule, written for a seeded change, reported it on the unchanged tree)
fixed("F82", "C14", "55c8369", "C14.dispatch|type-kinds|print_lambda_expr", "`let f = |x:float|->float|int x`: the lambda printer's list of node kinds that count as a return type lacked UnionType (the lowering accepts nine kinds of type); the formatter printed `|x:float|-> float|intx`, gluing the body to the last member of the union (findings/repro/F82_lambda_union_return_type.mmm)")


def main():
    extra = os.path.join(HERE, "tools", "findings_more.py")
    if os.path.exists(extra):
        src = open(extra).read()
        exec(compile(src, extra, "exec"), {"add": add, "FIXED": FIXED, "B": B})
    with open(os.path.join(HERE, "known_findings.json"), "w") as f:
        json.dump({"findings": F, "fixed": FIXED}, f, indent=1)
        f.write("\n")
    print(len(F), "finding keys,", len(FIXED), "fixed")


if __name__ == "__main__":
    main()

