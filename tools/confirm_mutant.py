#!/usr/bin/env python3
"""Confirm a seeded change in its scratch worktree:
   confirm_mutant.py <worktree> <mutdir> <dest-tests-dir-relative> <package>
 1. pristine + demo: the demo test binary passes
 2. patched + demo: the whole workspace suite passes except tests of the demo binary, and the demo fails
Writes <mutdir>/confirm.json.  Leaves the worktree reverted and the demo removed."""
import glob
import json
import os
import re
import subprocess
import sys
import time

wt, mutdir, dest, pkg = sys.argv[1:5]
demos = [p for p in glob.glob(os.path.join(mutdir, "demo", "*")) if not p.endswith(".md")]
names = [os.path.splitext(os.path.basename(p))[0] for p in demos if p.endswith(".rs")]
env = dict(os.environ, CARGO_NET_OFFLINE="true", MIMIUM_BACKEND="", CARGO_INCREMENTAL="0")
env.pop("MIMIUM_BACKEND")


def sh(cmd, **kw):
    return subprocess.run(cmd, cwd=wt, env=env, stdout=subprocess.PIPE, stderr=subprocess.STDOUT, text=True, **kw)


def summary(out):
    m = re.findall(r"Summary.*", out)
    fails = sorted(set(re.findall(r"^\s+(?:FAIL|SIGABRT|SIGSEGV|TIMEOUT)\s+\[[^\]]*\]\s+(?:\(\s*\d+/\d+\)\s+)?(\S+ \S+)", out, re.M)))
    return (m[-1] if m else "no summary"), fails


res = {"mutdir": mutdir, "worktree": wt, "demo_tests": names, "at": time.strftime("%F %T")}
sh(["git", "checkout", "--", "."])
sh(["git", "clean", "-fdq", "-e", "target"])
for p in demos:
    os.makedirs(os.path.join(wt, dest), exist_ok=True)
    sh(["cp", "-r", p, os.path.join(wt, dest)])
# 1. pristine
args = ["cargo", "nextest", "run", "--offline", "-p", pkg, "--no-fail-fast"]
for n in names:
    args += ["--test", n]
r = sh(args)
s, f = summary(r.stdout)
res["pristine_demo"] = {"rc": r.returncode, "summary": s, "fails": f}
# 2. patched
r = sh(["git", "apply", os.path.join(mutdir, "patch.diff")])
res["apply_rc"] = r.returncode
r = sh(["cargo", "nextest", "run", "--workspace", "--no-fail-fast", "--offline", "--test-threads", "8"])
s, f = summary(r.stdout)
open(os.path.join(mutdir, "confirm_suite.log"), "w").write(r.stdout[-20000:])
nondemo = [x for x in f if not any(("::" + n + " ") in (x + " ") or x.split(" ")[0].endswith("::" + n) for n in names)]
res["patched_suite"] = {"rc": r.returncode, "summary": s, "fails": f, "non_demo_fails": nondemo}
res["confirmed"] = bool(
    res["pristine_demo"]["rc"] == 0 and res["apply_rc"] == 0 and f and not nondemo
)
sh(["git", "checkout", "--", "."])
for p in demos:
    t = os.path.join(wt, dest, os.path.basename(p))
    if os.path.exists(t):
        os.remove(t)
json.dump(res, open(os.path.join(mutdir, "confirm.json"), "w"), indent=1)
print(json.dumps(res)[:600])
