"""Prompt for structure-changing refactors (false-alarm campaign, third wave). Nothing about the checks is disclosed."""
import sys
name, wt, area = sys.argv[1], sys.argv[2], sys.argv[3]
print(f"""You are helping to evaluate a verification effort for an open-source Rust project, mimium-rs (a functional language for sound: parser, type inference, MIR, bytecode VM and WASM backends). The verification tooling must stay silent on harmless maintenance edits; your job is to produce such edits. This wave is about edits that change the STRUCTURE of the code without changing behaviour.

Your scratch copy: {wt} (a git worktree of the project, with a warm `target/` build directory so builds are incremental). Work ONLY inside {wt} and write your results to /tmp/wt/{name}-out/. Never touch /repo or /verif (do not read them either). The sandbox is offline: always pass --offline to cargo. Run `export CARGO_INCREMENTAL=0` first; keep target/ below ~12 GB (delete target/debug/incremental and old extension-less test executables in target/debug/deps if it grows). Do not create extra copies of the repository.

Task: produce EIGHT independent, BEHAVIOUR-PRESERVING patches ("st1" .. "st8") in this area of the code base:

  {area}

Kinds (use each at least once, in the most central, intricate functions of the area — the big dispatch functions, the loops with bookkeeping, the recursive walkers): (1) extract one arm of a big `match` into a new private method/function and call it from the arm; (2) extract a loop body or a multi-statement block into a helper; (3) inline a small private helper into its callers and delete it; (4) split a long function into two phases (e.g. collect, then emit) without changing the order of effects; (5) replace a closure by a named private fn (or a named fn by a closure at its only use); (6) introduce a local variable for a repeated sub-expression / replace a temporary by its expression; (7) change a `for` loop over an index range into iteration over the slice with `enumerate()` (or back), or `while let` into `for`, keeping the same order and the same early exits; (8) merge two adjacent `if` branches with identical bodies, or replace `if cond {{ return x }} y` by `if cond {{ x }} else {{ y }}`; flip an `if`/`else` by negating the condition; turn a `match` on a bool/Option into `if let`/`if`.
Be strict: exactly the same outputs, errors, panics, ordering and side effects for every input; if unsure, do not use the edit. 15-90 changed lines each. Do not touch tests, messages, public API, data layouts, or anything looked up by string.
Each patch must compile (whole workspace) and pass the suite unchanged: `cargo nextest run --workspace --no-fail-fast --offline --test-threads 8` (358 tests). You may batch non-overlapping patches into one suite run (say so in meta.json).

Deliverables, for each N in 1..8:
  /tmp/wt/{name}-out/stN/patch.diff  — `git diff` of the change ONLY (must apply to the pristine tree with `git apply`; each patch independent of the others)
  /tmp/wt/{name}-out/stN/meta.json   — {{"kind": "...", "summary": "...", "files_touched": [...], "why_behaviour_preserving": "...", "suite_result_with_change": "..."}}
When finished, leave the worktree reverted (`git checkout -- .`). Reply with a short list of the edits.""")
