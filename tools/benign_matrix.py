#!/usr/bin/env python3
"""Run every registered check against each behaviour-preserving refactor under benign/ (apply to a scratch worktree of
/repo, run all checks, undo).  A check that reports a NEW violation on such a tree raised a false alarm.
Writes benign/MATRIX.md.  Quality control only; not part of any registered check.
usage: benign_matrix.py --scratch <worktree> [ids...]"""
import json, os, re, subprocess, sys

HERE = os.path.dirname(os.path.dirname(os.path.abspath(__file__)))


def main():
    argv = sys.argv[1:]
    i = argv.index("--scratch")
    REPO = argv[i + 1]
    del argv[i:i + 2]
    env = dict(os.environ, VERIF_REPO=REPO, VERIF_WORK=REPO.rstrip("/") + "-work", VERIF_EVIDENCE=REPO.rstrip("/") + "-evidence")
    checks = [c["property_id"] for c in json.load(open(os.path.join(HERE, "MANIFEST.json")))["checks"]]
    ids = sorted(d for d in os.listdir(os.path.join(HERE, "benign")) if os.path.isdir(os.path.join(HERE, "benign", d)))
    subprocess.run(["git", "-C", REPO, "checkout", "--", "."], check=True)
    for bid in ids:
        if argv and bid not in argv:
            continue
        bdir = os.path.join(HERE, "benign", bid)
        r = subprocess.run(["git", "-C", REPO, "apply", os.path.join(bdir, "patch.diff")])
        res = {"applies": r.returncode == 0, "alarms": []}
        if r.returncode == 0:
            try:
                # the first check extracts the facts; the others then run side by side on the cached facts
                first = subprocess.run([os.path.join(HERE, "check"), checks[0]], cwd=HERE, capture_output=True, text=True, env=env)
                from concurrent.futures import ThreadPoolExecutor
                with ThreadPoolExecutor(int(os.environ.get("MATRIX_JOBS", "8"))) as ex:
                    outs = [first] + list(ex.map(lambda c: subprocess.run([os.path.join(HERE, "check"), c], cwd=HERE, capture_output=True, text=True, env=env), checks[1:]))
                for c, out in zip(checks, outs):
                    keys = re.findall(r"^    key : (.*)$", out.stdout, re.M)
                    if out.returncode != 0:
                        res["alarms"].append({"check": c, "keys": keys[:8], "tail": out.stdout[-400:] if not keys else ""})
            finally:
                subprocess.run(["git", "-C", REPO, "checkout", "--", "."])
        json.dump(res, open(os.path.join(bdir, "result.json"), "w"), indent=1)
        print(bid, "SILENT" if res["applies"] and not res["alarms"] else res, flush=True)
    with open(os.path.join(HERE, "benign", "MATRIX.md"), "w") as f:
        f.write("# Behaviour-preserving refactors vs. checks\n\nEach change was written by an independent sub-agent asked for maintenance edits that leave behaviour unchanged\n(358/358 tests with the change). Every registered check was run with the change applied; a new violation is a false alarm.\n\n| id | kind | files | verdict |\n|---|---|---|---|\n")
        for bid in ids:
            bdir = os.path.join(HERE, "benign", bid)
            meta = json.load(open(os.path.join(bdir, "meta.json")))
            rp = os.path.join(bdir, "result.json")
            if not os.path.exists(rp):
                v = "not run"
            else:
                r = json.load(open(rp))
                v = "patch does not apply" if not r["applies"] else ("silent (19 checks)" if not r["alarms"] else "FALSE ALARM: " + "; ".join("%s `%s`" % (a["check"], (a["keys"] or ["?"])[0][:90]) for a in r["alarms"]))
            f.write("| %s | %s | %s | %s |\n" % (bid, str(meta.get("kind", ""))[:60], ", ".join(x.split("/")[-1] for x in meta.get("files_touched", [])), v))


if __name__ == "__main__":
    main()
