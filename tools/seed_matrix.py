#!/usr/bin/env python3
"""Run the registered checks against every kept seeded change (apply to /repo, check, undo) and record which
rule keys fire.  Writes seeded/<id>/meta.json:detected_by and seeded/MATRIX.md.  Quality control only; not part of
any registered check."""
import glob
import json
import os
import re
import subprocess
import sys

HERE = os.path.dirname(os.path.dirname(os.path.abspath(__file__)))
RELATED = {
    "C01": ["C03"], "C03": ["C01"], "C05": ["C07"], "C07": ["C05", "C08"], "C06": ["C07"], "C08": ["C07"],
    "C09": ["C10"], "C10": ["C17", "C09"], "C13": ["C04"], "C04": ["C13"], "C17": ["C10"], "C18": ["C01"],
}


def main():
    # --scratch <dir>: run against a scratch worktree of /repo (its own work and evidence directories) so that /repo and
    # /verif/evidence stay untouched and the matrix can run while other work goes on
    argv = sys.argv[1:]
    REPO = "/repo"
    env = dict(os.environ)
    if "--scratch" in argv:
        i = argv.index("--scratch")
        REPO = argv[i + 1]
        del argv[i:i + 2]
        env.update(VERIF_REPO=REPO, VERIF_WORK=REPO.rstrip("/") + "-work", VERIF_EVIDENCE=REPO.rstrip("/") + "-evidence")
    only = [a for a in argv if not a.startswith('--')]
    table_only = '--table-only' in sys.argv
    rows = []
    seeds = sorted(d for d in os.listdir(os.path.join(HERE, "seeded")) if os.path.isdir(os.path.join(HERE, "seeded", d)))
    subprocess.run(["git", "-C", REPO, "diff", "--quiet"], check=True)
    for sid in seeds:
        if table_only or (only and sid not in only):
            continue
        sdir = os.path.join(HERE, "seeded", sid)
        meta = json.load(open(os.path.join(sdir, "meta.json")))
        prop = meta["property"]
        r = subprocess.run(["git", "-C", REPO, "apply", os.path.join(sdir, "patch.diff")])
        if r.returncode != 0:
            rows.append((sid, prop, "patch no longer applies", []))
            continue
        det = []
        try:
            for c in [prop] + RELATED.get(prop, []):
                out = subprocess.run([os.path.join(HERE, "check"), c], cwd=HERE, capture_output=True, text=True, env=env)
                keys = re.findall(r"^    key : (.*)$", out.stdout, re.M)
                if out.returncode != 0 and keys:
                    det.append({"check": c, "keys": keys[:6]})
        finally:
            subprocess.run(["git", "-C", REPO, "checkout", "--", "."])
        meta["detected_by"] = det
        json.dump(meta, open(os.path.join(sdir, "meta.json"), "w"), indent=1)
        rows.append((sid, prop, "DETECTED" if det else "missed", det))
        print(sid, "DETECTED" if det else "missed", [(d["check"], d["keys"][0][:80]) for d in det], flush=True)
    # the table always lists every kept seed (verdicts of seeds not re-run now come from their meta.json)
    allrows = []
    for sdir in sorted(glob.glob(os.path.join(HERE, "seeded", "C*-m*"))):
        meta = json.load(open(os.path.join(sdir, "meta.json")))
        det = meta.get("detected_by") or []
        allrows.append((os.path.basename(sdir), meta.get("property"), "DETECTED" if det else "missed", det))
    with open(os.path.join(HERE, "seeded", "MATRIX.md"), "w") as f:
        f.write("# Seeded changes vs. checks\n\nEach change was written by an independent sub-agent that saw only the property text, and was confirmed by me\n(demo passes on the pristine tree, fails with the change; the 358-test suite still passes with the change).\n\n| seed | property | verdict | first reporting rule key |\n|---|---|---|---|\n")
        for sid, prop, verdict, det in allrows:
            k = "; ".join("%s: `%s`" % (d["check"], d["keys"][0][:110]) for d in det)
            f.write("| %s | %s | %s | %s |\n" % (sid, prop, verdict, k))
    # evidence/ was rewritten while seeds were applied: re-run every claimed check on the restored tree
    for ev in sorted(glob.glob(os.path.join(HERE, "evidence", "C*.json"))) if REPO == "/repo" else []:
        c = os.path.basename(ev)[:-5]
        r = subprocess.run([os.path.join(HERE, "check"), c], cwd=HERE, capture_output=True, text=True)
        if r.returncode != 0:
            print("!!", c, "does not pass on the restored tree")
    print("done", len(rows))


if __name__ == "__main__":
    main()
