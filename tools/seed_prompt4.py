import json,sys
pid=sys.argv[1]; WT=sys.argv[2] if len(sys.argv)>2 else "/tmp/wt/"+pid
p=[json.loads(l) for l in open('/verif/properties.jsonl') if json.loads(l)['id']==pid][0]
print(f"""You are helping to evaluate a verification effort by producing realistic *seeded defects* for an open-source Rust project, mimium-rs (a functional language for sound: parser, type inference, MIR, bytecode VM and WASM backends).

Your scratch copy: {WT}  (a git worktree of the project at its pinned commit, with a warm `target/` build directory so builds are incremental). Work ONLY inside {WT} and write your results to /tmp/wt/{pid}-out4/. Never touch /repo or /verif (do not read them either). The sandbox is offline: always pass --offline to cargo. Do not create extra copies of the repository or extra target directories (disk is limited).

The property (a semantic property the project is supposed to satisfy):

  Title: {p['title']}
  Statement: {p['statement']}
  Quantified over: {p['quantifier']['text']}

Task: produce TWO independent source changes ("mut1", "mut2", touching different mechanisms/sites if at all possible) to mimium-rs, each of which
  (a) breaks the property above (for some input/program/history),
  (b) still compiles (whole workspace),
  (c) still passes the project's existing test suite unchanged: run `cargo nextest run --workspace --no-fail-fast --offline --test-threads 8` (fallback `cargo test --workspace --no-fail-fast --offline`) — 358 tests pass on the pristine tree; they must all still pass with your change,
  (d) comes with a demonstration: a new test (e.g. an extra file under an existing crate's tests/ directory, or a #[test] in a new file) or small program that FAILS with the change and PASSES without it. The demonstration is not part of the patch.
The change must look like a realistic mistake (a plausible refactor, optimisation, off-by-one, dropped case, wrong operator, missing bookkeeping, changed table entry ...), be small (a few lines), and must need something specific to manifest: an unusual input, a multi-step sequence of operations, a particular size/boundary, or two cooperating sites that each look fine alone — NOT something ordinary use or the existing tests would expose at once. Do not add comments that point at the defect. Do not modify existing tests.

Prefer sites away from the single most obvious one: the consumer side rather than the producer side, the less central of the files involved, error/edge paths, boundary arithmetic, bookkeeping that is only exercised by nested or repeated use. The two changes must be in different files.

Read the code relevant to the property first to find good sites. Be efficient: incremental `cargo build --offline -p <crate>` while iterating, full test run only to confirm.

Deliverables, for each N in 1,2 (if you can only manage one good one, deliver one):
  /tmp/wt/{pid}-out4/mutN/patch.diff   — `git diff` of the source change ONLY (must apply to the pristine tree with `git apply`)
  /tmp/wt/{pid}-out4/mutN/demo/        — the demonstration file(s) plus RUN.md with the exact commands to run it and where the file(s) must be placed in the tree
  /tmp/wt/{pid}-out4/mutN/meta.json    — {{"property": "{pid}", "summary": what the change does, "needs": what is needed for it to manifest, "files_touched": [...], "commands_run": [...], "suite_result_with_change": "...", "demo_result_with_change": "...", "demo_result_without_change": "..."}}
When finished, leave the worktree with the source changes reverted (`git checkout -- .`) but you may leave untracked demo files. Reply with a short summary (what each mutant changes, where, and how it manifests).""")
