"""Prompt for behaviour-preserving refactors (false-alarm campaign). Nothing about the checks is disclosed."""
import sys
name, wt, area = sys.argv[1], sys.argv[2], sys.argv[3]
print(f"""You are helping to evaluate a verification effort for an open-source Rust project, mimium-rs (a functional language for sound: parser, type inference, MIR, bytecode VM and WASM backends). The verification tooling must stay silent on harmless maintenance edits; your job is to produce such edits.

Your scratch copy: {wt} (a git worktree of the project, with a warm `target/` build directory so builds are incremental). Work ONLY inside {wt} and write your results to /tmp/wt/{name}-out/. Never touch /repo or /verif (do not read them either). The sandbox is offline: always pass --offline to cargo. Do not create extra copies of the repository or extra target directories (disk is limited).

Task: produce SIX independent, BEHAVIOUR-PRESERVING source changes ("ref1" .. "ref6") of the kind a maintainer does during ordinary clean-up, in this area of the code base:

  {area}

Each change must
  (a) leave the observable behaviour of the compiler, runtimes and tools EXACTLY unchanged for every input (same outputs, same errors, same panics or absence of panics, same ordering) — be strict about this: if you are not sure that an edit is semantics-preserving, do not use it;
  (b) compile (whole workspace) and pass the existing test suite unchanged: `cargo nextest run --workspace --no-fail-fast --offline --test-threads 8` (fallback `cargo test --workspace --no-fail-fast --offline`), 358 tests;
  (c) be a realistic refactor of 10-80 changed lines, and each of the six should use a DIFFERENT kind of edit and touch different functions. Kinds to draw from: rename a function / method / local variable / struct field (and all uses); extract a block of a long function into a new helper function or method (or inline a small helper into its only caller); reorder the arms of a `match` (where arms are disjoint) or the order of independent statements; replace `if let`/`else` chains by `match` or vice versa; replace an explicit loop by iterator adaptors or vice versa; introduce a named constant or a small newtype-free wrapper function for a repeated expression; move a function to another place in the same file or split a closure out into a named fn; change `a.len() == 0` to `a.is_empty()` and similar clippy-style rewrites; add early returns / guard clauses instead of nested ifs; rename enum-unrelated helper modules' private items. Prefer edits inside the central, intricate functions of the area (the big dispatch functions, the loops, the bookkeeping code) rather than in peripheral code, because that is where tooling is most likely to be brittle.
Do not change comments only. Do not touch tests. Do not change public behaviour, messages, or data layouts.

Deliverables, for each N in 1..6:
  /tmp/wt/{name}-out/refN/patch.diff  — `git diff` of the change ONLY (must apply to the pristine tree with `git apply`; each patch independent of the others)
  /tmp/wt/{name}-out/refN/meta.json   — {{"kind": "...", "summary": "...", "files_touched": [...], "why_behaviour_preserving": "...", "suite_result_with_change": "..."}}
Run the full suite at least once per patch (you may batch: apply several independent patches together for one suite run if they do not overlap, then state that in meta.json). When finished, leave the worktree with the source changes reverted (`git checkout -- .`). Reply with a short summary of the six edits.""")
