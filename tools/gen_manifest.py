#!/usr/bin/env python3
"""Regenerate MANIFEST.json from the claims table below (kept next to the code so both change together)."""
import json
import os

HERE = os.path.dirname(os.path.dirname(os.path.abspath(__file__)))

CLAIMS = {}
NA = {
    "C02": "The property equates the output sample stream of every core-language program with an independent call-by-value definition of the semantics; that is a statement about computed values over all programs and run lengths, which no static argument in reach of this machinery bounds (it would need a second, trusted semantics and an equivalence proof of two evaluators). The structural ingredients that are visible in the shape of the code are decided under the properties that own them and are not claimed again here: per-call-site state cells and their offsets (C05.states-flow, C05.branch-accounting, C05.order, C05.site-table), literal fidelity and operator agreement (C01.bounds, C01.ops), delay/mem primitives (C01.prims). See DESIGN.md section 5.",
}


def claim(pid, category, text, note, technique, design):
    CLAIMS[pid] = dict(category=category, text=text, note=note, technique=technique, design=design)


def na(pid, reason):
    NA[pid] = reason


TB = ("Trusted base: rustc nightly's type-checked MIR of the native cfg (-Zmir-opt-level=0) is the program; the mirx "
      "extractor and the Python rule engines; audited exception table sa/tables/exceptions.toml (one reason per key). "
      "Third-party crates are not analysed.")

claim(
    "C01", "other",
    "Static sibling cross-check of the two back ends: (cover) every mir::Instruction variant mirgen can construct has a "
    "non-diverging handler in the bytecode lowering, the WASM lowering and, one level down, the VM dispatch loop; (ops) "
    "operator templates extracted from the VM arms and from the emitted wasm instruction sequences agree on an f64/i64 "
    "class domain, host math imports call the same f64 method, the `if` truthiness tests agree at every emission site; "
    "(bounds) narrowing casts on operand-encoding paths and bump allocators are range-checked; (tables) runtime tables agree. "
    "Decides necessary conditions of agreement; whole-program output equality is not decided.",
    TB, "MIR-fact sibling cross-check: enum coverage + operator-template abstract evaluation + bounded-encoding dataflow",
    "DESIGN.md §2 C01",
)

ALL = ["C%02d" % i for i in range(1, 21)]


def main():
    import importlib.util

    extra = os.path.join(HERE, "tools", "claims.py")
    if os.path.exists(extra):
        spec = importlib.util.spec_from_file_location("claims", extra)
        m = importlib.util.module_from_spec(spec)
        m.claim, m.na, m.TB, m.CLAIMS = claim, na, TB, CLAIMS
        spec.loader.exec_module(m)
    checks = []
    for pid in ALL:
        if pid not in CLAIMS:
            continue
        c = CLAIMS[pid]
        checks.append(
            {
                "property_id": pid,
                "quick_cmd": "./check %s --tier quick" % pid,
                "thorough_cmd": "./check %s --tier thorough" % pid,
                "evidence_file": "/verif/evidence/%s.json" % pid,
                "replay_cmd_template": "./check --replay {path}",
                "engine": "sa",
                "level_claimed": {"category": c["category"], "text": c["text"], "design_ref": c["design"]},
                "level_note": c["note"],
                "technique": c["technique"],
            }
        )
    nas = []
    for pid in ALL:
        if pid in CLAIMS:
            continue
        nas.append({"property_id": pid, "reason": NA.get(pid, "no static rule implemented yet in this commit (machinery under construction); see DESIGN.md §2")})
    man = {
        "version": 1,
        "setup_cmd": "cd /verif/mirx && CARGO_NET_OFFLINE=true cargo build --release --offline",
        "hooks": {
            "guard": "mimium_org_mimium_rs_verif",
            "enable": "none needed: the static analysis reads the unmodified build (cargo +nightly check with /verif/mirx as RUSTC_WORKSPACE_WRAPPER)",
            "baseline_off_cmd": "cd /repo && cargo nextest run --workspace --no-fail-fast --offline --test-threads 8 || cargo test --workspace --no-fail-fast --offline",
            "source_commits": [],
            "add_only": True,
        },
        "engines": [
            {"name": "mirx", "path": "/verif/mirx", "serves_properties": sorted(CLAIMS), "kind_free_text": "rustc_private driver: dumps type-checked MIR facts (bodies, promoted constants, ADTs, statics, impls) of every workspace crate"},
            {"name": "sa", "path": "/verif/sa", "serves_properties": sorted(CLAIMS), "kind_free_text": "Python rule engines over the MIR facts: coverage, abort reachability, bounded encodings, operator templates, path rules, lock graph, tables"},
        ],
        "checks": checks,
        "notes": "Technique family: static analysis only. Every check rebuilds facts from /repo's working tree (content-hashed cache under /verif/.work), reports constructs keyed without line numbers, prints KNOWN-FINDING lines for entries of known_findings.json and VIOLATION lines for anything else.",
        "not_applicable": nas,
    }
    with open(os.path.join(HERE, "MANIFEST.json"), "w") as f:
        json.dump(man, f, indent=1)
        f.write("\n")


if __name__ == "__main__":
    main()
