#!/bin/bash
# mm.sh file.mmm [times] : run on both back ends, print stdout (csv) and any panic line (hand triage only; not used by checks)
export HOME=/tmp/triage/home; mkdir -p $HOME
CLI=/verif/.work/cli-target/debug/mimium-cli
for b in vm wasm; do
  out=$(timeout 30 $CLI "$1" --backend=$b --no-gui --output-format=csv --times ${2:-3} ${MMFLAGS} 2>/tmp/triage/err.$b); rc=$?
  echo "[$b rc=$rc] $(echo "$out" | tr '\n' ' ' | cut -c1-200)"
  grep -a -m2 "panicked at\|Error\|error:\|not defined\|cannot" /tmp/triage/err.$b | sed 's/\x1b\[[0-9;]*m//g' | cut -c1-220
  grep -a -A1 -m1 "panicked at" /tmp/triage/err.$b | tail -1 | cut -c1-200
done
