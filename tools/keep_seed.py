#!/usr/bin/env python3
"""keep_seed.py <out/mutN dir> <seed id>: copy a confirmed seeded change into /verif/seeded/<id>/"""
import json, os, shutil, sys
src, sid = sys.argv[1:3]
dst = os.path.join(os.path.dirname(os.path.dirname(os.path.abspath(__file__))), "seeded", sid)
os.makedirs(dst, exist_ok=True)
shutil.copy(os.path.join(src, "patch.diff"), dst)
if os.path.isdir(os.path.join(dst, "demo")):
    shutil.rmtree(os.path.join(dst, "demo"))
shutil.copytree(os.path.join(src, "demo"), os.path.join(dst, "demo"))
meta = json.load(open(os.path.join(src, "meta.json")))
conf = json.load(open(os.path.join(src, "confirm.json")))
out = {
    "seed": sid,
    "property": meta.get("property"),
    "summary": meta.get("summary"),
    "needs": meta.get("needs"),
    "files_touched": meta.get("files_touched"),
    "author": "independent sub-agent given only the property text and a scratch worktree",
    "confirmed_by_me": {
        "what_i_ran": "tools/confirm_mutant.py: demo on the pristine worktree (must pass), then `git apply patch.diff` and `cargo nextest run --workspace --no-fail-fast --offline --test-threads 8` with the demo placed in the tree",
        "pristine_demo": conf["pristine_demo"],
        "patched_suite": {k: conf["patched_suite"][k] for k in ("summary", "fails", "non_demo_fails")},
        "confirmed": conf["confirmed"],
        "at": conf["at"],
    },
    "detected_by": [],
}
json.dump(out, open(os.path.join(dst, "meta.json"), "w"), indent=1)
print("kept", dst)
