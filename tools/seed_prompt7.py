"""Round-7 prompt: the round-5 brief (which lists the sites earlier seeds used) with round-7 output paths."""
import subprocess, sys
pid = sys.argv[1]; WT = sys.argv[2]
base = subprocess.run([sys.executable, "/verif/tools/seed_prompt5.py", pid, WT], capture_output=True, text=True).stdout
print(base.replace("/tmp/wt/%s-out5" % pid, "/tmp/wt/%s-out7" % pid))
