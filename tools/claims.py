# claims for tools/gen_manifest.py (claim, na, TB are injected)
claim(
    "C03", "other",
    "Static necessary conditions for crash-freedom: every explicit abort on the compile+run path by which the code states an "
    "input class is unhandled (todo!/unimplemented!, unreachable!/panic!/expect delegating to an earlier stage) must lie in a "
    "dead match arm (variant never constructed upstream), behind a pass verified to eliminate the form, or be audited; every "
    "cycle of the VM dispatch loop advances the program counter; shared with C01: no producible instruction without handler, "
    "no unchecked operand narrowing / unbounded bump allocator. Implicit panics are censused only; termination not decided.",
    TB, "call-graph reachability of stated-belief aborts + enum producer/consumer coverage + loop-progress path rule + bounded-encoding dataflow",
    "DESIGN.md §2 C03",
)
