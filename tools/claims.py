# claims for tools/gen_manifest.py (claim, na, TB are injected)
claim(
    "C03", "other",
    "Static necessary conditions for crash-freedom: every explicit abort on the compile+run path by which the code states an "
    "input class is unhandled (todo!/unimplemented!, unreachable!/panic!/expect delegating to an earlier stage) must lie in a "
    "dead match arm (variant never constructed upstream), behind a pass verified to eliminate the form, or be audited; every "
    "cycle of the VM dispatch loop advances the program counter; shared with C01: no producible instruction without handler, "
    "no unchecked operand narrowing / unbounded bump allocator. Implicit panics are censused only; termination not decided.",
    TB, "call-graph reachability of stated-belief aborts + enum producer/consumer coverage + loop-progress path rule + bounded-encoding dataflow",
    "DESIGN.md §2 C03",
)
claim(
    "C08", "other",
    "Construction-site discipline of the state-tree diff, decided on MIR: copy patches are built in exactly one function, only "
    "under the true edge of the shape predicate, from the two path_to_address results; both shape predicates (nodes_match and "
    "the hand-written PartialEq used by the no-change fast path) are false off the diagonal of node kinds and compare both "
    "payloads on it; the LCS table recurrence reads exactly its canonical predecessors; each backtrack step moves the cursors "
    "consistently with the result it pushes; destination buffer is a fresh zeroed vector of the new size; equality short-cut "
    "precedes diffing; child offsets are prefix sums. Optimality of the greedy backtrack is not decided.",
    TB, "symbolic path enumeration of loop bodies and match arms over MIR (recurrence/cursor-delta templates), who-may-construct, dominance of guards",
    "DESIGN.md §2 C08",
)
