# claims for tools/gen_manifest.py (claim, na, TB are injected)
claim(
    "C03", "other",
    "Static necessary conditions for crash-freedom: every explicit abort on the compile+run path by which the code states an "
    "input class is unhandled (todo!/unimplemented!, unreachable!/panic!/expect delegating to an earlier stage) must lie in a "
    "dead match arm (variant never constructed upstream), behind a pass verified to eliminate the form, or be audited; every "
    "cycle of the VM dispatch loop advances the program counter; shared with C01: no producible instruction without handler, "
    "no unchecked operand narrowing / unbounded bump allocator. Implicit panics are censused only; termination not decided.",
    TB, "call-graph reachability of stated-belief aborts + enum producer/consumer coverage + loop-progress path rule + bounded-encoding dataflow",
    "DESIGN.md §2 C03",
)
claim(
    "C08", "other",
    "Construction-site discipline of the state-tree diff, decided on MIR: copy patches are built in exactly one function, only "
    "under the true edge of the shape predicate, from the two path_to_address results; both shape predicates (nodes_match and "
    "the hand-written PartialEq used by the no-change fast path) are false off the diagonal of node kinds and compare both "
    "payloads on it; the LCS table recurrence reads exactly its canonical predecessors; each backtrack step moves the cursors "
    "consistently with the result it pushes; destination buffer is a fresh zeroed vector of the new size; equality short-cut "
    "precedes diffing; child offsets are prefix sums. Optimality of the greedy backtrack is not decided.",
    TB, "symbolic path enumeration of loop bodies and match arms over MIR (recurrence/cursor-delta templates), who-may-construct, dominance of guards",
    "DESIGN.md §2 C08",
)
claim(
    "C04", "other",
    "No-stall and no-stated-abort clauses of front-end totality: every loop cycle of the CST parser is shown (by symbolic "
    "enumeration with token-kind knowledge and pruning of infeasible re-tests) to advance the cursor, observe progress "
    "against a snapshot, be counted / pure look-ahead, or be forced out on the next iteration; the context-sensitive graph of "
    "parser calls reachable before any consumption is acyclic; no stated-belief abort reachable from the parse/type-check "
    "entry points outside dead arms, verified eliminating passes or audited guards; entry points return Err when parse errors "
    "exist; MIR generation only receives inference contexts whose errors were inspected; the tokenizer (a PEG model of its "
    "combinator value, extracted from MIR) consumes every bounded string in steps of at least one character; cycle detectors "
    "look into every composite type form; diagnostic spans are built from offsets found in the text. Implicit panics and stack "
    "depth are not decided.",
    TB, "abstract interpretation of parser loops (cursor progress domain with token-kind knowledge), recursion-guard graph, abort reachability, dominance of error gates, bounded evaluation of the extracted lexer model, backward slicing of span operands",
    "DESIGN.md §2 C04",
)
claim(
    "C13", "other",
    "Linearity of the CST over the token stream, decided on MIR: single writer of the parser cursor (+1 per call) which is also "
    "the only caller of add_token and adds the token at the old cursor; start_node*/finish_node balanced on every path and loop "
    "cycle of every parser method; root loop leaves only at end of input (with C04.progress: each non-trivia token enters the tree "
    "exactly once, in order); trivia: the pending list of the pre-parser loses elements only into the trivia maps; token extents "
    "come from one span / end marker / tiling chain; the lexer, as a PEG model of the combinator value it is built from, tiles "
    "every string over a 14-character alphabet up to a length bound and never repeats a step that consumes nothing. chumsky's own "
    "span arithmetic is trusted.",
    TB, "typestate/linearity rules over MIR: who-may-write, who-may-call, balanced-pair counting on enumerated paths, sink analysis; bounded exhaustive evaluation of the lexer model extracted from MIR",
    "DESIGN.md §2 C13",
)
claim(
    "C05", "other",
    "Bookkeeping discipline of the one place that computes the state layout, and size agreement of its consumers: the `self`-cell "
    "size function agrees variant by variant with word_size; WASM scratch reservations derived from word_size are never reduced; in "
    "every layout concatenation of the MIR generator parts are listed in the order they take effect (calls by call position, a "
    "fresh cell by the position of its accessing instruction); every emitted PushStateOffset is accounted in the sum popped at "
    "function exit; only push/pop/reset write the run-time cursor; the VM sizes state storage from the skeleton before executing. "
    "Run-time equality of cursor and layout offsets, and VM/WASM state-word equality, are not decided.",
    TB, "per-variant template comparison of sibling size functions, event-order analysis of symbolic paths, pairing/accounting rule, who-may-write",
    "DESIGN.md §2 C05",
)
claim(
    "C11", "other",
    "Agreement of the VM and WASM task queues and the per-sample protocol, decided on MIR: same container/element type; Task's Ord "
    "compares the due time only; the f64→sample-index conversion at enqueue is the same bare truncation on both runtimes; both "
    "enqueue paths reject `when <= current`; both drain loops pop only under `when <= now`; in both run_dsp implementations the "
    "plugin workers run before the dsp call. Exactly-once over histories, tie order and closure lifetime are not decided.",
    TB, "sibling-implementation cross-check: template comparison of conversion/ordering expressions, dominance of guards, must-precede",
    "DESIGN.md §2 C11",
)
claim(
    "C20", "other",
    "Variant-level round trip of the plugin FFI encoding, exhaustive over variants, decided on MIR: for every interpreter::Value "
    "variant the encoder returns Err or an FfiValue variant whose decoder arm rebuilds the same variant, with scalar payloads passed "
    "through unchanged and no payload field dropped; for the hand-written serde of Type, serializer (index, name) constants equal "
    "the ordinal/name of the deserializer's identifier enum and each identifier arm constructs the same Type variant. Byte-level "
    "behaviour of bincode is not decided.",
    TB, "exhaustive enum-arm template extraction (symbolic return values per variant) and writer/reader table agreement",
    "DESIGN.md §2 C20",
)
claim(
    "C09", "other",
    "Encode/decode agreement of the staging translation, decided on MIR: both translators match every Expr form explicitly; every "
    "emitted combinator name is registered with the same arity; for every Expr form one emitted combinator's implementation rebuilds "
    "that form; typed value→code conversion slices aggregates by running word offsets; all f64→literal formatting sites use the plain "
    "`{}` template; invented names are gensyms. Output equality of staged and hand-expanded programs is not decided.",
    TB, "writer/reader table agreement (string-constant dataflow), enum coverage, per-arm structural templates",
    "DESIGN.md §2 C09",
)
claim(
    "C10", "other",
    "Structural necessary conditions for hygiene: every binder-introducing combinator emission is classified (fresh name vs. "
    "source-named = capture site; all source-named today, known finding F20); names invented by the translation come only from the "
    "counter-based gensym; the resolver's scope stack is manipulated only through balanced push/pop so local binders are never "
    "forgotten around quotes/splices. Output invariance under renaming is not decided.",
    TB, "value-must-flow-from (binder name provenance), who-may-write and balanced-pair rules over MIR paths",
    "DESIGN.md §2 C10",
)
claim(
    "C17", "other",
    "Structural necessary conditions for module privacy: flattener arms that register module members also register their "
    "visibility; each resolution route (alias chain, wildcard, qualified path) consults visibility_map and reports or filters; the "
    "resolver's lexical scope stack is only touched by its own balanced push/pop (locals shadow imports). Unique resolution for "
    "concrete module trees is not decided.",
    TB, "per-arm field-access pairing, route coverage of the visibility lookup, who-may-write + balanced-pair path rule",
    "DESIGN.md §2 C17",
)
claim(
    "C14", "other",
    "Writer/reader agreement between CST parser and CST printer: explicit dispatch on every SyntaxKind; kinds printed by bare token "
    "concatenation must be kinds the parser only builds from one token (else adjacent tokens are glued: known finding F11); every "
    "comment-kind test in the printer names both comment kinds; tokens are emitted through the single function that also emits both "
    "trivia maps; the rendered text is returned without textual post-processing. AST equality, idempotence and width behaviour for "
    "concrete inputs are not decided.",
    TB, "parser/printer table agreement computed from both sides' MIR (node-construction shapes vs. dispatch arms), sibling-predicate agreement, taint-style no-rewrite rule",
    "DESIGN.md §2 C14",
)
claim(
    "C15", "other",
    "Determinism lint over the call graph of the compile entry points and the migration planner: every HashMap/HashSet iteration "
    "(and every ordered map keyed by an interner id) is classified by its consumer; order-sensitive consumers must be audited; no "
    "sort/max/min key or comparison of interner-id type (ids follow interning history); no clock/RNG/environment/address reads. "
    "Byte equality of outputs is not decided.",
    TB, "call-graph reachability + consumer classification of unordered iterations (def-use chains, loop-body effect analysis)",
    "DESIGN.md §2 C15",
)
claim(
    "C12", "other",
    "Retain/release discipline as sibling agreement on MIR: all Return* arms of the VM dispatch perform the same release calls; arms "
    "that allocate closures register them in the frame's release list; the compiler's clone/release/close inserters and the VM's "
    "clone/release walkers handle the same Type variants; recursive Type predicates steering reference counting quantify every "
    "aggregate arm with `any`. Boundedness over time is not decided.",
    TB, "sibling cross-check of match arms and of paired recursive walkers (enum coverage sets, per-arm callee sets)",
    "DESIGN.md §2 C12",
)
claim(
    "C06", "other",
    "Flow rules on the no-change path of the hot swap: VM — on the no-plan branch the new state buffer is a length-preserving copy "
    "of the old one, no slice-length-precondition copies; WASM — snapshot precedes engine replacement, the equal-layout branch "
    "installs a clone of the snapshot, every success path installs a state buffer, per-engine settings are forwarded after the "
    "replacement; planner's equality short-cut (C08.apply). Sample equality and the effect of re-running main are not decided.",
    TB, "value-must-flow-from and must-precede rules on enumerated symbolic paths of the swap functions",
    "DESIGN.md §2 C06",
)
claim(
    "C07", "other",
    "Structural necessary conditions for state-preserving hot swap after an edit: payloads are sent only on Ok arms; WASM payloads "
    "carry the compiler's layout (literal None audited); migration destination buffers are zero-filled on both runtimes (sibling "
    "agreement); the migration-plan rules of C08 and the layout-order rule of C05 hold. Which sites an edit leaves untouched and "
    "their continuity are not decided.",
    TB, "dominance of Result arms over sends, constant-argument dataflow, sibling agreement, shared C08/C05 rules",
    "DESIGN.md §2 C07",
)
claim(
    "C18", "other",
    "Coverage-or-refusal and sibling agreement of the Rust transpiler: every producible mir::Instruction variant has an explicit "
    "non-diverging arm in the emitting pass; the `delay` primitive of the runtime template embedded in generated programs (compiled "
    "stand-alone by the extractor) agrees with the VM ring buffer on clamp bounds, read index and write advance; the name-collision "
    "test sanitises candidates with the sanitiser that produces the emitted name. Compilability and outputs of emitted sources are "
    "not decided.",
    TB, "enum producer/consumer coverage, three-way sibling template comparison of runtime primitives (VM / WASM host / Rust template), normal-form agreement",
    "DESIGN.md §2 C18",
)
claim(
    "C19", "other",
    "Inventory and lock discipline of process-global state reachable from the compile and run entry points: every static is "
    "classified (`static mut` and interior-mutable statics outside a synchronisation primitive must be audited); no mutation of the "
    "process environment on the compile path (today: MacroFileEnvGuard, known finding F15); closures run under the interner lock "
    "never re-enter it, and the held→acquired graph over the global locks is acyclic; every `unsafe impl Send/Sync` is audited. "
    "Cross-talk through the shared interner's contents and behaviour under particular schedules are not decided.",
    TB, "global-state inventory from type-checked statics/impls, call-graph reachability of environment mutation, lock-order graph with closure-scoped lock regions",
    "DESIGN.md §2 C19",
)
claim(
    "C16", "other",
    "Narrow structural clauses: every site of the MIR generator that maps a record field name to a slot index does so on the "
    "canonicalised record type (reads, writes, addresses and pattern destructuring agree, so field order in an agreeing annotation "
    "cannot change which slot is accessed); resolution/desugaring passes read every expression-bearing payload field of every Expr "
    "form they match; generated labels inventoried; invented binder names are unspellable; the lexer model (extracted from MIR) "
    "lexes every literal token as itself and is stable under a blank inserted between two tokens; comments end where the "
    "specification says. Parenthesis invariance beyond the tuple look-ahead and inference under annotations are not decided.",
    TB, "sibling agreement of slot-lookup sites (per-arm callee sets), payload-field use analysis per match arm, bounded evaluation of the extracted lexer / comment-lexer models, name-template dataflow",
    "DESIGN.md §2 C16",
)


# ---- clauses added in round 7 (appended to the claim texts above)
_R7 = {
    "C01": " Also: the VM's jump-table index is the plain wrapped difference (a scrutinee below the smallest literal takes the default arm as on WASM); scratch locals of the WASM generator are written before they are read in each lowering arm, function-scoped slots are not clobbered.",
    "C03": " Also: scratch-local discipline of the WASM generator (the entry function's saved allocator pointer is not overwritten by runtime allocations).",
    "C05": " Also: def-before-use of the WASM generator's scratch locals per lowering arm; save / restore of activation fields in the runtimes on every exit.",
    "C06": " Also: the function that installs a state buffer into the new WASM engine installs the whole buffer (no in-place copy bounded by the old length).",
    "C07": " Also: the planner scores every pair of children; the hand-written layout equality compares lengths, not a zipped prefix.",
    "C08": " Also: the planner scores every (old child, new child) pair (ranges 0..len, no narrowing adaptors, recursion through helpers followed); equality of call nodes compares lengths.",
    "C09": " Also: no arm of the quote translation hands a translated child back in place of the node under a test of the child's form; typed lifting never reaches the untyped word-to-code guess without a positive array lookup; walkers over match patterns descend into nested patterns.",
    "C10": " Also: made-up binder names that are spellable identifiers (invented-names), match-pattern walkers descend, quoted blocks keep their block.",
    "C11": " Also: the 64-bit sample counter is not narrowed on the way to `now`; every guarded retain / release in the MIR generator asks about closures and boxed values alike (a closure handed to `@` is retained for the task).",
    "C12": " Also: the scope-exit release of a binding does not depend on whether a continuation follows; guarded retain / release sites ask the same type predicates.",
    "C13": " Also: wrapping from a marker moves every child parsed since the marker.",
    "C14": " Also: trivia read in a printer loop is written in the same iteration or flushed after the loop; a comment cannot hide a line break from the parser.",
    "C15": " Also: set-algebra iterations and ordered maps keyed by a shared interner id are classified like hash iterations.",
    "C16": " Also: sub-patterns are typed with their own type, not the annotation of the enclosing pattern; parenthesised assignments keep both halves; the parser's line-break scan looks past comments.",
    "C17": " Also: a redefinition overwrites the visibility / module context of the earlier definition; the resolver's binder collection descends into nested match patterns.",
    "C18": " Also: word cursors of the ABI walkers advance by the width of what was read; the runtime template restores the caller's function state on every exit; string literals of the program are not rewritten in generated lines.",
    "C19": " Also: iterations over ordered collections keyed by `Symbol` (process-wide interner index).",
    "C20": " Also: every encoder and decoder runs bincode under the same wire configuration; derived serializers write every field / variant.",
}
_R7["C12"] += " Round 8: the heap wrapper of a dropped closure is always released; upvalue descriptors are computed alike where they are built."
_R7["C14"] += " Round 8: type-kind tests of the printers list every kind of type."
_R7["C18"] += " Round 8: generated branch tests go through the template's `truthy`; the template answers the null array handle before looking it up."
for _pid, _txt in _R7.items():
    if _pid in CLAIMS:
        CLAIMS[_pid]["text"] += _txt
