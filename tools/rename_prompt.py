"""Prompt for rename-only refactors (false-alarm campaign, second wave). Nothing about the checks is disclosed."""
import sys
name, wt, area = sys.argv[1], sys.argv[2], sys.argv[3]
print(f"""You are helping to evaluate a verification effort for an open-source Rust project, mimium-rs (a functional language for sound: parser, type inference, MIR, bytecode VM and WASM backends). The verification tooling must stay silent on harmless maintenance edits; your job is to produce such edits. This wave is about RENAMES.

Your scratch copy: {wt} (a git worktree of the project, with a warm `target/` build directory so builds are incremental). Work ONLY inside {wt} and write your results to /tmp/wt/{name}-out/. Never touch /repo or /verif (do not read them either). The sandbox is offline: always pass --offline to cargo. Run `export CARGO_INCREMENTAL=0` first; keep target/ below ~12 GB (delete target/debug/incremental and old extension-less test executables in target/debug/deps if it grows). Do not create extra copies of the repository.

Task: produce EIGHT independent, BEHAVIOUR-PRESERVING rename patches ("ren1" .. "ren8") in this area of the code base:

  {area}

Each patch renames 2-5 related PRIVATE (non-`pub`, or `pub(crate)`/`pub(super)` within the workspace) items and all their uses, consistently: private functions and methods (especially the central helpers that the big functions call many times, recursive helper functions, small setters/getters, allocator / bookkeeping helpers), private struct fields, private structs/enums (not their variants if the enum is public), local variables and closure parameters in the big central functions, private constants and statics, private modules' items. Pick names a maintainer would plausibly choose (clearer, more consistent naming). Different patches must rename different items; spread them over the different files of the area, and prefer items in the central, intricate code over peripheral code.
Rules: do NOT rename anything whose name is observable: items that appear in `#[derive(Debug)]` output that is printed, error messages, serialized names, names exported to plugins or looked up by string (e.g. builtin function names registered in tables, WASM import/export names, `#[no_mangle]`), public API of the crates, test names. If a struct derives Debug and its Debug output may reach logs only, renaming its private fields is acceptable but say so in meta.json. Do not change behaviour, comments-only edits do not count, do not touch tests.
Each patch must compile (whole workspace) and pass the suite unchanged: `cargo nextest run --workspace --no-fail-fast --offline --test-threads 8` (358 tests). You may batch non-overlapping patches into one suite run (say so in meta.json).

Deliverables, for each N in 1..8:
  /tmp/wt/{name}-out/renN/patch.diff  — `git diff` of the change ONLY (must apply to the pristine tree with `git apply`; each patch independent of the others)
  /tmp/wt/{name}-out/renN/meta.json   — {{"kind": "rename", "summary": "old -> new for each item", "files_touched": [...], "why_behaviour_preserving": "...", "suite_result_with_change": "..."}}
When finished, leave the worktree reverted (`git checkout -- .`). Reply with a short list of the renames.""")
