#!/bin/bash
# mk_wt.sh <name> : scratch worktree of /repo HEAD under /tmp/wt/<name> with a warm copy of /repo/target
set -e
mkdir -p /tmp/wt
git -C /repo worktree add --detach /tmp/wt/$1 HEAD >/dev/null 2>&1
cp -r /repo/target /tmp/wt/$1/target
echo /tmp/wt/$1
