"""Round-5 prompt: the round-4 brief plus a list of the sites earlier seeds for this property already used (taken from
seeded/<id>/meta.json: file and one-line summary), so that independent agents stop converging on the same changes.
Nothing about the checks is disclosed."""
import glob, json, subprocess, sys
pid = sys.argv[1]; WT = sys.argv[2]
base = subprocess.run([sys.executable, "/verif/tools/seed_prompt4.py", pid, WT], capture_output=True, text=True).stdout
base = base.replace("/tmp/wt/%s-out4" % pid, "/tmp/wt/%s-out5" % pid)
used = []
for m in sorted(glob.glob("/verif/seeded/%s-m*/meta.json" % pid)):
    d = json.load(open(m))
    files = ", ".join(f.split("/")[-1] for f in (d.get("files_touched") or []))
    used.append("  - %s: %s" % (files, (d.get("summary") or "").strip().replace("\n", " ")[:170]))
extra = "\nEarlier rounds already produced the following changes for this property; do NOT repeat them or close variants of them (same function and same mechanism) — find different mechanisms, preferably in different functions/files:\n" + "\n".join(used) + "\n"
marker = "Read the code relevant to the property first"
print(base.replace(marker, extra + "\n" + marker))
