import json,sys,glob,os
pid=sys.argv[1]; WT=sys.argv[2]
p=[json.loads(l) for l in open('/verif/properties.jsonl') if json.loads(l)['id']==pid][0]
prev=[]
for d in sorted(glob.glob('/verif/seeded/%s-m*/meta.json'%pid)):
    m=json.load(open(d)); prev.append("- %s (files: %s)"%((m.get('summary') or '')[:300].replace('\n',' '), ", ".join(m.get('files_touched') or [])))
base=open('/tmp/wt/prompt.py').read()
import subprocess
txt=subprocess.run(['python3','/tmp/wt/prompt.py',pid,WT],capture_output=True,text=True).stdout
txt=txt.replace('/tmp/wt/%s-out/'%pid,'/tmp/wt/%s-out2/'%pid)
txt=txt.replace('Read the code relevant to the property first to find good sites.','Earlier, independent attempts at this task already produced the following changes; do NOT repeat them or close variants of them — pick different mechanisms, different functions and preferably different files:\n%s\n\nRead the code relevant to the property first to find good sites.'%("\n".join(prev)))
print(txt)
