#!/usr/bin/env python3
"""dev_run.py <Cxx> <factsdir> [rule_fn ...]: run a property module (or single rule functions) on an existing fact
directory without touching /repo or the evidence files (development aid)."""
import importlib, sys, os
HERE = os.path.dirname(os.path.dirname(os.path.abspath(__file__)))
sys.path.insert(0, HERE)
from sa import report
from sa.facts import Facts
pid, fdir = sys.argv[1], sys.argv[2]
mod = importlib.import_module("sa.props.%s" % pid.lower())
ck = report.Check(pid, "quick", mod.LEVEL, mod.EXPLANATION)
facts = Facts(fdir)
if len(sys.argv) > 3:
    for fn in sys.argv[3:]:
        getattr(mod, fn)(ck, facts)
else:
    mod.run(ck, facts, "quick")
for v in ck.violations:
    print("BAD", v["key"], "|", v["msg"][:200])
print("obligations", ck.obligations, "discharged", ck.discharged, "excepted", len(ck.excepted))
