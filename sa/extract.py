"""E0 driver glue: hash /repo's working tree, (re)run the mirx driver under cargo +nightly check,
keep facts under /verif/.work/facts/<treehash>/.  Fails closed: a build error raises BuildFailed."""
import fcntl
import hashlib
import os
import shutil
import subprocess
import sys
import time

VERIF = os.path.dirname(os.path.dirname(os.path.abspath(__file__)))
REPO = os.environ.get("VERIF_REPO", "/repo")
WORK = os.environ.get("VERIF_WORK") or os.path.join(VERIF, ".work")  # development aid: a second work dir for runs against a scratch copy
DRIVER = os.path.join(VERIF, "mirx", "target", "release", "mirx")
MEMBER_PREFIXES = ("mimium", "state-tree", "state_tree")


class BuildFailed(Exception):
    def __init__(self, log):
        super().__init__("cargo check of %s failed; see %s" % (REPO, log))
        self.log = log


def _sysroot():
    return subprocess.check_output(["rustc", "+nightly", "--print", "sysroot"], text=True).strip()


def tree_hash(repo=None):
    repo = repo or REPO
    files = subprocess.check_output(
        ["git", "-C", repo, "ls-files", "-co", "--exclude-standard"], text=True
    ).splitlines()
    h = hashlib.sha256()
    h.update(b"EXTRACT_VERSION 3\0")  # bump when the set of extracted units changes
    # the driver itself is part of what the facts depend on
    for extra in (os.path.join(VERIF, "mirx", "src", "main.rs"),):
        with open(extra, "rb") as f:
            h.update(b"DRIVER\0" + hashlib.sha256(f.read()).digest())
    for rel in sorted(files):
        p = os.path.join(repo, rel)
        if not os.path.isfile(p):
            h.update(b"MISSING\0" + rel.encode() + b"\0")
            continue
        with open(p, "rb") as f:
            h.update(rel.encode() + b"\0" + hashlib.sha256(f.read()).digest())
    return h.hexdigest()[:20]


def build_driver():
    if os.path.exists(DRIVER) and os.path.getmtime(DRIVER) >= os.path.getmtime(
        os.path.join(VERIF, "mirx", "src", "main.rs")
    ):
        return
    env = dict(os.environ, CARGO_NET_OFFLINE="true")
    r = subprocess.run(
        ["cargo", "build", "--release", "--offline"],
        cwd=os.path.join(VERIF, "mirx"),
        env=env,
        stdout=subprocess.PIPE,
        stderr=subprocess.STDOUT,
        text=True,
    )
    if r.returncode != 0:
        sys.stderr.write(r.stdout)
        raise RuntimeError("cannot build the mirx driver")


def _drop_member_fingerprints(target):
    fp = os.path.join(target, "debug", ".fingerprint")
    if not os.path.isdir(fp):
        return
    for d in os.listdir(fp):
        if d.startswith(MEMBER_PREFIXES):
            shutil.rmtree(os.path.join(fp, d), ignore_errors=True)


def run_driver(repo, outdir, target, log, extra_args=("--workspace",)):
    os.makedirs(outdir, exist_ok=True)
    os.makedirs(target, exist_ok=True)
    _drop_member_fingerprints(target)
    env = dict(os.environ)
    sysroot = _sysroot()
    env.update(
        LD_LIBRARY_PATH=os.path.join(sysroot, "lib") + ":" + env.get("LD_LIBRARY_PATH", ""),
        MIRX_OUT=outdir,
        RUSTFLAGS="-Zmir-opt-level=0 -Awarnings",
        RUSTC_WORKSPACE_WRAPPER=DRIVER,
        CARGO_TARGET_DIR=target,
        CARGO_NET_OFFLINE="true",
    )
    env.pop("RUSTC_WRAPPER", None)
    with open(log, "w") as lf:
        r = subprocess.run(
            ["cargo", "+nightly", "check", "--offline", *extra_args],
            cwd=repo,
            env=env,
            stdout=lf,
            stderr=subprocess.STDOUT,
        )
    return r.returncode


TEMPLATE_REL = "crates/lib/mimium-lang/src/compiler/mimium_placeholder.rs.template"


def extract_rust_template(fdir):
    """The runtime embedded in generated Rust programs is a source template of the repository; its markers are
    comments, so it is compiled on its own as crate `mimium_rust_template` and its MIR facts are stored with the
    rest.  A template that no longer compiles stand-alone yields no fact file (checks that need it fail closed)."""
    src = os.path.join(REPO, TEMPLATE_REL)
    if not os.path.exists(src):
        return
    tdir = os.path.join(WORK, "tmpl")
    os.makedirs(os.path.join(tdir, "src"), exist_ok=True)
    with open(os.path.join(tdir, "Cargo.toml"), "w") as f:
        f.write(
            '[package]\nname = "mimium_rust_template"\nversion = "0.0.0"\nedition = "2024"\n'
            '[lib]\npath = "src/lib.rs"\n[workspace]\n'
        )
    text = open(src).read()
    # The dispatch marker sits inside a `match` whose remaining arms diverge; left empty, everything after the match
    # (the epilogue that unwinds the closure-state stack and restores the caller's function state) is dead code and
    # absent from the MIR.  A stand-in arm that returns normally keeps the epilogue analysable.
    text = text.replace("/*__HANDLE_DISPATCH__*/", "            Some(index) if index == 0 && args.is_empty() => Vec::new(),")
    with open(os.path.join(tdir, "src", "lib.rs"), "w") as f:
        f.write(text)
    shutil.rmtree(os.path.join(tdir, "target", "debug", ".fingerprint"), ignore_errors=True)
    run_driver(tdir, fdir, os.path.join(tdir, "target"), os.path.join(fdir, "template-build.log"), extra_args=())


def ensure_facts(verbose=True):
    """Return (facts_dir, treehash, seconds_spent, reused)."""
    t0 = time.time()
    os.makedirs(WORK, exist_ok=True)
    lock = open(os.path.join(WORK, "extract.lock"), "w")
    fcntl.flock(lock, fcntl.LOCK_EX)
    try:
        build_driver()
        th = tree_hash()
        fdir = os.path.join(WORK, "facts", th)
        done = os.path.join(fdir, "DONE")
        failed = os.path.join(fdir, "FAILED")
        log = os.path.join(fdir, "build.log")
        if os.path.exists(done):
            return fdir, th, time.time() - t0, True
        if os.path.exists(failed):
            raise BuildFailed(log)
        if os.path.isdir(fdir):
            shutil.rmtree(fdir)
        os.makedirs(fdir)
        if verbose:
            print("[extract] tree %s: running mirx over the workspace ..." % th, file=sys.stderr)
        rc = run_driver(REPO, fdir, os.path.join(WORK, "target"), log)
        if rc != 0:
            open(failed, "w").write("rc=%d\n" % rc)
            raise BuildFailed(log)
        extract_rust_template(fdir)
        open(done, "w").write(th + "\n")
        # keep only the most recent few fact sets
        root = os.path.join(WORK, "facts")
        sets = sorted(
            (os.path.join(root, d) for d in os.listdir(root)),
            key=lambda p: os.path.getmtime(p),
        )
        for old in sets[:-6]:
            shutil.rmtree(old, ignore_errors=True)
        return fdir, th, time.time() - t0, False
    finally:
        fcntl.flock(lock, fcntl.LOCK_UN)
        lock.close()


if __name__ == "__main__":
    try:
        d, th, s, reused = ensure_facts()
    except BuildFailed as e:
        print(e)
        sys.exit(1)
    print(d, "reused" if reused else "extracted", "%.1fs" % s)
