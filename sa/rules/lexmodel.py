"""Model of the tokenizer's combinator expressions (chumsky), decided against a small-alphabet specification.

The tokenizer is not a hand-written loop but a value: a tree of parser combinators built by calls such as
`just("/*").ignore_then(any().and_is(just("*/").not()).repeated()).then_ignore(just("*/"))`.  Symbolic execution of the
function that builds it yields that tree exactly (every node is a call with its arguments).  This module gives the
combinators their PEG meaning (ordered choice, greedy repetition without backtracking, `not`/`rewind` as zero-width
look-ahead, `and_is` as conjunction at the same position) and evaluates the extracted tree — not the program — on
every string over a small alphabet up to a length bound, comparing the consumed length with the specification of the
token.  The program is never run; what is evaluated is the model read off its MIR.

A combinator the model does not know makes the rule fail closed (`unmodelled`)."""
import itertools


class Unmodelled(Exception):
    pass


def _strip(e):
    while isinstance(e, tuple) and e and e[0] in ("ref", "deref"):
        e = e[1]
    return e


def _const_text(e):
    e = _strip(e)
    if isinstance(e, tuple) and e and e[0] == "k":
        v = e[1]
        if isinstance(v, str):
            return v
        if isinstance(v, int) and len(e) > 2 and e[2] == "char":
            return chr(v)
    raise Unmodelled("non-constant pattern %r" % (e,))


def build(e):
    e = _strip(e)
    if not (isinstance(e, tuple) and e and e[0] == "call"):
        raise Unmodelled("not a combinator: %r" % (e,))
    name = e[1].split("<")[0].split("::")[-1]
    a = e[2]
    if name in ("clone", "boxed", "labelled", "as_context", "lazy", "padded_by_nothing"):
        return build(a[0])
    if name == "just":
        return ("lit", _const_text(a[0]))
    if name == "any":
        return ("any",)
    if name == "none_of":
        return ("none_of", frozenset(_const_text(a[0])))
    if name == "one_of":
        return ("one_of", frozenset(_const_text(a[0])))
    if name == "end":
        return ("end",)
    if name == "newline":
        return ("newline",)
    if name == "or":
        return ("or", build(a[0]), build(a[1]))
    if name in ("then", "ignore_then", "then_ignore"):
        return ("seq", build(a[0]), build(a[1]))
    if name == "repeated":
        return ("star", build(a[0]), 0)
    if name == "at_least":
        inner = build(a[0])
        if inner[0] != "star":
            raise Unmodelled("at_least on a non-repetition")
        n = _strip(a[1])
        if not (isinstance(n, tuple) and n[0] == "k"):
            raise Unmodelled("at_least with a non-constant bound")
        return ("star", inner[1], int(n[1]))
    if name == "not":
        return ("not", build(a[0]))
    if name == "and_is":
        return ("and", build(a[0]), build(a[1]))
    if name == "rewind":
        return ("peek", build(a[0]))
    if name in ("ignored", "to", "to_slice", "map", "map_with", "slice"):
        return build(a[0])
    if name == "or_not":
        return ("opt", build(a[0]))
    if name == "delimited_by":
        return ("seq", build(a[1]), ("seq", build(a[0]), build(a[2])))
    raise Unmodelled("combinator `%s`" % name)


def match(n, s, i):
    """position after the match, or None"""
    k = n[0]
    if k == "lit":
        return i + len(n[1]) if s.startswith(n[1], i) else None
    if k == "any":
        return i + 1 if i < len(s) else None
    if k == "none_of":
        return i + 1 if i < len(s) and s[i] not in n[1] else None
    if k == "one_of":
        return i + 1 if i < len(s) and s[i] in n[1] else None
    if k == "end":
        return i if i == len(s) else None
    if k == "newline":
        if s.startswith("\r\n", i):
            return i + 2
        return i + 1 if i < len(s) and s[i] in "\n\r" else None
    if k == "or":
        r = match(n[1], s, i)
        return r if r is not None else match(n[2], s, i)
    if k == "seq":
        r = match(n[1], s, i)
        return None if r is None else match(n[2], s, r)
    if k == "star":
        cur, cnt = i, 0
        while True:
            r = match(n[1], s, cur)
            if r is None or r == cur:
                break
            cur, cnt = r, cnt + 1
        return cur if cnt >= n[2] else None
    if k == "not":
        return i if match(n[1], s, i) is None else None
    if k == "and":
        r = match(n[1], s, i)
        if r is None or match(n[2], s, i) is None:
            return None
        return r
    if k == "peek":
        return i if match(n[1], s, i) is not None else None
    if k == "opt":
        r = match(n[1], s, i)
        return i if r is None else r
    raise Unmodelled(k)


def comment_spec(s):
    """length of the comment token at the start of s, or None"""
    if s.startswith("//"):
        for j in range(2, len(s)):
            if s[j] in "\n\r":
                return j
        return len(s)
    if s.startswith("/*"):
        k = s.find("*/", 2)
        return None if k < 0 else k + 2
    return None


def check_comments(tree, alphabet="/*a\n", maxlen=7):
    """first string (shortest, then lexicographic in the alphabet's order) on which the model and the specification
    disagree, as (string, model, spec); None if they agree everywhere"""
    n = 0
    for L in range(0, maxlen + 1):
        for tup in itertools.product(alphabet, repeat=L):
            s = "".join(tup)
            n += 1
            m = match(tree, s, 0)
            sp = comment_spec(s)
            if m != sp:
                return (s, m, sp), n
    return None, n
