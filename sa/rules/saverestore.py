"""Save / restore discipline of a field around a nested activation.

A function that copies a field of `self` into a local (the *saved* value), overwrites the field, and stores the local
back (the *restore*) states that the field belongs to the caller again when the function returns.  Every CFG path from
an overwrite to a normal return must then pass a restore: a restore under a condition that does not cover an exit
leaves the callee's value in the field for the rest of the caller's activation."""
from ..cfg import reachable
from ..facts import KIND, callee


def _field_key(pl):
    """a place rooted in *self (argument 1) that ends in named fields -> tuple of field names, else None"""
    if pl[0] != 1 or not pl[1] or pl[1][0] != "*":
        return None
    names = []
    for e in pl[1][1:]:
        if isinstance(e, list) and e[0] == "f":
            names.append(e[2] or str(e[1]))
        else:
            return None
    return tuple(names) if names else None


def instances(f):
    """yield (field, saved_local, overwrites[(b, i)], restores[(b, i)])"""
    saves = {}
    stores = {}
    for b, blk in enumerate(f.bb):
        if blk["c"]:
            continue
        for i, st in enumerate(blk["s"]):
            if st[KIND] != "a":
                continue
            dst, rv = st[4], st[5]
            if rv[0] == "use" and rv[1][0] in ("cp", "mv") and not dst[1]:
                k = _field_key(rv[1][1])
                if k:
                    saves.setdefault(k, []).append((dst[0], b, i))
            k = _field_key(dst)
            if k:
                stores.setdefault(k, []).append((b, i, rv))
        # `let saved = self.field.clone();` — the reference is taken in a statement, the copy is the call's result
        t = blk["t"]
        if t[KIND] == "call" and (callee(t) or "").split("::")[-1] == "clone" and len(t[5]) == 1 and not t[6][1]:
            a = t[5][0]
            if a[0] in ("cp", "mv") and not a[1][1]:
                for st in blk["s"]:
                    if st[KIND] == "a" and st[4] == [a[1][0], []] and st[5][0] == "ref":
                        k = _field_key(st[5][1])
                        if k:
                            saves.setdefault(k, []).append((t[6][0], b, len(blk["s"])))
    from ..cfg import DefIndex
    di = DefIndex(f)

    def origin(op):
        """the local an operand is a plain copy of (temporaries followed)"""
        for _ in range(6):
            if op[0] not in ("cp", "mv") or op[1][1]:
                return None
            d = di.single_def(op[1][0])
            if d is not None and d[1] is not None and d[2][5][0] == "use" and d[2][5][1][0] in ("cp", "mv") and not d[2][5][1][1][1]:
                op = d[2][5][1]
                continue
            return op[1][0]
        return None

    for k, sv in saves.items():
        for (loc, sb, si) in sv:
            if len(di.defs.get(loc, [])) != 1:
                continue
            rest = [(b, i) for (b, i, rv) in stores.get(k, []) if rv[0] == "use" and origin(rv[1]) == loc]
            if not rest:
                continue
            over = [(b, i) for (b, i, rv) in stores.get(k, []) if (b, i) not in rest]
            # only overwrites that come after the save
            after = set(reachable(f, sb))
            over = [(b, i) for (b, i) in over if (b in after and (b != sb or i > si))]
            if over:
                yield k, loc, over, rest


def unrestored_exit(f, over, rest):
    """a normal return reachable from an overwrite without passing a restore, or None"""
    rblocks = {}
    for b, i in rest:
        rblocks.setdefault(b, []).append(i)
    for (ob, oi) in over:
        if ob in rblocks and any(i > oi for i in rblocks[ob]):
            continue
        seen = set()
        work = [s for s in f.succs(ob) if not f.is_cleanup(s)]
        while work:
            b = work.pop()
            if b in seen:
                continue
            seen.add(b)
            if b in rblocks:
                continue
            if f.term(b)[KIND] == "return":
                return (ob, oi, b)
            work.extend(s for s in f.succs(b) if not f.is_cleanup(s))
    return None


def run(ck, facts, R, crate, scope=None, floor=1, why=""):
    ck.rule(R, "save / restore: where a function copies a field of `self` into a local, overwrites the field and stores the local back, every path from the overwrite to a normal return passes the store that restores it" + (" (" + why + ")" if why else ""))
    n = 0
    seen = {}
    for f in facts.crate(crate).fns:
        if f.kind == "promoted" or (scope and scope not in f.path):
            continue
        for k, loc, over, rest in instances(f):
            n += 1
            key = "save-restore|%s|%s" % (f.short.split("::")[-1] if crate != "mimium_lang" else f.short, ".".join(x.split("::")[-1] for x in k))
            seen[key] = seen.get(key, 0) + 1
            if seen[key] > 1:
                key += "#%d" % seen[key]
            ex = unrestored_exit(f, over, rest)
            if ex is None:
                ck.ok(R, key, {"field": k[-1].split("::")[-1], "overwrites": len(over), "restores": len(rest)})
            else:
                ob, oi, rb = ex
                ck.bad(R, key, "%s saves `%s`, overwrites it for a nested activation and restores it on some paths only: a return is reachable from the overwrite without the restoring store, so the caller goes on with the callee's value in that field (its own state is then looked up in the wrong place for the rest of the sample)" % (f.short, k[-1].split("::")[-1]), f.where(f.stmts(ob)[oi]))
    ck.floor(R, "save_restore_instances", n, floor)
    return n
