"""E5 — parser progress and token linearity over the CST parser's MIR.

Progress: for every natural loop in a method/closure of the parser, every cyclic path (header back to header,
enumerated symbolically with infeasible re-tests of pure `&self` predicates pruned) must show one of
  ADV     a call that must advance the cursor: `bump`, or a parser method all of whose paths first act on the cursor
          by bump / expect(K) with K the token kind known at the call site (from peek()/check() on that path);
  SNAP    an observed inequality between the cursor and a snapshot of it taken earlier in the same iteration;
  ITER    the cycle is driven by Iterator::next on a local iterator and leaves on None (counted loop);
  LOOK    a pure look-ahead loop: no &mut-parser call on the cycle and a local offset strictly increases.
Anything else is a loop that can spin without consuming a token."""
from ..cfg import natural_loops
from ..facts import KIND, callee
from ..symex import PathLimit, SymEx, show

PARSER_TY_MARK = "cst_parser::Parser<"


class ParserModel:
    def __init__(self, facts, crate="mimium_lang", module="::parser::cst_parser::"):
        self.facts = facts
        self.fns = [f for f in facts.crate(crate).fns if module in f.path and f.kind != "promoted"]
        self.by_path = {f.path: f for f in self.fns}
        self.cursor_field = None
        self.bump = None
        self._adv = {}
        self.tokenkind = facts.adt("mimium_lang::compiler::parser::token::TokenKind")
        self.kind_by_discr = {v["d"]: v["n"] for v in self.tokenkind["variants"]} if self.tokenkind else {}
        self.find_cursor()

    # ---- roles -----------------------------------------------------------------------------------
    def find_cursor(self):
        """the cursor = the usize field of Parser that is written (outside constructors); bump = its writer that also
        calls add_token"""
        writers = {}
        for f in self.fns:
            for b, s in f.all_stmts():
                if s[KIND] != "a":
                    continue
                for e in s[4][1]:
                    if isinstance(e, list) and e[0] == "f" and e[2] and "cst_parser::Parser::" in e[2] and s[4][1][-1] is e:
                        writers.setdefault(e[2], []).append((f, s))
        self.field_writers = writers
        cands = []
        for fld, ws in writers.items():
            for f, s in ws:
                if any((callee(t) or "").endswith("GreenTreeBuilder::add_token") for _, t in f.calls()):
                    cands.append((fld, f))
        if cands:
            self.cursor_field, self.bump = cands[0]
        # the other primitives, by signature (private names are free to change):
        #   peekers   fn(&self) -> Option<TokenKind>             what is under the cursor
        #   checkers  fn(&self, TokenKind) -> bool               is the token under the cursor of this kind
        #   expecters fn(&mut self, TokenKind) -> bool           consume it if it is, and they reach `bump`
        #   wrappers  fn(&mut self, SyntaxKind, FnOnce)          run a closure between start_node and finish_node
        self.peekers, self.checkers, self.expecters, self.wrappers = set(), set(), set(), set()
        for f in self.fns:
            if f.kind != "assoc" or f.d["argc"] < 1 or PARSER_TY_MARK not in f.local_ty(1):
                continue
            rt = f.local_ty(0)
            a1 = f.local_ty(1)
            tys = [f.local_ty(i) for i in range(2, f.d["argc"] + 1)]
            if not a1.startswith("&mut") and f.d["argc"] == 1 and "Option<" in rt and rt.endswith("TokenKind>"):
                # the token *at* the cursor: no arithmetic on the cursor, no look-behind / look-ahead helper
                arith = any(st[KIND] == "a" and st[5][0] == "bin" and st[5][1] in ("sub", "sub_ov", "add", "add_ov") for _, st in f.all_stmts()) or any((callee(t) or "").split("::")[-1] in ("checked_sub", "saturating_sub", "checked_add") or ((callee(t) or "") in self.by_path and (callee(t) or "") != f.path and self.by_path[callee(t)].d["argc"] > 1) for _, t in f.calls())
                if not arith:
                    self.peekers.add(f.path)
            if not a1.startswith("&mut") and f.d["argc"] == 2 and rt == "bool" and tys[0].endswith("TokenKind"):
                self.checkers.add(f.path)
            if a1.startswith("&mut") and f.d["argc"] == 2 and rt == "bool" and tys[0].endswith("TokenKind") and self.bump is not None and any((callee(t) or "") == self.bump.path for _, t in f.calls()):
                self.expecters.add(f.path)
            if a1.startswith("&mut") and any(ty.endswith("SyntaxKind") for ty in tys) and any("call_once" in (callee(t) or "") for _, t in f.calls()) and any((callee(t) or "").endswith("GreenTreeBuilder::finish_node") for _, t in f.calls()):
                self.wrappers.add(f.path)

    def takes_mut_parser(self, name):
        f = self.by_path.get(name)
        if f is None:
            return None
        if f.d["argc"] < 1:
            return False
        t = f.local_ty(1)
        return t.startswith("&mut") and PARSER_TY_MARK in t

    def takes_ref_parser(self, name):
        f = self.by_path.get(name)
        if f is None or f.d["argc"] < 1:
            return False
        t = f.local_ty(1)
        return t.startswith("&") and not t.startswith("&mut") and PARSER_TY_MARK in t

    # ---- symbolic execution with epochs ---------------------------------------------------------
    def hook(self, sx, path, t, name, args):
        """tag results of pure &self parser calls with the current mutation epoch so that identical tests are pruned
        only when no &mut-parser call happened in between"""
        ep = getattr(path, "_epoch", None)
        if ep is None:
            ep = sum(1 for e in path.events if e[0] == "call" and self.mutating(e[1], e[2]))
        if self.takes_ref_parser(name):
            return ("call", name, args, ep)
        return None

    def mutating(self, name, args):
        if self.takes_mut_parser(name):
            return True
        if name in self.wrappers:
            return True
        # closures of the parser invoked through FnOnce
        if "call_once" in name or "call_mut" in name:
            return True
        return False

    def known_kind(self, events, upto):
        """token kind under the cursor known at event index `upto` (None if unknown)"""
        kind = None
        epoch_of_kind = None
        epoch = 0
        for i, e in enumerate(events[:upto]):
            if e[0] == "call" and self.mutating(e[1], e[2]):
                epoch += 1
                kind = None
            elif e[0] == "cond":
                c, v, pos = e[1], e[2], e[3]
                k = self._kind_from_cond(c, v, pos, epoch)
                if k:
                    kind = k
        return kind

    def _kind_from_cond(self, c, v, pos, epoch):
        # disc(payload of peek()) == d
        if c[0] == "disc" and pos:
            x = c[1]
            while x[0] in ("ref", "deref"):
                x = x[1]
            if x[0] == "fld" and x[1][0] == "down" and x[1][2] == "Some":
                src = x[1][1]
                while src[0] in ("ref", "deref"):
                    src = src[1]
                if src[0] == "call" and src[1] in self.peekers and len(src) > 3 and src[3] == epoch:
                    return self.kind_by_discr.get(str(v))
        # check(K) == true
        if c[0] == "call" and c[1] in self.checkers and len(c) > 3 and c[3] == epoch:
            truth = (pos and v == 1) or ((not pos) and tuple(v) == (0,))
            if truth and len(c[2]) >= 2:
                k = c[2][1]
                if k[0] == "agg" and "TokenKind::" in k[1]:
                    return k[1].rsplit("::", 1)[1]
        return None

    # ---- must-advance ---------------------------------------------------------------------------------
    def closure_arg(self, args):
        for a in args:
            x = a
            while x[0] in ("ref", "deref"):
                x = x[1]
            if x[0] == "agg" and x[1].startswith("closure:"):
                return x[1][len("closure:"):]
        return None

    def advances(self, name, args, kind, depth=0):
        """does a call to `name` (with symbolic args) always move the cursor, given the known token kind?"""
        if self.bump is not None and name == self.bump.path:
            return True
        if depth > 5:
            return False
        if name in self.wrappers or "call_once" in name:
            c = self.closure_arg(args)
            if c:
                return self.advances_fn(c, kind, depth + 1)
            return False
        if name in self.expecters:
            k = args[1] if len(args) > 1 else None
            if k and k[0] == "agg" and "TokenKind::" in k[1]:
                return kind is not None and k[1].rsplit("::", 1)[1] == kind
            return False
        if self.takes_mut_parser(name):
            return self.advances_fn(name, kind, depth + 1)
        return False

    def advances_fn(self, path, kind, depth):
        key = (path, kind)
        if key in self._adv:
            return self._adv[key]
        self._adv[key] = False  # recursion guard: assume not advancing
        f = self.by_path.get(path)
        if f is None:
            return False
        sx = SymEx(f, max_paths=200, max_steps=6000, call_hook=self.hook, facts=self.facts)
        try:
            paths = sx.run(0)
        except PathLimit:
            self._adv[key] = False
            return False
        res = True
        for p in paths:
            if p.end == "diverge":
                continue
            first = None
            k = kind
            ok = False
            epoch = 0
            for i, e in enumerate(p.events):
                if e[0] == "cond":
                    kk = self._kind_from_cond(e[1], e[2], e[3], 0)
                    if kk:
                        k = kk
                elif e[0] == "call" and self.mutating(e[1], e[2]):
                    ok = self.advances(e[1], e[2], k, depth)
                    break
            if not ok:
                res = False
                break
        self._adv[key] = res
        return res

    # ---- loop classification ------------------------------------------------------------------------------
    def classify_cycle(self, f, p):
        """returns (verdict, detail) for one cyclic path"""
        ev = p.events
        # ADV
        for i, e in enumerate(ev):
            if e[0] == "call" and self.mutating(e[1], e[2]):
                k = self.known_kind(ev, i)
                if self.advances(e[1], e[2], k):
                    return "ADV", "%s%s" % (e[1].split("::")[-1], (" under %s" % k) if k else "")
        # SNAP: a comparison cursor vs snapshot that came out "different"
        for e in ev:
            if e[0] == "cond":
                c, v, pos = e[1], e[2], e[3]
                if c[0] == "bin" and c[1] in ("eq", "ne"):
                    a, b = c[2], c[3]
                    txt = repr((a, b))
                    if self.cursor_field and self.cursor_field in txt:
                        equal = (c[1] == "eq") == ((pos and v == 1) or ((not pos) and tuple(v) == (0,)))
                        if not equal:
                            return "SNAP", "cursor differs from its snapshot"
        # ITER
        for e in ev:
            if e[0] == "call" and e[1].endswith("::next") and "Iterator" in e[1] or (e[0] == "call" and e[1].endswith("::next") and "iter" in e[1]):
                return "ITER", e[1].split("::")[-1]
        # LOOK: no mutating call, some local strictly increased
        if not any(e[0] == "call" and self.mutating(e[1], e[2]) for e in ev):
            for l, val in p.env.items():
                x = val
                inc = 0
                while True:
                    if x[0] == "fld" and x[2] == 0 and x[1][0] == "bin" and x[1][1] == "add_ov" and x[1][3][0] == "k":
                        inc += x[1][3][1]
                        x = x[1][2]
                    else:
                        break
                if inc > 0 and x == ("unk", "_%d" % l):
                    return "LOOK", "offset _%d += %d" % (l, inc)
        return None, None

    def loops(self):
        for f in self.fns:
            for h, body in natural_loops(f):
                yield f, h, body

    def check_loop(self, f, h, body):
        sx = SymEx(f, max_paths=400, max_steps=20000, call_hook=self.hook, facts=self.facts)
        try:
            paths = sx.run(h)
        except PathLimit as e:
            return None, "too many paths: %s" % e, []
        cyc = [p for p in paths if p.end == "loop" and p.end_block == h]
        verdicts = []
        bad = []
        for p in cyc:
            v, d = self.classify_cycle(f, p)
            if v is None:
                # a cycle without progress is harmless if, with what it has learnt, the next iteration cannot stay in
                # the loop without progress (e.g. `cur == before && is_at_end()` followed by the loop test `!is_at_end()`)
                n0 = len(p.events)
                sx2 = SymEx(f, max_paths=400, max_steps=20000, call_hook=self.hook, facts=self.facts)
                try:
                    conts = sx2.run_from(p, h)
                    again = [q for q in conts if q.end == "loop" and q.end_block == h]
                    stuck = []
                    for q in again:
                        q2 = q.fork()
                        q2.events = q.events[n0:]
                        v2, d2 = self.classify_cycle(f, q2)
                        if v2 is None:
                            stuck.append(q)
                    if not stuck:
                        v, d = "EXIT", "the next iteration leaves the loop or makes progress"
                except PathLimit:
                    pass
            verdicts.append((v, d))
            if v is None:
                calls = [e[1].split("::")[-1] for e in p.events if e[0] == "call"][:8]
                bad.append("cycle through blocks %s calling %s" % (p.blocks[:6], calls))
        return (not bad), bad, verdicts
