"""Chain-walk termination rule.

A *chain walker* follows a map from key to key: it looks a key up in a map held in a struct field and feeds (part
of) what it found back as the next key — either by assigning it to the key variable inside a loop, or by passing
it to a recursive call of itself.  User-written text decides the map's contents (`use` aliases, `type alias`
declarations), so a cycle in the map makes the walk run forever / overflow the stack unless there is a
termination argument.  Accepted arguments:
  (visited)  the loop body / the function tests membership in a growing collection
             (HashSet/BTreeSet insert|contains, Vec contains, Iterator::position over a path)
  (acyclic)  every insertion into that map field is control-dependent on the result of a cycle detector
             (a function that itself carries a `visited` argument, directly or through its callees)
Anything else is reported."""
from ..cfg import DefIndex, dominators, natural_loops
from ..facts import KIND, callee, place_fields

MAPS = ("HashMap", "BTreeMap")
VISITED = (("HashSet", ("insert", "contains")), ("BTreeSet", ("insert", "contains")), ("Vec", ("contains",)), ("slice", ("contains",)), ("Iterator", ("position",)), ("[T]", ("contains",)))


def is_lookup(c):
    n = c.split("::")[-1]
    return n in ("get", "get_mut", "get_key_value", "remove") and any(k in c for k in MAPS)


def is_visited_call(c):
    n = c.split("::")[-1]
    return any(k in c and n in names for k, names in VISITED)


def _locals(x, out):
    if isinstance(x, list):
        if len(x) == 2 and x[0] in ("cp", "mv") and isinstance(x[1], list) and x[1] and isinstance(x[1][0], int):
            out.add(x[1][0])
        elif len(x) >= 2 and x[0] in ("ref", "raw", "disc") and isinstance(x[1], list) and x[1] and isinstance(x[1][0], int):
            out.add(x[1][0])
            return
        for y in x:
            _locals(y, out)


def taint(f, seeds):
    T = set(seeds)
    changed = True
    while changed:
        changed = False
        for b, st in f.all_stmts():
            if st[KIND] != "a" or st[4][0] in T:
                continue
            o = set()
            _locals(st[5], o)
            if o & T:
                T.add(st[4][0])
                changed = True
        for b, t in f.calls():
            if t[6] is None or t[6][0] in T:
                continue
            if any(a[0] in ("cp", "mv") and a[1][0] in T for a in t[5]):
                T.add(t[6][0])
                changed = True
    return T


def map_field(f, di, op):
    """name of the struct field holding the map that `op` (receiver of get) refers to"""
    for _ in range(8):
        r = di.resolve(op)
        if r[0] == "rv" and r[1][5][0] in ("ref", "raw"):
            fl = [x for x in place_fields(r[1][5][1]) if x and "::" in x]
            if fl:
                return fl[-1]
            op = ["cp", [r[1][5][1][0], []]]
            continue
        if r[0] == "place":
            fl = [x for x in place_fields(r[1]) if x and "::" in x]
            if fl:
                return fl[-1]
            op = ["cp", [r[1][0], []]]
            continue
        if r[0] == "call" and r[1][5]:
            op = r[1][5][0]
            continue
        return None
    return None


def walkers(f):
    """(kind, lookup term, region blocks or None, field) for each chain walk in f"""
    looks = [(b, t) for b, t in f.calls() if is_lookup(callee(t) or "") and t[6] is not None and len(t[5]) >= 2]
    if not looks:
        return []
    di = DefIndex(f)
    out = []
    loops = None
    for b, t in looks:
        T = taint(f, [t[6][0]])
        fld = map_field(f, di, t[5][0])
        # recursion: a call of f itself (or of its root, for closures) that receives a tainted argument
        for b2, t2 in f.calls():
            c = callee(t2) or ""
            if c == f.path or c == f.root:
                if any(a[0] in ("cp", "mv") and a[1][0] in T for a in t2[5]):
                    out.append(("recursion", t, None, fld, t2))
        # loop: the key variable is assigned from the looked-up value inside a loop containing the lookup
        k = t[5][1]
        if k[0] not in ("cp", "mv"):
            continue
        kl = None
        cur = k
        for _ in range(6):
            r = di.resolve(cur)
            if r[0] == "rv" and r[1][5][0] == "ref":
                pl = r[1][5][1]
                if not pl[1]:
                    # a borrow of a plain local: that local is the key variable if it is re-assigned (multi-def)
                    if len(di.defs.get(pl[0], [])) >= 2 or not di.defs.get(pl[0]):
                        kl = pl[0]
                        break
                    cur = ["cp", [pl[0], []]]
                    continue
                if pl[1] == ["*"]:
                    cur = ["cp", [pl[0], []]]
                    continue
                break
            if r[0] == "multi":
                kl = r[1]
            break
        if kl is None:
            continue
        if loops is None:
            loops = natural_loops(f)
        for h, body in loops:
            if b not in body:
                continue
            for bb in body:
                for st in f.stmts(bb):
                    if st[KIND] == "a" and st[4][0] == kl and not st[4][1]:
                        o = set()
                        _locals(st[5], o)
                        if o & T:
                            out.append(("loop", t, set(body), fld, st))
    # de-duplicate per lookup
    seen = set()
    res = []
    for w in out:
        key = (w[0], id(w[1]))
        if key not in seen:
            seen.add(key)
            res.append(w)
    return res


def has_visited(facts, crate, f, region=None, depth=2, _seen=None):
    _seen = _seen if _seen is not None else set()
    if f.path in _seen:
        return False
    _seen.add(f.path)
    fam = [f] if region is not None else facts.family(crate, f.root)
    for g in fam:
        for b, t in g.calls():
            if region is not None and g is f and b not in region:
                continue
            c = callee(t) or ""
            if is_visited_call(c):
                return True
            if depth > 0 and region is None:
                h = facts.fn(c)
                if h is not None and h.crate == f.crate and has_visited(facts, crate, h, None, depth - 1, _seen):
                    return True
    return False


DETECTORS = {}  # map field -> cycle detectors that guard its insertions (filled by acyclic_by_construction)


def detector_collectors(facts, crate_name, det_path, enum_path, depth=2):
    """functions reachable from the detector (same crate, <= depth calls) that dispatch on `enum_path` and call
    themselves (directly or from a closure they create): the walks that enumerate the edges the detector sees"""
    from . import cover

    out, seen, frontier = [], {det_path}, [det_path]
    for _ in range(depth + 1):
        nxt = []
        for p in frontier:
            h = facts.fn(p)
            if h is None:
                continue
            fam = facts.family(crate_name, h.root)
            cov = cover.coverage(facts, h, enum_path)
            if cov is not None and cov.primary is not None and any((callee(t) or "") == h.path for g in fam for _, t in g.calls()) or (
                cov is not None and cov.primary is not None and any(fn_mentions(g, h.path) for g in fam)
            ):
                out.append((h, cov))
            for g in fam:
                for _, t in g.calls():
                    c = callee(t) or ""
                    if c.startswith(crate_name + "::") and c not in seen:
                        seen.add(c)
                        nxt.append(c)
        frontier = nxt
    return out


def fn_mentions(g, path):
    """a fn item passed as a value (`.flat_map(Self::collect)`)"""
    for _, t in g.calls():
        for a in t[5]:
            if a[0] == "c" and len(a) > 3 and a[1] == "fn" and a[3] == path:
                return True
    return False


def acyclic_by_construction(facts, crate_name, fld):
    """all inserts into map field `fld` are dominated by a branch on a cycle detector's result; returns (ok, detail)"""
    if not fld:
        return False, "map not held in a struct field"
    ins = []
    for f in facts.crate(crate_name).fns:
        if f.kind == "promoted" or "::test" in f.path:
            continue
        di = None
        for b, t in f.calls():
            c = callee(t) or ""
            if c.split("::")[-1] in ("insert", "extend", "entry") and any(k in c for k in MAPS) and t[5]:
                di = di or DefIndex(f)
                if map_field(f, di, t[5][0]) == fld:
                    ins.append((f, b, t))
    if not ins:
        return False, "no insertion site found for %s" % fld
    for f, b, t in ins:
        dom = dominators(f)
        di = DefIndex(f)
        guarded = False
        for d in dom.get(b, ()):
            if d == b or f.term(d)[KIND] != "switch":
                continue
            op = f.term(d)[4]
            # follow the discriminant back to a call
            cur = op
            for _ in range(6):
                if cur[0] not in ("cp", "mv"):
                    break
                r = di.resolve(cur)
                if r[0] == "call":
                    c = callee(r[1]) or ""
                    h = facts.fn(c)
                    if h is not None and has_visited(facts, crate_name, h):
                        guarded = True
                        DETECTORS.setdefault(fld, set()).add(h.path)
                        break
                    if r[1][5]:
                        cur = r[1][5][0]
                        continue
                    break
                if r[0] == "rv" and r[1][5][0] == "disc":
                    cur = ["cp", [r[1][5][1][0], []]]
                    continue
                if r[0] == "rv" and r[1][5][0] in ("ref",):
                    cur = ["cp", [r[1][5][1][0], []]]
                    continue
                if r[0] == "place":
                    cur = ["cp", [r[1][0], []]]
                    continue
                break
            if guarded:
                break
        if not guarded:
            return False, "insertion at %s is not guarded by a cycle detector" % f.where(t)
    return True, "%d insertion site(s), each behind a cycle detector" % len(ins)


def run(ck, facts, R, crates, floor=3):
    ck.rule(R, "every walk that follows a map (held in a struct field) from key to key — by loop or by self-recursion — has a termination argument: it tests membership in a growing visited collection, or the map is acyclic by construction (each insertion is control-dependent on a cycle detector)")
    n = 0
    pending_detectors = {}
    for cn in crates:
        for f in facts.crate(cn).fns:
            if f.kind == "promoted" or "::test" in f.path:
                continue
            for kind, t, region, fld, item in walkers(f):
                n += 1
                key = "walk|%s|%s|%s" % (f.short, kind, (fld or "?").split("::")[-1])
                if has_visited(facts, cn, f, region if kind == "loop" else None, depth=0 if kind == "loop" else 1):
                    ck.ok(R, key, {"walker": f.short, "kind": kind, "map": fld, "termination": "visited set"})
                    continue
                ok, detail = acyclic_by_construction(facts, cn, fld)
                if ok:
                    ck.ok(R, key, {"walker": f.short, "kind": kind, "map": fld, "termination": "map acyclic by construction: " + detail})
                    pending_detectors.setdefault(fld, cn)
                else:
                    ck.bad(R, key, "%s follows %s from key to key (%s) without a visited set, and the map is not acyclic by construction (%s): a cycle written by the user (`use` / `type alias` declarations pointing at each other) makes the front end loop forever or overflow the stack instead of answering with a diagnostic" % (f.short, (fld or "a map").split("::")[-1], kind, detail), f.where(item))
    ck.floor(R, "chain_walkers", n, floor)
    # the argument "acyclic by construction" is only as good as the detector: the walk that enumerates the edges it
    # checks must look into every composite type (a cycle through a form it skips is registered unnoticed)
    from . import cover as _cover
    from .. import roles as _roles

    adt = facts.adt(_roles.TYPE)
    typed = {v["n"] for v in (adt["variants"] if adt else []) if any("TypeNodeId" in fl[1] or "RecordTypeField" in fl[1] for fl in v["f"])}
    # what a user can write: the forms the parser's lowering of type annotations constructs (Ref / Boxed are made by
    # later stages only) plus UserSum declarations
    written = set()
    for cn in {c for c in pending_detectors.values()}:
        pf = [g for g in facts.crate(cn).fns if "::compiler::parser::" in g.path and g.kind != "promoted"]
        written |= set(_cover.constructed_variants(pf, _roles.TYPE))
    if written & typed:
        typed = (typed & written) | ({"UserSum"} & typed)
    m = 0
    for fld, cn in sorted(pending_detectors.items()):
        for det in sorted(DETECTORS.get(fld, ())):
            for h, cov in detector_collectors(facts, cn, det, _roles.TYPE):
                handled = cov.primary_handled()
                if not (handled & typed):
                    continue  # not a structural walk over types
                for v in sorted(typed):
                    m += 1
                    key = "detector-arm|%s|%s" % (h.short.split("::")[-1], v)
                    if v in handled and cov.arm_target(v) is not None:
                        ck.ok(R, key)
                    else:
                        ck.bad(R, key, "%s enumerates the type names a definition refers to for the cycle detector %s, but has no arm for Type::%s (it falls into the catch-all that finds nothing), although that form holds component types: a cycle that passes through a %s type is registered as if it were acyclic, and the walk that expands it never ends (stack overflow instead of a diagnostic)" % (h.short, det.split("::")[-1], v, v), h.where())
    if pending_detectors:
        ck.floor(R, "detector_collector_arms", m, 6)
