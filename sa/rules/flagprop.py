"""Flag-propagation rule for the generic tree traversal `convert_recursively`.

The traversal hands every child to a caller-supplied conversion and rebuilds the node; each conversion answers with a
result struct that carries, besides the new child, a summary flag (`found_any`: did the conversion rewrite anything
below).  The pass built on it (`convert_self`) uses the flag of a function body to decide whether the function needs a
feedback cell.  The flag of the rebuilt node is therefore the disjunction of the children's flags: in every arm, the
flag operand of the result struct built for the node depends on the result of *every* call in that arm that can reach
the conversion (a direct call, the optional-child helper closure, an iterator adaptor that is given the conversion).
An arm whose flag is a constant, or that forgets one child, makes a `self` below that child invisible: it is still
rewritten to the feedback variable, but the binder is never created."""
from ..cfg import reachable
from ..facts import KIND, callee
from . import cover
from .chainwalk import _locals

EXPR = "mimium_lang::ast::Expr"


def carriers(f, conv_param):
    """locals that hold the conversion, a reference to it, or a closure that captured one of those"""
    C = {conv_param}
    changed = True
    while changed:
        changed = False
        for _, st in f.all_stmts():
            if st[KIND] != "a" or st[4][1] or st[4][0] in C:
                continue
            rv = st[5]
            src = []
            if rv[0] in ("ref", "raw"):
                src = [rv[1][0]]
            elif rv[0] == "use" and rv[1][0] in ("cp", "mv"):
                src = [rv[1][1][0]]
            elif rv[0] == "agg" and rv[1][0] == "closure":
                src = [o[1][0] for o in rv[2] if o[0] in ("cp", "mv")]
            if any(s in C for s in src):
                C.add(st[4][0])
                changed = True
    return C


def forward(f, seed):
    T = {seed}
    changed = True
    while changed:
        changed = False
        for _, st in f.all_stmts():
            if st[KIND] != "a" or st[4][0] in T:
                continue
            o = set()
            _locals(st[5], o)
            if o & T:
                T.add(st[4][0])
                changed = True
        for _, t in f.calls():
            if t[6] is None or t[6][0] in T:
                continue
            o = set()
            _locals(t[5], o)
            if o & T:
                T.add(t[6][0])
                changed = True
    return T


def run(ck, facts, R, fn_path="mimium_lang::compiler::mirgen::convert_pronoun::convert_recursively", floor=15):
    ck.rule(R, "in the generic traversal convert_recursively, the summary flag (found_any) of the result built for a node depends, in every arm, on the result of every call of that arm that can reach the caller's conversion (direct call, optional-child helper, iterator adaptor given the conversion): a constant flag or a forgotten child hides a `self` below it from the pass that decides whether a function needs a feedback cell")
    f = facts.fn(fn_path)
    ck.require(R, f is not None, "anchor|traversal", "%s not found" % fn_path)
    if f is None:
        return
    cov = cover.coverage(facts, f, EXPR)
    ck.require(R, cov is not None, "anchor|traversal-match", "%s does not match on Expr" % f.short)
    if cov is None:
        return
    # the conversion parameter: the argument whose type is a type parameter / closure (not ExprNodeId, not PathBuf)
    argc = f.d["argc"]
    conv = [l for l in range(1, argc + 1) if "ExprNodeId" not in f.local_ty(l) and "PathBuf" not in f.local_ty(l)]
    ck.require(R, len(conv) == 1, "anchor|conversion-param", "could not identify the conversion parameter of %s" % f.short)
    if len(conv) != 1:
        return
    C = carriers(f, conv[0])
    n = 0
    for v in sorted(cov.primary_handled()):
        tb = cov.arm_target(v)
        if tb is None:
            continue
        region = reachable(f, tb, stop=[cov.primary.block])
        srcs = []
        for b, t in f.calls():
            if b not in region or t[6] is None:
                continue
            o = set()
            _locals(t[5], o)
            if o & C:
                srcs.append(t)
        # result structs built in this arm: aggregates with a bool operand named found_any
        aggs = []
        for b in region:
            for st in f.stmts(b):
                if st[KIND] == "a" and st[5][0] == "agg" and st[5][1][0] == "adt" and st[5][1][1].endswith("ConvertResult"):
                    # only the aggregate exclusive to this arm
                    aggs.append(st)
        if not srcs or not aggs:
            continue
        adt = facts.adt(aggs[0][5][1][1])
        names = [x[0] for x in adt["variants"][0]["f"]]
        fi = names.index("found_any") if "found_any" in names else None
        if fi is None:
            continue
        n += 1
        key = "flag|%s" % v
        bad = None
        for st in aggs:
            op = st[5][2][fi]
            for t in srcs:
                T = forward(f, t[6][0])
                dep = op[0] in ("cp", "mv") and op[1][0] in T
                if not dep:
                    bad = (st, t, op)
        if bad is None:
            ck.ok(R, key, {"arm": v, "conversion_calls": len(srcs)})
        else:
            st, t, op = bad
            what = "a constant" if op[0] == "c" else "a value that does not depend on it"
            ck.bad(R, key, "convert_recursively, arm %s: the node's found_any is %s although the arm converts a child at %s: a `self` below that child is rewritten to the feedback variable but the enclosing function is never given its feedback cell (`Variable feed_idN not found`)" % (v, what, f.where(t)), f.where(st))
    ck.floor(R, "traversal_arms_with_flag", n, floor)
