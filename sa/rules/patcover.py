"""pattern-cover: every walk over `pattern::Pattern` binds (or looks at) every sub-pattern.

A `let` pattern is a tree: `Tuple(Vec<Pattern>)`, `Record(Vec<(Symbol, Pattern)>)`.  A function of the compiler that
dispatches on `Pattern` and has an arm for an aggregate variant must, in that arm, either

  * read the variant's payload and hand it on as a whole (iterate, recurse), or
  * delegate the matched pattern itself to another function (which is checked in turn),

and it must not reduce the payload to one element (`first()`, `last()`, `get(k)`, a constant index): the variables of
the remaining sub-patterns would stay unbound or be bound to the wrong value.  (F76: the staging translation bound
`let {a = x} = r` in quoted code to the *key* of the first field.)"""
from ..cfg import reachable
from ..facts import KIND, callee
from . import cover

PAT = "mimium_lang::pattern::Pattern"
DERIVES = ("as std::fmt::Debug>", "as std::clone::Clone>", "as std::cmp::PartialEq>", "_serde::", "as std::fmt::Display>", "as std::hash::Hash>", "as std::cmp::Eq>")
SINGLE = ("first", "last", "get", "first_mut", "last_mut", "get_mut", "nth", "split_first", "split_last")


def _operand_locals(t):
    return [a[1][0] for a in t[5] if a[0] in ("cp", "mv")]


def run(ck, facts, R, crate):
    from .. import roles
    from ..props.c16 import _places_of

    ck.rule(R, "every dispatch on `Pattern` outside derives: the arm for an aggregate variant (Tuple, Record) reads the payload without reducing it to one element (first/last/get/constant index), or hands the matched pattern itself to another function; a catch-all that swallows an aggregate variant must diverge or delegate the pattern")
    adt = facts.adt(PAT)
    if adt is None:
        ck.bad(R, "anchor|Pattern", "the enum %s was not found" % PAT)
        return
    agg = {v["n"]: [i for i, (fn_, fty) in enumerate(v["f"]) if "Pattern" in fty] for v in adt["variants"]}
    agg = {k: v for k, v in agg.items() if v}
    n = 0
    for cov in cover.find_matchers(facts, crate, PAT):
        f = cov.fn
        if f.kind == "promoted" or "::tests" in f.path or "::test" in f.path or any(d in f.path for d in DERIVES):
            continue
        pl = cov.primary.place
        handled = cov.primary_handled()
        for v in sorted(agg):
            if v not in handled:
                continue
            tb = cov.arm_target(v)
            if tb is None or cov.arm_diverges(v):
                continue
            n += 1
            key = "arm|%s|%s" % (f.short.split("::", 1)[-1] if f.short.startswith("compiler::") else f.short, v)
            region = reachable(f, tb, stop=[cov.primary.block])
            # (a) payload read
            nproj = len(pl[1])
            reads = False
            payload_locals = set()
            for b in region:
                for s in f.bb[b]["s"]:
                    if s[KIND] != "a":
                        continue
                    for place in _places_of(s)[1:]:
                        # a payload field is named `<enum path>::<Variant>::<field>` whatever local the reference to the
                        # matched pattern was copied into (tuple scrutinees re-copy it for every access)
                        if any(isinstance(el, list) and el[0] == "f" and isinstance(el[2], str) and el[2].startswith("%s::%s::" % (PAT, v)) for el in place[1]):
                            reads = True
                            if not s[4][1]:
                                payload_locals.add(s[4][0])
            # flow of the payload reference through copies / reborrows / deref calls inside the arm
            changed = True
            while changed:
                changed = False
                for b in region:
                    for s in f.bb[b]["s"]:
                        if s[KIND] == "a" and not s[4][1] and s[4][0] not in payload_locals:
                            if any(p[0] in payload_locals for p in _places_of(s)[1:]):
                                payload_locals.add(s[4][0])
                                changed = True
                    t = f.term(b)
                    if t[KIND] == "call" and (callee(t) or "").split("::")[-1] in ("deref", "as_slice", "as_ref", "borrow", "index") and any(l in payload_locals for l in _operand_locals(t)):
                        if not t[6][1] and t[6][0] not in payload_locals:
                            payload_locals.add(t[6][0])
                            changed = True
            single = None
            for b in region:
                t = f.term(b)
                if t[KIND] == "call" and (callee(t) or "").split("::")[-1] in SINGLE and any(l in payload_locals for l in _operand_locals(t)):
                    single = t
            # (b) delegation of the whole pattern
            scrut = {pl[0]}
            changed = True
            while changed:
                changed = False
                for b in region:
                    for s in f.bb[b]["s"]:
                        if s[KIND] == "a" and not s[4][1] and s[4][0] not in scrut:
                            for p in _places_of(s)[1:]:
                                if p[0] in scrut and len(p[1]) <= nproj + (1 if (p[1][nproj:nproj + 1] == ["*"]) else 0):
                                    scrut.add(s[4][0])
                                    changed = True
            delegates = any(f.term(b)[KIND] == "call" and any(l in scrut for l in _operand_locals(f.term(b))) for b in region) or any(
                s[KIND] == "a" and s[5][0] == "agg" and any(o[0] in ("cp", "mv") and o[1][0] in scrut for o in s[5][2]) for b in region for s in f.bb[b]["s"]
            )
            if single is not None:
                ck.bad(R, key, "%s: the arm for Pattern::%s reduces the list of sub-patterns to one element (`%s`): the variables of the other sub-patterns are not bound" % (f.short, v, (callee(single) or "").split("::")[-1]), f.where(single))
            elif reads or delegates:
                ck.ok(R, key, {"fn": f.short, "variant": v, "reads_payload": reads, "delegates": delegates})
            else:
                ck.bad(R, key, "%s: the arm for Pattern::%s neither reads the sub-patterns nor hands the pattern on: what the sub-patterns bind is lost" % (f.short, v), f.where(f.term(tb)))
    ck.floor(R, "aggregate_pattern_arms", n, 12)


MPAT = "mimium_lang::ast::MatchPattern"


def run_match_patterns(ck, facts, R, crate):
    """every recursive walk over `ast::MatchPattern` descends into the nested patterns of every aggregate form

    A match pattern is a tree: `Tuple(Vec<MatchPattern>)`, `Constructor(name, Option<Box<MatchPattern>>)`.  The walkers
    (functions that are handed a `MatchPattern`, dispatch on it and call themselves: the binder collection of the
    resolver, of the type checker and of the MIR generator, the macro interpreter, the staging encoder) must, in the arm
    of each form that has nested patterns, reach a walker again — a direct call, a closure created in the arm that
    calls one, or a walker handed to an adaptor as a function value.  An arm that only looks at the shape of the nested
    pattern (`if let Some(Variable(x)) = inner`) leaves the variables of a destructured payload unbound."""
    from ..facts import const_fn

    ck.rule(R, "every self-recursive walker over `MatchPattern` (takes a MatchPattern, dispatches on it): the arm of a form with nested patterns (Tuple, Constructor) reaches a MatchPattern walker again — by a call, through a closure created in the arm, or by handing a walker to an adaptor")
    adt = facts.adt(MPAT)
    if adt is None:
        ck.bad(R, "anchor|MatchPattern", "the enum %s was not found" % MPAT)
        return
    agg = sorted(v["n"] for v in adt["variants"] if any("MatchPattern" in ft for _, ft in v["f"]))
    covs = {}
    for cov in cover.find_matchers(facts, crate, MPAT):
        f = cov.fn
        if f.kind not in ("fn", "assoc") or "::tests" in f.path or "::test::" in f.path or any(d in f.path for d in DERIVES):
            continue
        if not any("MatchPattern" in f.local_ty(i) for i in range(1, f.d["argc"] + 1)):
            continue
        covs[f.path] = cov
    walkers = set(covs)

    def calls_walker(g):
        for _, t in g.calls():
            if (callee(t) or "") in walkers:
                return True
            if any(const_fn(a) in walkers for a in t[5] if a[0] == "c"):
                return True
        return False

    n = 0
    for path, cov in sorted(covs.items()):
        f = cov.fn
        fam = facts.family(crate, f.root)
        if not any((callee(t) or "") == path or any(const_fn(a) == path for a in t[5] if a[0] == "c") for g in fam for _, t in g.calls()):
            continue  # not recursive: a one-level look at a pattern
        for v in agg:
            if v not in cov.primary_handled():
                continue
            tb = cov.arm_target(v)
            if tb is None or cov.arm_diverges(v):
                continue
            region = reachable(f, tb, stop=[cov.primary.block])
            n += 1
            key = "descend|%s|%s" % (f.short.split("::", 1)[-1] if f.short.startswith("compiler::") else f.short, v)
            direct = False
            clos = set()
            for b in region:
                t = f.term(b)
                if t[KIND] == "call" and ((callee(t) or "") in walkers or any(const_fn(a) in walkers for a in t[5] if a[0] == "c")):
                    direct = True
                for s in f.stmts(b):
                    if s[KIND] == "a" and s[5][0] == "agg" and s[5][1][0] == "closure":
                        clos.add(s[5][1][1])
            via = any(calls_walker(g) for g in fam if g.path in clos)
            if direct or via:
                ck.ok(R, key, {"walker": f.short, "form": v, "how": "call" if direct else "closure"})
            else:
                ck.bad(R, key, "%s: the arm for MatchPattern::%s never reaches a pattern walker again: the patterns nested inside it (a destructured constructor payload `P(f, x)`, a tuple inside a tuple) are not visited, so the variables they bind stay unknown to this pass — a name bound there is resolved, typed or bound as if the arm had not introduced it" % (f.short, v), f.where(f.term(tb)))
    ck.floor(R, "match_pattern_walker_arms", n, 8)
