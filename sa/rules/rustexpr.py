"""Evaluator for the small Rust expressions that the Rust code generator emits as text (the generated program's source
is a value of the generator: string constants in its MIR).  Used to compare what the *generated* code computes for an
array index with what the VM computes, on special values — without compiling or running anything.

Grammar: literals (with type suffix), identifiers, parentheses, unary `!` / `-`, method calls, `as T`, binary
`* / + - < <= > >= == != && ||`, and `if c { e } else if c { e } else { e }`."""
import math
import re

TOKEN = re.compile(r"\s*(?:(\d+\.\d+(?:f64|f32)?|\d+(?:usize|u64|i64|u32|i32|f64)?)|([A-Za-z_][A-Za-z0-9_]*)|(==|!=|<=|>=|&&|\|\||[-+*/<>!(){}.,;=]))")


class ParseError(Exception):
    pass


def tokenize(s):
    out = []
    i = 0
    while i < len(s):
        m = TOKEN.match(s, i)
        if not m:
            if s[i:].strip() == "":
                break
            raise ParseError("cannot tokenize %r" % s[i:i + 20])
        if m.group(1) is not None:
            out.append(("num", m.group(1)))
        elif m.group(2) is not None:
            out.append(("id", m.group(2)))
        else:
            out.append(("op", m.group(3)))
        i = m.end()
    return out


class P:
    def __init__(self, toks):
        self.t = toks
        self.i = 0

    def peek(self):
        return self.t[self.i] if self.i < len(self.t) else ("eof", "")

    def eat(self, v=None):
        k = self.peek()
        if v is not None and k[1] != v:
            raise ParseError("expected %r, found %r" % (v, k[1]))
        self.i += 1
        return k

    def expr(self):
        if self.peek() == ("id", "if"):
            return self.ifx()
        return self.binary(0)

    def ifx(self):
        self.eat("if")
        c = self.binary(0)
        self.eat("{")
        a = self.expr()
        self.eat("}")
        self.eat("else")
        if self.peek() == ("id", "if"):
            b = self.ifx()
        else:
            self.eat("{")
            b = self.expr()
            self.eat("}")
        return ("if", c, a, b)

    PREC = [("||",), ("&&",), ("==", "!="), ("<", "<=", ">", ">="), ("+", "-"), ("*", "/")]

    def binary(self, lvl):
        if lvl == len(self.PREC):
            return self.cast()
        l = self.binary(lvl + 1)
        while self.peek()[0] == "op" and self.peek()[1] in self.PREC[lvl]:
            op = self.eat()[1]
            r = self.binary(lvl + 1)
            l = ("bin", op, l, r)
        return l

    def cast(self):
        e = self.unary()
        while self.peek() == ("id", "as"):
            self.eat()
            ty = self.eat()[1]
            e = ("as", ty, e)
        return e

    def unary(self):
        k = self.peek()
        if k == ("op", "!"):
            self.eat()
            return ("not", self.unary())
        if k == ("op", "-"):
            self.eat()
            return ("neg", self.unary())
        return self.postfix()

    def postfix(self):
        e = self.atom()
        while self.peek() == ("op", "."):
            self.eat()
            name = self.eat()[1]
            args = []
            if self.peek() == ("op", "("):
                self.eat("(")
                while self.peek() != ("op", ")"):
                    args.append(self.expr())
                    if self.peek() == ("op", ","):
                        self.eat()
                self.eat(")")
                e = ("call", name, e, args)
            else:
                e = ("field", name, e)
        return e

    def atom(self):
        k = self.eat()
        if k[0] == "num":
            m = re.match(r"^([0-9.]+)(.*)$", k[1])
            txt, suf = m.group(1), m.group(2)
            return ("k", float(txt) if ("." in txt or suf.startswith("f")) else int(txt))
        if k[0] == "id":
            return ("var", k[1])
        if k == ("op", "("):
            e = self.expr()
            self.eat(")")
            return e
        raise ParseError("unexpected %r" % (k,))


def parse(s):
    p = P(tokenize(s))
    e = p.expr()
    if p.peek()[0] != "eof" and p.peek() != ("op", ";"):
        raise ParseError("trailing input %r" % (p.peek(),))
    return e


def _sat(x, bits=64, signed=True):
    if isinstance(x, int):
        return x
    if math.isnan(x):
        return 0
    lo, hi = (-(2 ** (bits - 1)), 2 ** (bits - 1) - 1) if signed else (0, 2 ** bits - 1)
    if x >= hi:
        return hi
    if x <= lo:
        return lo
    return int(x)


def ev(e, env):
    k = e[0]
    if k == "k":
        return e[1]
    if k == "var":
        if e[1] in ("true", "false"):
            return e[1] == "true"
        return env[e[1]]
    if k == "if":
        return ev(e[2], env) if ev(e[1], env) else ev(e[3], env)
    if k == "not":
        return not ev(e[1], env)
    if k == "neg":
        return -ev(e[1], env)
    if k == "as":
        v = ev(e[2], env)
        if e[1] in ("i64", "i32"):
            return _sat(v, 64 if e[1] == "i64" else 32, True)
        if e[1] in ("usize", "u64", "u32"):
            return _sat(v, 64 if e[1] != "u32" else 32, False) if isinstance(v, float) else v
        if e[1] in ("f64", "f32"):
            return float(v)
        raise ParseError("cast to %s" % e[1])
    if k == "bin":
        a, b = ev(e[2], env), ev(e[3], env)
        op = e[1]
        if op == "&&":
            return bool(a) and bool(b)
        if op == "||":
            return bool(a) or bool(b)
        return {"==": a == b, "!=": a != b, "<": a < b, "<=": a <= b, ">": a > b, ">=": a >= b, "+": a + b, "-": a - b, "*": a * b, "/": (a / b if isinstance(a, float) or isinstance(b, float) else (a // b if b else 0))}[op]
    if k == "call":
        v = ev(e[2], env)
        a = [ev(x, env) for x in e[3]]
        n = e[1]
        if n == "is_finite":
            return not (math.isnan(v) or math.isinf(v))
        if n == "is_nan":
            return math.isnan(v)
        if n == "clamp":
            return max(a[0], min(a[1], v))
        if n == "min":
            return min(v, a[0])
        if n == "max":
            return max(v, a[0])
        if n == "saturating_sub":
            return max(0, v - a[0])
        if n in ("floor", "trunc", "round", "abs", "ceil"):
            return {"floor": math.floor, "trunc": math.trunc, "round": round, "abs": abs, "ceil": math.ceil}[n](v) if not (math.isnan(v) or math.isinf(v)) else v
        raise ParseError("method %s" % n)
    raise ParseError(k)
