"""null-answer: the early answers of sibling primitives for the null array handle have the same number of words.

`split_head` and `split_tail` answer `(element, rest handle)` / `(rest handle, element)`: `elem_words + 1` words.  For the
null handle (an array that was never allocated: an array-typed `self` on the first sample) the generated program's
runtime builds that answer by hand in each arm.  The rule finds, in the runtime function that dispatches external calls,
every branch taken when a handle compares equal to 0 that returns a freshly built vector, evaluates the vector's length
as a linear form `a * E + b` over the one non-constant quantity involved (the element width) from the straight-line
sequence of `vec![..]` / `vec![x; n]` / `push` / `resize` / `extend_from_slice` calls on that branch, and requires all
such answers to have the same form.  (A sibling cross-check: it does not know that the form should be `E + 1`.)"""
from ..cfg import DefIndex, reachable
from ..facts import KIND, callee


def _form(f, di, op, depth=0):
    """(a, b) with value = a*E + b, or None"""
    if op[0] == "c":
        if len(op) > 3 and op[1] == "i":
            try:
                return (0, int(op[3]))
            except (TypeError, ValueError):
                return None
        return None
    if depth > 8:
        return None
    r = di.resolve(op)
    if r[0] == "const":
        return _form(f, di, r[1], depth + 1)
    if r[0] == "rv":
        rv = r[1][5]
        if rv[0] == "bin" and rv[1] in ("add", "add_ov", "sub", "sub_ov"):
            x, y = _form(f, di, rv[2], depth + 1), _form(f, di, rv[3], depth + 1)
            if x is None or y is None:
                return None
            sg = 1 if rv[1].startswith("add") else -1
            return (x[0] + sg * y[0], x[1] + sg * y[1])
        if rv[0] in ("use", "cast"):
            return _form(f, di, rv[1] if rv[0] == "use" else rv[2], depth + 1)
        return (1, 0)
    if r[0] == "place":
        pl = r[1]
        # (checked add).0
        if pl[1] and isinstance(pl[1][-1], list) and pl[1][-1][0] == "f":
            return _form(f, di, ["cp", [pl[0], []]], depth + 1)
        return (1, 0)
    return (1, 0)  # a call result / argument: the element width


def null_answers(f):
    """[(block of the zero test, form or None, term)] for branches `handle == 0` that build and return a vector"""
    di = DefIndex(f)
    out = []
    for b, blk in enumerate(f.bb):
        t = blk["t"]
        if blk["c"] or t[KIND] != "switch" or t[4][0] not in ("cp", "mv"):
            continue
        r = di.resolve(t[4])
        if not (r[0] == "rv" and r[1][5][0] == "bin" and r[1][5][1] == "eq"):
            continue
        ops = r[1][5][2:4]
        if not any(o[0] == "c" and len(o) > 3 and str(o[3]) == "0" for o in ops):
            continue
        # the edge on which the comparison is true
        true_t = [tb for v, tb in t[6] if str(v) != "0"] or [t[7]]
        false_t = [tb for v, tb in t[6] if str(v) == "0"]
        start = true_t[0] if true_t[0] not in false_t else t[7]
        # straight-line walk to a return
        cur, steps, length, last = start, 0, None, None
        while steps < 40:
            steps += 1
            tt = f.term(cur)
            if tt[KIND] == "call":
                c = callee(tt) or ""
                nm = c.split("::")[-1]
                if nm == "from_elem" and len(tt[5]) >= 2:
                    length = _form(f, di, tt[5][1])
                    last = tt
                elif "box_assume_init_into_vec" in c or nm == "into_vec":
                    k = None
                    for s2 in f.stmts(cur):
                        if s2[KIND] == "a" and s2[5][0] == "agg" and s2[5][1][0] == "array":
                            k = len(s2[5][2])
                    length = (0, k) if k is not None else None
                    last = tt
                elif nm == "push" and "Vec" in c and length is not None:
                    length = (length[0], length[1] + 1)
                elif nm == "resize" and "Vec" in c and len(tt[5]) >= 2:
                    length = _form(f, di, tt[5][1])
                    last = tt
                elif nm in ("extend_from_slice", "extend", "append", "insert", "truncate", "pop"):
                    length = None
                nxt = tt[7]
            elif tt[KIND] in ("goto",):
                nxt = tt[4]
            elif tt[KIND] == "drop":
                nxt = tt[5]
            elif tt[KIND] == "assert":
                nxt = tt[7]
            elif tt[KIND] == "return":
                if last is not None:
                    out.append((b, length, last))
                break
            else:
                break
            if nxt is None:
                break
            cur = nxt
    return out


def run(ck, facts, R, crate, fn_suffix):
    ck.rule(R, "in the runtime function that dispatches external calls, every early answer built by hand for the null array handle (a branch taken when a handle equals 0 that returns a fresh vector) has the same length as a linear form of the element width: the sibling primitives `split_head` / `split_tail` both answer element + handle")
    fs = [f for f in facts.crate(crate).fns if f.short.endswith(fn_suffix) and f.nblocks() > 50]
    ck.require(R, len(fs) == 1, "anchor|call_ext", "the external-call dispatch of the runtime (%s) was not found" % fn_suffix)
    if len(fs) != 1:
        return
    f = fs[0]
    ans = [(b, form, t) for b, form, t in null_answers(f) if form is not None and form[0] != 0]
    ck.floor(R, "null_handle_answers", len(ans), 2)
    forms = sorted({form for _, form, _ in ans})
    if len(forms) <= 1:
        ck.ok(R, "null-answer|lengths", {"answers": len(ans), "length": "%d*E%+d" % forms[0] if forms else "-"})
    else:
        # the odd one out
        from collections import Counter

        cnt = Counter(form for _, form, _ in ans)
        odd = min(ans, key=lambda x: cnt[x[1]])
        ck.bad(R, "null-answer|lengths", "%s builds its answers for the null array handle with different lengths (%s words): one of the sibling primitives hands back fewer words than its caller unpacks (element + rest handle), and the generated program aborts with a slice index out of range where the VM answers zeros" % (f.short, " vs ".join("%d*E%+d" % fm for fm in forms)), f.where(odd[2]))
