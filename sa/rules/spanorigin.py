"""span-origin: diagnostic spans are made of offsets that were *found* in the text, never computed.

Every byte offset the front end knows lies on a character boundary because it is the start or the end of a token, the
start or end of an existing span, 0 or the length of the text.  An offset obtained by adding or subtracting a constant
(`len - 1`, `start + 1`) is on a boundary only while the neighbouring character is one byte long.  The rule takes the
backward slice (through copies, aggregates, calls by argument, and the captures of closures into the function that
creates them) of the span operand of every construction of `metadata::Location` — the aggregate and `Location::new` —
and reports integer arithmetic with a non-zero constant in it."""
from ..facts import KIND, callee

ARITH_CALLS = ("saturating_sub", "saturating_add", "checked_sub", "checked_add", "wrapping_sub", "wrapping_add")


def _const_int(o):
    if o[0] != "c":
        return None
    if len(o) > 3 and o[1] == "i":  # ["c", "i", <type>, <value>]
        try:
            return int(o[3])
        except (TypeError, ValueError):
            return None
    return None


def backward_arith(f, start_locals):
    """(what, const, stmt/term) for arithmetic with a non-zero integer constant in the backward slice; also whether the
    slice reaches the closure environment (local 1 of a closure)"""
    defs = {}
    for b, s in f.all_stmts():
        if s[KIND] == "a":
            defs.setdefault(s[4][0], []).append(("s", s))
    for b, t in f.calls():
        defs.setdefault(t[6][0], []).append(("c", t))
    seen, work, hits, env = set(start_locals), list(start_locals), [], False
    while work:
        l = work.pop()
        if f.kind == "closure" and l == 1:
            env = True
        for kind, d in defs.get(l, []):
            ops = []
            if kind == "s":
                rv = d[5]
                if rv[0] == "bin" and rv[1] in ("add", "sub", "add_ov", "sub_ov", "add_unchecked", "sub_unchecked"):
                    for o in rv[2:4]:
                        c = _const_int(o)
                        if c:
                            hits.append((rv[1], c, d))
                if rv[0] == "use":
                    ops = [rv[1]]
                elif rv[0] in ("ref", "raw", "disc"):
                    ops = [["cp", rv[1]]]
                elif rv[0] == "agg":
                    ops = rv[2]
                elif rv[0] == "bin":
                    ops = rv[2:4]
                elif rv[0] in ("un", "cast"):
                    ops = [rv[2]]
                elif rv[0] == "repeat":
                    ops = [rv[1]]
            else:
                nm = (callee(d) or "").split("::")[-1]
                if nm in ARITH_CALLS:
                    for o in d[5]:
                        c = _const_int(o)
                        if c:
                            hits.append((nm, c, d))
                ops = d[5]
            for o in ops:
                if o[0] in ("cp", "mv") and o[1][0] not in seen:
                    seen.add(o[1][0])
                    work.append(o[1][0])
    return hits, env


def run(ck, facts, R, crates):
    ck.rule(R, "the span of every diagnostic location (`metadata::Location { span, .. }` / `Location::new(span, ..)`) is built from offsets found in the text (token starts and ends, existing spans, 0, the text's length): its backward slice — followed through closure captures into the creating function — contains no addition or subtraction of a non-zero constant (`len - 1` and `start + 1` are on a character boundary only next to one-byte characters)")
    n = 0
    for cn in crates:
        crate = facts.crate(cn)
        creators = {}
        for g in crate.fns:
            for b, s in g.all_stmts():
                if s[KIND] == "a" and s[5][0] == "agg" and s[5][1][0] == "closure":
                    creators.setdefault(s[5][1][1], []).append((g, s))
        for f in crate.fns:
            if f.kind == "promoted" or "::test" in f.path:
                continue
            sites = []
            for b, s in f.all_stmts():
                if s[KIND] == "a" and s[5][0] == "agg" and s[5][1][0] == "adt" and s[5][1][1].endswith("metadata::Location") and s[5][2]:
                    sites.append((s, s[5][2][0]))
            for b, t in f.calls():
                c = callee(t) or ""
                if c.endswith("metadata::Location::new") and t[5]:
                    sites.append((t, t[5][0]))
            for item, op in sites:
                if op[0] not in ("cp", "mv"):
                    continue
                n += 1
                hits, env = backward_arith(f, [op[1][0]])
                g, depth = f, 0
                while env and depth < 3:
                    cr = creators.get(g.path, [])
                    if not cr:
                        break
                    parent, st = cr[0]
                    caps = [o[1][0] for o in st[5][2] if o[0] in ("cp", "mv")]
                    h2, env = backward_arith(parent, caps)
                    hits += h2
                    g, depth = parent, depth + 1
                key = "span|%s" % (f.root.split("::", 1)[1] if f.kind == "closure" else f.short)
                if hits:
                    what, c, d = hits[0]
                    ck.bad(R, key, "%s builds a diagnostic location whose span is computed with `%s %d` on a byte offset: next to a multi-byte character the offset falls inside the character (the span is no longer on character boundaries; slicing the text with it panics)" % (f.short, what, c), f.where(d))
                else:
                    ck.ok(R, key)
    ck.floor(R, "diagnostic_locations", n, 10)
