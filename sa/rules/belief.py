"""Stated-belief rule shared by C03 and C04 (E2 + E1).

Armed abort sites (todo!/unimplemented!, and unreachable!/panic!/expect whose message delegates to an earlier
stage) reachable from the given entry points must be *discharged*:
  dead-arm     the site lies only in match arms for variants of mir::Instruction / bytecode::Instruction that no
               producer constructs (computed; the same producer sets as C01.cover);
  eliminated   the site lies only in match arms for ast::Expr variants that an upstream pass eliminates: the pass
               named in sa/tables/eliminated.toml has an explicit, non-diverging arm for the variant that never
               rebuilds that variant (checked on every run);
  exception    audited in sa/tables/exceptions.toml with the guard named;
otherwise the site is a violation (the code itself says an input class is not handled)."""
import os
import tomllib

from .. import roles
from ..cfg import reachable
from ..facts import KIND
from . import cover, panics

HERE = os.path.dirname(os.path.dirname(os.path.abspath(__file__)))


def load_eliminated():
    p = os.path.join(HERE, "tables", "eliminated.toml")
    if not os.path.exists(p):
        return []
    with open(p, "rb") as f:
        return tomllib.load(f).get("eliminated", [])


def rewriting_passes():
    """scope of the rewrite-completeness rule: every eliminating pass plus the passes that remove a literal form"""
    p = os.path.join(HERE, "tables", "eliminated.toml")
    with open(p, "rb") as f:
        d = tomllib.load(f)
    out = []
    for e in d.get("eliminated", []) + d.get("traversal", []):
        if e["by"] not in out:
            out.append(e["by"])
    return out


def eliminated_variant_names():
    p = os.path.join(HERE, "tables", "eliminated.toml")
    with open(p, "rb") as f:
        d = tomllib.load(f)
    return {v for e in d.get("eliminated", []) for v in e["variants"]}


def late_producer_modules():
    p = os.path.join(HERE, "tables", "eliminated.toml")
    with open(p, "rb") as f:
        d = tomllib.load(f)
    return [e["module"] for e in d.get("late_producer", [])]


def arm_variants_of_block(cov, block):
    """variants of the primary switch of `cov` whose arm region contains `block` (None if the block is reachable
    from every arm, i.e. it is common code)"""
    fn = cov.fn
    hit = []
    names = cov.names
    regions = {}
    for v in names:
        tb = cov.arm_target(v)
        if tb is None:
            continue
        if tb not in regions:
            regions[tb] = reachable(fn, tb, stop=[cov.primary.block])
        if block in regions[tb]:
            hit.append(v)
    if len(hit) == len(names):
        return None
    return hit


def check_eliminations(ck, R, facts, table):
    """variant -> True for Expr variants whose elimination entry verifies"""
    ok = {}
    for e in table:
        enum = e["enum"]
        fnp = e["by"]
        f = facts.fn(fnp)
        for v in e["variants"]:
            key = "eliminated|%s|%s" % (v, fnp.split("::", 1)[1])
            if f is None:
                ck.bad(R, key, "eliminating pass %s named in eliminated.toml does not exist any more" % fnp)
                continue
            cov = cover.coverage(facts, f, enum)
            if cov is None or v not in cov.primary_handled():
                ck.bad(R, key, "%s has no explicit arm for %s::%s any more, so nothing removes that form before the stages that abort on it" % (f.short, enum.split("::")[-1], v), f.where())
                continue
            if cov.arm_diverges(v):
                ck.bad(R, key, "%s: the arm for %s diverges" % (f.short, v), f.where())
                continue
            tb = cov.arm_target(v)
            region = reachable(f, tb, stop=[cov.primary.block])
            rebuilt = False
            for b in region:
                for s in f.bb[b]["s"]:
                    if s[KIND] == "a" and s[5][0] == "agg" and s[5][1][0] == "adt" and s[5][1][1] == enum and s[5][1][3] == v:
                        # only count it if this block is not shared with every other arm
                        av = arm_variants_of_block(cov, b)
                        if av is not None and v in av:
                            rebuilt = (f.where(s), av)
            if rebuilt and not e.get("rebuilds_ok"):
                ck.bad(R, key, "%s: the arm for %s rebuilds an Expr::%s node (%s), so the form survives the pass that is supposed to remove it" % (f.short, v, v, rebuilt[0]), rebuilt[0])
                continue
            # pass-through: the arm hands its input node back unchanged (the form survives although nothing is rebuilt)
            passthrough = None
            for b in region:
                av = arm_variants_of_block(cov, b)
                if av is None or v not in av:
                    continue
                for s in f.bb[b]["s"]:
                    if s[KIND] == "a" and s[4][0] == 0 and not s[4][1] and s[5][0] == "use" and s[5][1][0] in ("cp", "mv") and not s[5][1][1][1] and 1 <= s[5][1][1][0] <= f.d.get("argc", 0):
                        passthrough = f.where(s)
            guard_ok = False
            if passthrough and e.get("passthrough_guard"):
                # the pass-through is sound only while the type checker rejects the form in that position: the guard
                # must be an entry of tables/admission.toml (verified by rule C03.admission on every run)
                with open(os.path.join(HERE, "tables", "admission.toml"), "rb") as fh:
                    guard_ok = any(g["error"] == e["passthrough_guard"] for g in tomllib.load(fh).get("guard", []))
            if passthrough and not guard_ok:
                ck.bad(R, key, "%s: the arm for %s returns its input node unchanged (%s), so the form survives the pass that is supposed to remove it and reaches the stage that aborts on it" % (f.short, v, passthrough), passthrough)
                continue
            ck.ok(R, key, {"variant": v, "eliminated_by": f.short, **({"passes_through_guarded_by": e.get("passthrough_guard")} if passthrough else {})})
            ok[(enum, v)] = True
    return ok


def run(ck, R, facts, cg, roots, prop_label, stop=None, class_filter=("todo", "delegation")):
    par = cg.reach(roots, stop=stop)
    sites, asserts, nfn = panics.census(cg, par)
    ck.setcount("%s_functions_reachable" % prop_label, nfn)
    by_cls = {}
    for s in sites:
        by_cls[s.cls] = by_cls.get(s.cls, 0) + 1
    for k, v in sorted(by_cls.items()):
        ck.setcount("%s_abort_sites_%s" % (prop_label, k), v)
    for k, v in sorted(asserts.items()):
        ck.setcount("%s_compiler_asserts_%s" % (prop_label, k), v)
    # producers
    producers = roles.non_derived(facts)
    prod = {
        roles.MIR_INSTR: set(cover.constructed_variants(producers, roles.MIR_INSTR)),
    }
    vd = roles.vm_dispatch(facts)
    prod[roles.VM_INSTR] = set(cover.constructed_variants([f for f in producers if vd is None or f.path != vd.fn.path], roles.VM_INSTR))
    elim = check_eliminations(ck, R, facts, load_eliminated())
    armed = [s for s in sites if s.cls in class_filter]
    covcache = {}
    seen = set()
    from collections import Counter

    per_key = Counter()
    for s in {(s.fn.path, id(s.term)): s for s in armed}.values():
        per_key[s.key()] += 1
    for s in sorted(armed, key=lambda s: s.key()):
        fn = s.fn
        # keyed by owner type / module, macro and message; the number of sites that share them is part of the key, so
        # that one more site with the same message is not covered by an audited one
        key = "site|" + s.key() + ("|x%d" % per_key[s.key()] if per_key[s.key()] > 1 else "")
        if key in seen:
            continue
        seen.add(key)
        # locate block of the site
        blk = None
        for b, t in fn.calls():
            if t is s.term:
                blk = b
        discharged = None
        for enum in (roles.MIR_INSTR, roles.VM_INSTR, roles.EXPR):
            ck_ = (fn.path, enum)
            if ck_ not in covcache:
                covcache[ck_] = cover.coverage(facts, fn, enum)
            cov = covcache[ck_]
            if not cov or len(cov.primary_handled()) < 2:
                continue
            vs = arm_variants_of_block(cov, blk)
            if not vs:
                continue
            if enum == roles.EXPR:
                if all(elim.get((enum, v)) for v in vs):
                    discharged = ("eliminated", vs)
            else:
                if all(v not in prod[enum] for v in vs):
                    discharged = ("dead-arm", vs)
            if discharged:
                break
        path = cg.path_to(par, fn.path)
        if discharged:
            ck.ok(R, key, {"site": s.snippet or s.macro, "fn": fn.short, "at": s.where(), "discharged": discharged[0], "variants": discharged[1][:8]})
        else:
            ck.bad(
                R,
                key,
                "%s reachable abort `%s` in %s states that an input class is not handled (class %s); it is neither in a dead match arm nor behind an audited guard. call path: %s"
                % (prop_label, (s.snippet or s.macro)[:120], fn.short, s.cls, " -> ".join(p.split("::", 1)[-1] for p in path[-4:])),
                s.where(),
            )
    return sites, par
