"""Def-before-use of the WASM generator's scratch locals, per lowering arm.

The generator keeps a few WASM locals for its own use (`alloc_base_local`, `alloc_ptr_save_local`, ...: u32 fields of
the generator whose value is the local's index).  The code emitted for one MIR instruction must not read such a local
(`local.get`) before it wrote it (`local.set` / `local.tee`) — what it would read is whatever an earlier, unrelated
instruction left there.  Emission order is program order of the generator, so this is a must-define-before-use data
flow over the generator's own CFG, with a summary per helper (reads-before-writing, writes-on-every-path)."""
from ..cfg import DefIndex, reachable
from ..facts import KIND, callee, place_fields


def _events(facts, f, scope):
    """block -> ordered list of ('get'|'set', field) / ('call', path)"""
    di = DefIndex(f)
    ev = {}
    for b, blk in enumerate(f.bb):
        if blk["c"]:
            continue
        lst = []
        for s in blk["s"]:
            if s[KIND] == "a" and s[5][0] == "agg" and s[5][1][0] == "adt" and "wasm_encoder" in s[5][1][1] and s[5][1][1].endswith("Instruction") and s[5][1][3] in ("LocalGet", "LocalSet", "LocalTee") and s[5][2]:
                r = di.resolve(s[5][2][0])
                pl = r[1] if r[0] == "place" else (r[1][5][1][1] if r[0] == "rv" and r[1][5][0] == "use" and r[1][5][1][0] in ("cp", "mv") else None)
                if pl is None:
                    continue
                flds = [x.split("::")[-1] for x in place_fields(pl) if x]
                if flds and flds[-1].endswith("_local"):
                    lst.append(("get" if s[5][1][3] == "LocalGet" else "set", flds[-1]))
        t = blk["t"]
        if t[KIND] == "call":
            c = callee(t) or ""
            if scope in c:
                lst.append(("call", c))
        ev[b] = lst
    return ev


class Summaries:
    def __init__(self, facts, crate, scope):
        self.facts, self.crate, self.scope = facts, crate, scope
        self.memo = {}

    def of(self, path):
        """(fields read before written on some path from entry, fields written on every path to a return)"""
        if path in self.memo:
            return self.memo[path]
        self.memo[path] = (frozenset(), frozenset())  # recursion: assume nothing
        f = self.facts.fn(path)
        if f is None:
            return self.memo[path]
        ev = _events(self.facts, f, self.scope)
        uses, outs = flow(f, ev, 0, None, self, set())
        must = None
        for b, st in outs.items():
            if f.term(b)[KIND] == "return":
                must = st if must is None else (must & st)
        self.memo[path] = (frozenset(u for u, _ in uses), frozenset(must or ()))
        return self.memo[path]


def flow(f, ev, start, stop, summ, init):
    """forward must-defined analysis from `start`; returns (set of (field, block) read while not must-defined, OUT)"""
    region = reachable(f, start, stop=[stop] if stop is not None else None)
    if stop is not None:
        region = {b for b in region if b != stop}
    ALL = None
    IN = {start: set(init)}
    OUT = {}
    uses = set()
    work = [start]
    it = 0
    while work and it < 20000:
        it += 1
        b = work.pop()
        st = set(IN[b])
        for e in ev.get(b, []):
            if e[0] == "get":
                if e[1] not in st:
                    uses.add((e[1], b))
            elif e[0] == "set":
                st.add(e[1])
            else:
                u, d = summ.of(e[1])
                for x in u:
                    if x not in st:
                        uses.add((x, b))
                st |= d
        if OUT.get(b) == st:
            continue
        OUT[b] = st
        for s2 in f.succs(b):
            if s2 not in region or f.is_cleanup(s2):
                continue
            new = st if s2 not in IN else (IN[s2] & st)
            if s2 not in IN or new != IN[s2]:
                IN[s2] = set(new)
                work.append(s2)
    # a use recorded under a state that later shrank stays recorded (sound for must-analysis); uses recorded under a
    # larger state than the final one are re-derived because the block is revisited when IN shrinks
    return uses, OUT


def run(ck, facts, R, crate, lowering_cov, scope="::compiler::wasmgen"):
    ck.rule(R, "scratch locals of the WASM generator (u32 fields named *_local): (per-instruction) in the code emitted for one MIR instruction no `local.get` of such a local precedes the `local.set` / `local.tee` that gives it this instruction's value (must-define-before-use over the generator's CFG, helpers summarised by what they read first and what they always write); (function-scoped) a local that the function emitter writes outside the per-instruction lowering — a slot saved in the prologue and read back at the returns — is not written by the lowering or its helpers")
    f = lowering_cov.fn
    summ = Summaries(facts, crate, scope)
    # which functions belong to the per-instruction lowering: the dispatch and everything it calls inside the generator
    allev = {g.path: _events(facts, g, scope) for g in facts.crate(crate).fns if scope in g.path and g.kind != "promoted"}
    inside = set()
    work = [f.path] + [g.path for g in facts.family(crate, f.root)]
    while work:
        p = work.pop()
        if p in inside or p not in allev:
            continue
        inside.add(p)
        for g in facts.family(crate, p):
            work.append(g.path)
        for lst in allev[p].values():
            for e in lst:
                if e[0] == "call":
                    work.append(e[1])
    fscoped = {}
    for p, evs in allev.items():
        if p in inside:
            continue
        for lst in evs.values():
            for e in lst:
                if e[0] == "set":
                    fscoped.setdefault(e[1], p)
    for fld, owner in sorted(fscoped.items()):
        key = "function-scoped|%s" % fld
        clob = sorted(p for p in inside for lst in allev[p].values() for e in lst if e == ("set", fld))
        if not clob:
            ck.ok(R, key, {"local": fld, "written_by": owner.split("::")[-1]})
        else:
            g = facts.fn(clob[0])
            ck.bad(R, key, "the WASM generator writes its local `%s` in %s, outside the per-instruction lowering (a value saved for the whole function and read back where the function returns), but %s — part of the code emitted for single instructions — overwrites it as a temporary: what the return path reads back is the temporary, not the saved value" % (fld, owner.split("::")[-1], clob[0].split("::")[-1]), g.where() if g else f.where())
    ev = allev[f.path]
    n = 0
    for v in sorted(lowering_cov.primary_handled()):
        tb = lowering_cov.arm_target(v)
        if tb is None:
            continue
        uses, _ = flow(f, ev, tb, lowering_cov.primary.block, summ, set(fscoped))
        touched = any(e for b in reachable(f, tb, stop=[lowering_cov.primary.block]) for e in ev.get(b, []))
        if not touched:
            continue
        n += 1
        key = "scratch-local|%s" % v
        if not uses:
            ck.ok(R, key, {"arm": v})
        else:
            fld, b = sorted(uses)[0]
            ck.bad(R, key, "the code the WASM generator emits for %s reads its scratch local `%s` before writing it: it sees the value the previous user left there (for a closure: the address of the previously allocated object, so the state of that object is reset and the new closure inherits stale state)" % (v, fld), f.where(f.term(b)))
    ck.floor(R, "arms_using_scratch_locals", n, 3)
