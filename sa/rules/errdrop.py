"""Error-vector drop rule (error discipline of the front end).

The type checker's functions answer `Result<_, Vec<Error>>`; several of them gather the errors of sub-problems in a
local vector first (element-wise unification of tuples, record fields, argument lists).  A vector of errors that a
call produced must, on every path from that call to a normal return, be looked at again: returned / appended / passed
on, or at least tested (`is_empty`, `len`).  A path on which it is only dropped discards diagnostics the checker has
already found: the function then reports success for something it knows is wrong, and the program is handed to the
back ends (C03: "a program that cannot be executed safely is rejected with a diagnostic").

Only definitions by a call are tracked (a move from another local transfers an obligation that was already the
source's; an empty `vec![]` is no error source), and the search is over the CFG (unwind edges ignored)."""
import re

from ..facts import KIND, callee

ERRV = re.compile(r"^(std::vec::Vec|alloc::vec::Vec)<.*(Error|ReportableError)")


def _mentions(x, l):
    if isinstance(x, list):
        if len(x) == 2 and isinstance(x[0], int) and isinstance(x[1], list) and x[0] == l:
            return True
        return any(_mentions(y, l) for y in x)
    return False


def error_vectors(f):
    """(local, name, def block) for error vectors defined as the destination of a call"""
    argc = f.d["argc"]
    locs = [i for i, t in enumerate(f.d["locals"]) if i > argc and ERRV.match(t)]
    if not locs:
        return []
    names = f.dbg_names()
    out = []
    for l in locs:
        if l not in names:
            continue
        for b, t in f.calls():
            if t[6] is not None and t[6][0] == l and not t[6][1]:
                c = callee(t) or ""
                if c.split("::")[-1] in ("new", "with_capacity", "default"):
                    continue
                out.append((l, names[l], b, t))
    return out


def dropped_on_a_path(f, l, defblock):
    # a plain move into another local hands the obligation on (it is not a look at the errors)
    L = {l}
    alias_stmts = set()
    changed = True
    while changed:
        changed = False
        for b, st in f.all_stmts():
            if st[KIND] == "a" and not st[4][1] and st[5][0] == "use" and st[5][1][0] in ("mv", "cp") and not st[5][1][1][1] and st[5][1][1][0] in L:
                alias_stmts.add(id(st))
                if st[4][0] not in L:
                    L.add(st[4][0])
                    changed = True
    use = set()
    for b, blk in enumerate(f.bb):
        if blk["c"]:
            continue
        for st in blk["s"]:
            if st[KIND] == "a" and id(st) not in alias_stmts and any(_mentions(st[5], x) for x in L):
                use.add(b)
        t = blk["t"]
        if t[KIND] == "call" and any(_mentions(t[5], x) for x in L):
            use.add(b)
        if t[KIND] == "switch" and any(_mentions(t[4], x) for x in L):
            use.add(b)
    seen = set()
    stack = list(f.succs(defblock))
    while stack:
        b = stack.pop()
        if b in seen or b in use:
            continue
        seen.add(b)
        if f.term(b)[KIND] == "return":
            return True
        stack.extend(f.succs(b))
    return False


def run(ck, facts, R, crate="mimium_lang", scope=("::compiler::typing",), floor=4):
    ck.rule(R, "in the type checker, a vector of errors produced by a call is looked at again on every path to a normal return (returned, appended, passed on, or tested with is_empty/len); a path on which it is only dropped discards diagnostics already found, so the checker accepts a program it knows to be ill-typed")
    n = 0
    dropped = {}
    for f in facts.crate(crate).fns:
        if f.kind == "promoted" or "::test" in f.path or not any(s in f.path for s in scope):
            continue
        vecs = error_vectors(f)
        for i, (l, name, b, t) in enumerate(vecs):
            n += 1
            # keyed by function and by the call that produced the vector (not by the local's name: a rename is not a change)
            prod = (callee(t) or "?").split("::")[-1]
            key = "drop|%s|%s%s" % (f.short, prod, "" if sum(1 for v in vecs if (callee(v[3]) or "?").split("::")[-1] == prod) == 1 else "#%d" % i)
            if dropped_on_a_path(f, l, b):
                # a violating instance is keyed by its module and producer with the number of such instances there (a
                # renamed function keeps the key of a listed finding; one more dropping function changes it)
                root_short = (facts.fn(f.root) or f).short
                dropped.setdefault((root_short.rsplit("::", 1)[0], prod), []).append((f, name, t))
            else:
                ck.ok(R, key, {"function": f.short, "vector": name, "defined_at": f.where(t)})
    for (mod, prod), lst in sorted(dropped.items()):
        f, name, t = lst[0]
        ck.bad(R, "drop|%s|%s|x%d" % (mod, prod, len(lst)), "%s collects the errors of its sub-problems in `%s` (%s) and has a path to a normal return on which that vector is neither returned nor tested: the errors found for the elements are discarded and the caller is told the types unify" % (", ".join(sorted({x[0].short for x in lst})), name, f.where(t)), f.where(t))
    ck.floor(R, "error_vectors_tracked", n, floor)
    # ---- a whole Result thrown away: `let _ = self.unify_types(a, b);`
    m = 0
    for f in facts.crate(crate).fns:
        if f.kind == "promoted" or "::test" in f.path or not any(s in f.path for s in scope):
            continue
        for b, t in f.calls():
            c = callee(t) or ""
            g = facts.fn(c)
            if g is None or not any(s in g.path for s in scope):
                continue
            rty = g.local_ty(0)
            if not (rty.startswith("std::result::Result<") and "Error" in rty):
                continue
            if t[6] is None or t[6][1] or t[6][0] == 0:
                continue
            l = t[6][0]
            m += 1
            used = False
            for b2, blk in enumerate(f.bb):
                if blk["c"]:
                    continue
                for st in blk["s"]:
                    if st[KIND] == "a" and _mentions(st[5], l):
                        used = True
                tt = blk["t"]
                if tt[KIND] == "call" and _mentions(tt[5], l):
                    used = True
                if tt[KIND] == "switch" and _mentions(tt[4], l):
                    used = True
            sites = sum(1 for _, t2 in f.calls() if (callee(t2) or "") == c and t2[6] is not None and not t2[6][1])
            key = "discard|%s|%s" % (f.short, c.split("::")[-1])
            if used:
                ck.ok(R, key)
            else:
                ck.bad(R, key, "%s calls %s and throws the Result away unread: a type error found there is neither reported nor returned, so the program is accepted — e.g. a numeric pattern against a tuple scrutinee, or match arms of different types, reach the back ends (the WASM module fails to compile, the VM reads the wrong words)" % (f.short, c.split("::", 1)[-1]), f.where(t))
    ck.floor(R, "fallible_checker_calls", m, 40)
