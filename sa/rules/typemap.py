"""type-map: a structural map over types rebuilds each composite with its own constructor.

A recursive function that dispatches on `Type`, maps itself over the components of a composite type and rebuilds the
node (`Array(inner) => Array(f(inner))`) must rebuild the variant it matched.  Arms that share a body through an
or-pattern (`Array(inner) | Ref(inner) => Ref(..)`) turn one constructor into the other.  Arms that do not descend
(`Code(_) => numeric`, a type variable replaced by its binding) are transformations, not rebuilds, and are not judged."""
from ..cfg import reachable
from ..facts import KIND, callee
from . import cover


def run(ck, facts, R, crate, enum_path, scope=None):
    from .. import roles

    ck.rule(R, "in every recursive function that dispatches on `Type` and rebuilds composite types from mapped components, the arm for a variant V that descends into V's components and constructs a `Type` constructs a V (an or-pattern arm that rebuilds another variant changes the type)")
    adt = facts.adt(enum_path)
    composite = {v["n"] for v in (adt["variants"] if adt else []) if any("TypeNodeId" in fl[1] or "RecordTypeField" in fl[1] for fl in v["f"])}
    n = 0
    for f in facts.crate(crate).fns:
        if f.kind == "promoted" or "::test" in f.path or roles.is_derived(f):
            continue
        if scope and not scope(f):
            continue
        cov = cover.coverage(facts, f, enum_path)
        if not cov or cov.primary is None:
            continue
        fam = facts.family(crate, f.root)
        selfs = {f.root, f.path}
        if not any((callee(t) or "") in selfs for g in fam for _, t in g.calls()):
            continue
        for v in sorted(cov.primary_handled()):
            tb = cov.arm_target(v)
            if tb is None or v not in composite:
                continue  # a type variable replaced by its binding is a transformation, not a rebuild
            region = reachable(f, tb, stop=[cov.primary.block])
            built = set()
            closures = []
            for b in region:
                for s in f.bb[b]["s"]:
                    if s[KIND] == "a" and s[5][0] == "agg":
                        if s[5][1][0] == "adt" and s[5][1][1] == enum_path:
                            built.add(s[5][1][3])
                        elif s[5][1][0] == "closure":
                            closures.append(s[5][1][1])
            if not built:
                continue
            descends = any(f.term(b)[KIND] == "call" and (callee(f.term(b)) or "") in selfs for b in region)
            for cp in closures:
                g = facts.fn(cp)
                if g is not None and any((callee(t) or "") in selfs for _, t in g.calls()):
                    descends = True
            if not descends:
                continue
            n += 1
            key = "arm|%s|%s" % (f.short.split("::")[-1], v)
            if v in built:
                ck.ok(R, key)
            else:
                ck.bad(R, key, "%s: the arm that handles Type::%s maps the function over the components and rebuilds the node as Type::%s: a %s type comes out as a different type (arms merged with an or-pattern share one constructor)" % (f.short, v, "/".join(sorted(built)), v), f.where(f.term(tb)))
    ck.floor(R, "rebuilding_arms", n, 8)
