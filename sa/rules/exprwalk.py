"""Child-coverage rule for recursive predicates over the syntax tree.

A *tree predicate* is a bool-returning function that matches on `ast::Expr` and calls itself (directly or through its
closures).  Its answer steers a later stage (e.g. "does this program contain staging constructs" decides whether the
staging pipeline runs at all), so it must see the whole tree: in every arm that looks at children at all, every field
of the matched variant that holds expressions is read.  An arm that recurses into some children and never reads another
(an `_` in the pattern) is blind below that child.  Arms that answer with a constant (the node itself decides, or the
form cannot occur) read nothing and are not examined."""
from ..cfg import reachable
from ..facts import KIND, callee
from . import cover

EXPR = "mimium_lang::ast::Expr"
CHILD_TYPES = ("ExprNodeId", "RecordField", "MatchArm")


def _mentions_field(x, variant, i):
    if isinstance(x, list):
        if len(x) == 2 and isinstance(x[0], int) and isinstance(x[1], list):
            pr = x[1]
            for k, e in enumerate(pr):
                if isinstance(e, list) and e and e[0] == "d" and e[-1] == variant and k + 1 < len(pr) and isinstance(pr[k + 1], list) and pr[k + 1][0] == "f" and pr[k + 1][1] == i:
                    return True
        return any(_mentions_field(y, variant, i) for y in x)
    return False


def predicates(facts, crate="mimium_lang", min_arms=5):
    out = []
    for f in facts.crate(crate).fns:
        if f.kind == "promoted" or "::test" in f.path or f.local_ty(0) != "bool" or "as std::cmp::" in f.path:
            continue
        cov = cover.coverage(facts, f, EXPR)
        if not cov or len(cov.primary_handled()) < min_arms:
            continue
        fam = facts.family(crate, f.root)
        if any((callee(t) or "") in (f.path, f.root) for g in fam for _, t in g.calls()):
            out.append((f, cov))
    return out


def check_predicate(facts, f, cov):
    """-> list of (variant, missing field indexes, examined?)"""
    adt = facts.adt(EXPR)
    res = []
    fam_paths = {g.path for g in facts.family(f.crate, f.root)}
    for v in sorted(cov.primary_handled()):
        var = [x for x in adt["variants"] if x["n"] == v][0]
        idx = [i for i, fl in enumerate(var["f"]) if any(k in fl[1] for k in CHILD_TYPES)]
        if not idx:
            continue
        used = set()
        for b, blk in enumerate(f.bb):
            if blk["c"]:
                continue
            for i in idx:
                if any(st[KIND] == "a" and _mentions_field(st[5], v, i) for st in blk["s"]):
                    used.add(i)
                t = blk["t"]
                if t[KIND] == "call" and _mentions_field(t[5], v, i):
                    used.add(i)
                if t[KIND] == "switch" and _mentions_field(t[4], v, i):
                    used.add(i)
        if not used:
            res.append((v, [], False))  # constant arm
            continue
        res.append((v, [i for i in idx if i not in used], True))
    return res


def gated_recursions(facts, f):
    """self-calls of the predicate whose execution depends on the result of another (non-self) call that looks at an
    expression id: (call term, gating callee)"""
    from ..cfg import DefIndex, dominators

    out = []
    dom = dominators(f)
    di = DefIndex(f)
    for b, t in f.calls():
        if (callee(t) or "") != f.path:
            continue
        for d in dom.get(b, ()):
            if d == b:
                continue
            tt = f.term(d)
            if tt[KIND] != "switch" or tt[4][0] not in ("cp", "mv"):
                continue
            r = di.resolve(tt[4])
            if r[0] != "call":
                continue
            c = callee(r[1]) or ""
            if c == f.path:
                continue  # short-circuit on an earlier recursive result
            looks_at_expr = any(a[0] in ("cp", "mv") and "ExprNodeId" in f.local_ty(a[1][0]) for a in r[1][5])
            # or any other predicate of the workspace about a part of the node (the pattern a `let` binds, a type):
            # the search is then pruned by a criterion that is not the question being asked
            g = facts.fn(c)
            other_pred = g is not None and g.crate == f.crate and (g.d.get("locals") or [""])[0] == "bool"
            if not (looks_at_expr or other_pred):
                continue
            # which edge leads to the recursive call?  only the "must be true/false to recurse" shape matters
            out.append((t, c))
    return out


def run_gating(ck, facts, R, only=None, floor=1):
    ck.rule(R, "a recursive search predicate over ast::Expr descends into a child unconditionally, or conditionally only on the results of its own earlier recursive calls (short-circuit), the node's shape, or iteration: a descent that is gated by another predicate of the same child (`other(e) && self(e)`) prunes subtrees by a criterion that is not the question being asked")
    n = 0
    for f, cov in predicates(facts):
        if only and not only(f):
            continue
        n += 1
        g = gated_recursions(facts, f)
        key = "ungated|%s" % f.short.split("::")[-1]
        if not g:
            ck.ok(R, key)
        for t, c in g:
            ck.bad(R, "gated|%s|%s" % (f.short.split("::")[-1], c.split("::")[-1]), "%s descends into a child only when %s answers for that child: subtrees for which it answers otherwise are never searched, so the predicate can say `no` for a tree that contains what it looks for" % (f.short, c.split("::", 1)[-1]), f.where(t))
    ck.floor(R, "search_predicates", n, floor)


def run(ck, facts, R, only=None, floor=1):
    ck.rule(R, "a recursive bool predicate over ast::Expr reads, in every arm that looks at children at all, every field of the matched variant that holds expressions (ExprNodeId, lists/options of them, record fields, match arms): an arm that recurses into some children and ignores another is blind below it, and the stage the predicate steers is skipped for programs whose only relevant construct sits there")
    n = 0
    for f, cov in predicates(facts):
        if only and not only(f):
            continue
        n += 1
        arms = 0
        for v, missing, examined in check_predicate(facts, f, cov):
            if not examined:
                continue
            arms += 1
            key = "children|%s|%s" % (f.short.split("::")[-1], v)
            if missing:
                adt = facts.adt(EXPR)
                var = [x for x in adt["variants"] if x["n"] == v][0]
                ck.bad(R, key, "%s: the arm for Expr::%s recurses into some children but never reads field %s (%s): whatever sits below that child is invisible to the predicate" % (f.short, v, ", ".join(str(i) for i in missing), ", ".join(var["f"][i][1] for i in missing)), f.where())
            else:
                ck.ok(R, key)
        ck.setcount("arms_examined_%s" % f.short.split("::")[-1], arms)
    ck.floor(R, "tree_predicates", n, floor)
