"""E2 — explicit-abort reachability.  Sites are classified by origin; only 'stated beliefs' are armed:
 (a) todo!/unimplemented!  — the code says the input class is not handled;
 (b) unreachable!/panic!/expect whose message delegates to an earlier stage.
Everything else (plain unwrap/expect/panic, compiler-inserted asserts) is censused, never alarmed."""
import re

from ..facts import KIND, callee, call_snippet, const_str

DELEGATION = re.compile(
    r"typing|type ?check|type inference|previous (stage|step)|earlier|should (be|have been|not be) "
    r"(an error|removed|expanded|handled|shown|resolved|converted)|before (this|mirgen|type|mir)|"
    r"already (filtered|checked|handled)|guarantee",
    re.I,
)
PANIC_MACROS = ("todo", "unimplemented", "unreachable", "panic")
ASSERT_MACROS = ("assert", "assert_eq", "assert_ne", "debug_assert", "debug_assert_eq", "debug_assert_ne")


def norm_snip(s):
    s = re.sub(r"\s+", " ", s or "").strip()
    return s[:90]


def owner_of(short):
    """the type (methods, closures inside them) or module (free functions) a function belongs to, from its printed path:
    keys built from it survive the rename of a private function and the renumbering of closures"""
    s = re.sub(r"(::\{closure#\d+\})+$", "", short)
    s = re.sub(r"::\{closure#\d+\}", "", s)
    if s.startswith("<"):
        # `<T as Trait>::method`
        depth = 0
        for i, ch in enumerate(s):
            depth += ch == "<"
            depth -= ch == ">"
            if depth == 0:
                return s[: i + 1]
        return s
    return s.rsplit("::", 1)[0] if "::" in s else s


def message_of(snippet):
    """the first string literal of the macro call (its message), without the arguments"""
    m = re.search(r'"((?:[^"\\\\]|\\\\.)*)"', snippet or "")
    return norm_snip(m.group(1)) if m else "-"


class Site:
    def __init__(self, fn, term, macro, snippet, cls):
        self.fn = fn
        self.term = term
        self.macro = macro
        self.snippet = snippet
        self.cls = cls  # 'todo' | 'delegation' | 'panic' | 'assert' | 'unwrap'

    def key(self):
        return "%s|%s|%s" % (owner_of(self.fn.short), self.macro, message_of(self.snippet))

    def where(self):
        return self.fn.where(self.term)


def sites_in(fn):
    out = []
    for b, t in fn.calls():
        c = callee(t) or ""
        exp = t[1] or []
        if "panicking::" in c or c.endswith("::panic") or "::panic_" in c:
            mac = next((m for m in exp if m in PANIC_MACROS + ASSERT_MACROS), None)
            snip = call_snippet(t) or ""
            if mac in ASSERT_MACROS:
                cls = "assert"
            elif mac in ("todo", "unimplemented"):
                cls = "todo"
            elif mac in ("unreachable", "panic"):
                cls = "delegation" if DELEGATION.search(snip) else "panic"
            else:
                mac = mac or "panic-fn"
                cls = "panic"
            out.append(Site(fn, t, mac, snip, cls))
        elif c.endswith("::expect") and ("option::Option" in c or "result::Result" in c):
            msg = ""
            for a in t[5]:
                s = const_str(a)
                if s:
                    msg = s
            cls = "delegation" if DELEGATION.search(msg) else "unwrap"
            out.append(Site(fn, t, "expect", msg, cls))
        elif c.endswith("::unwrap") and ("option::Option" in c or "result::Result" in c):
            out.append(Site(fn, t, "unwrap", "", "unwrap"))
    return out


def assert_terminators(fn):
    n = {}
    for b, blk in enumerate(fn.bb):
        if blk["c"]:
            continue
        t = blk["t"]
        if t[KIND] == "assert":
            n[t[6]] = n.get(t[6], 0) + 1
    return n


def census(cg, par):
    """all abort sites in workspace functions reachable per `par` (result of CallGraph.reach)"""
    sites = []
    asserts = {}
    nfn = 0
    for p in par:
        f = cg.fns.get(p)
        if f is None:
            continue
        nfn += 1
        sites.extend(sites_in(f))
        for k, v in assert_terminators(f).items():
            asserts[k] = asserts.get(k, 0) + v
    return sites, asserts, nfn
