"""Guarded-index contradiction rule (Engler-style stated belief).

An index expression `c[i]` is checked by a compiler-inserted bounds assert (slices, arrays) or inside
`Index::index` (Vec): it needs i < len(c).  When the same function compares the same `i` with the same `len(c)`
in a branch that dominates the access, the author stated what they believe makes the access safe.  If the relation
that survives on the edge towards the access is `i <= len(c)` (or points the other way), the belief is wrong by
one: the guard lets `i == len(c)` through and the access panics — a diagnostic was intended, a crash is delivered."""
from ..cfg import DefIndex, dominators
from ..facts import KIND, callee

FLIP = {"lt": "gt", "le": "ge", "gt": "lt", "ge": "le", "eq": "eq", "ne": "ne"}
NEG = {"lt": "ge", "le": "gt", "gt": "le", "ge": "lt", "eq": "ne", "ne": "eq"}


class Terms:
    def __init__(self, f):
        self.f = f
        self.di = DefIndex(f)
        self.memo = {}

    def local(self, l, depth):
        if l in self.memo:
            return self.memo[l]
        self.memo[l] = ("loc", l)  # cycle guard
        ds = self.di.defs.get(l, [])
        t = ("loc", l)
        if len(ds) == 1 and depth > 0:
            b, i, s = ds[0]
            if i is None:
                c = callee(s) or ""
                n = c.split("::")[-1]
                if n == "len" and s[5]:
                    t = ("len", strip(self.op(s[5][0], depth - 1)))
                elif n == "is_empty" and s[5]:
                    t = ("call_is_empty", strip(self.op(s[5][0], depth - 1)))
                elif n in ("deref", "deref_mut", "as_slice", "as_ref", "borrow", "as_mut_slice", "clone", "to_owned") and s[5]:
                    t = self.op(s[5][0], depth - 1)
                else:
                    t = ("call", l, n)
            else:
                rv = s[5]
                if rv[0] == "use":
                    t = self.op(rv[1], depth - 1)
                elif rv[0] == "cast" and rv[1] in ("IntToInt", "PtrToPtr", "Unsize", "PointerCoercion"):
                    t = self.op(rv[2], depth - 1)
                elif rv[0] == "ref" or rv[0] == "raw":
                    t = ("ref", self.place(rv[1], depth - 1))
                elif rv[0] == "un" and rv[1] == "ptrmeta":
                    t = ("len", strip(self.op(rv[2], depth - 1)))
                elif rv[0] == "bin":
                    t = ("bin", rv[1], self.op(rv[2], depth - 1), self.op(rv[3], depth - 1))
                elif rv[0] == "un":
                    t = ("un", rv[1], self.op(rv[2], depth - 1))
        self.memo[l] = t
        return t

    def place(self, pl, depth):
        base = self.local(pl[0], depth)
        for e in pl[1]:
            if e == "*":
                base = ("deref", base)
            elif isinstance(e, list) and e[0] == "f":
                base = ("fld", base, e[1])
            elif isinstance(e, list) and e[0] == "d":
                base = ("down", base, e[1])
            else:
                base = ("elem", base, repr(e))
        return base

    def op(self, op, depth=14):
        if op[0] == "c":
            return ("k", repr(op[1:]))
        return self.place(op[1], depth)


def strip(t):
    """identity of a container modulo indirection"""
    while isinstance(t, tuple) and t and t[0] in ("ref", "deref"):
        t = t[1]
    if isinstance(t, tuple) and t and t[0] in ("fld", "down", "elem"):
        return (t[0], strip(t[1])) + t[2:]
    return t


def index_sites(f, T):
    """(block, item, idx term, container term) for every checked index access of f"""
    out = []
    for b, blk in enumerate(f.bb):
        if blk["c"]:
            continue
        t = blk["t"]
        if t[KIND] == "assert" and len(t) > 6 and "BoundsCheck" in str(t[6]):
            c = T.op(t[4]) if t[4][0] in ("cp", "mv") else None
            if c and c[0] == "bin" and c[1] == "lt" and c[3][0] == "len":
                out.append((b, t, strip_int(c[2]), c[3][1]))
        elif t[KIND] == "call":
            c = callee(t) or ""
            n = c.split("::")[-1]
            if n in ("index", "index_mut") and len(t[5]) == 2 and ("Vec" in c or "slice" in c or "[T]" in c or "Index" in c):
                # only integer indices
                ity = f.local_ty(t[5][1][1][0]) if t[5][1][0] in ("cp", "mv") else "usize"
                if ity != "usize":
                    continue
                out.append((b, t, strip_int(T.op(t[5][1])), strip(T.op(t[5][0]))))
    return out


def strip_int(t):
    return t


def check_function(f):
    """yield (item, relation, guard_block) for index accesses whose dominating guard is off by one / reversed"""
    T = Terms(f)
    sites = index_sites(f, T)
    if not sites:
        return [], 0
    dom = dominators(f)
    bad = []
    guarded = 0
    for b, item, idx, cont in sites:
        if idx[0] == "k":
            continue
        rels = []
        for d in dom.get(b, ()):
            if d == b:
                continue
            t = f.term(d)
            if t[KIND] != "switch" or t[4][0] not in ("cp", "mv"):
                continue
            c = T.op(t[4])
            neg = False
            while c[0] == "un" and c[1] == "not":
                c = c[2]
                neg = not neg
            if c[0] != "bin" or c[1] not in FLIP:
                continue
            x, y = c[2], c[3]
            op = c[1]
            if x == idx and y == ("len", cont):
                pass
            elif y == idx and x == ("len", cont):
                op = FLIP[op]
            else:
                continue
            # which edge of d leads to b?
            val = None
            for v, tb in t[6]:
                if tb == b or tb in dom.get(b, ()):
                    val = int(v)
            if val is None and (t[7] == b or t[7] in dom.get(b, ())):
                val = "other"
            if val is None:
                continue
            truth = (val != 0) if val != "other" else (0 in [int(v) for v, _ in t[6]])
            if neg:
                truth = not truth
            rels.append((op if truth else NEG[op], d))
        if not rels:
            continue
        guarded += 1
        if any(r == "lt" for r, _ in rels):
            continue
        bad.append((item, rels[0][0], rels[0][1]))
    return bad, guarded


def _const_of(t):
    """integer value of a constant term ('k', "['i', 'usize', '2']") or None"""
    if isinstance(t, tuple) and t and t[0] == "k":
        import ast
        try:
            v = ast.literal_eval(t[1])
            if isinstance(v, list) and len(v) >= 3 and v[0] == "i":
                return int(v[2])
        except Exception:
            return None
    return None


def check_const_index(f, intervals=None):
    """index accesses with a constant index k whose container's length is compared with constants on the way:
    the interval the dominating comparisons leave for len must exclude 0..=k"""
    T = Terms(f)
    sites = index_sites(f, T)
    if not sites:
        return [], 0
    dom = dominators(f)
    bad = []
    guarded = 0
    INF = 1 << 62
    for b, item, idx, cont in sites:
        k = _const_of(idx)
        if k is None:
            continue
        lo, hi = 0, INF
        seen = False
        for d in dom.get(b, ()):
            if d == b:
                continue
            t = f.term(d)
            if t[KIND] != "switch" or t[4][0] not in ("cp", "mv"):
                continue
            c = T.op(t[4])
            # which edge leads to b
            val = None
            for v, tb in t[6]:
                if tb == b or tb in dom.get(b, ()):
                    val = int(v)
            other = val is None and (t[7] == b or t[7] in dom.get(b, ()))
            if val is None and not other:
                continue
            listed = [int(v) for v, _ in t[6]]
            if c == ("len", cont):
                # match on the length itself
                seen = True
                if val is not None:
                    lo, hi = max(lo, val), min(hi, val)
                else:
                    while lo in listed:
                        lo += 1
                continue
            neg = False
            while c[0] == "un" and c[1] == "not":
                c = c[2]
                neg = not neg
            if c[0] == "call_is_empty" and c[1] == cont:
                seen = True
                truth = (val != 0) if val is not None else (0 in listed)
                if neg:
                    truth = not truth
                if truth:
                    hi = min(hi, 0)
                else:
                    lo = max(lo, 1)
                continue
            if c[0] != "bin" or c[1] not in FLIP:
                continue
            x, y, op = c[2], c[3], c[1]
            if x == ("len", cont) and _const_of(y) is not None:
                n = _const_of(y)
            elif y == ("len", cont) and _const_of(x) is not None:
                n = _const_of(x)
                op = FLIP[op]
            else:
                continue
            seen = True
            truth = (val != 0) if val is not None else (0 in listed)
            if neg:
                truth = not truth
            if not truth:
                op = NEG[op]
            # len op n
            if op == "lt":
                hi = min(hi, n - 1)
            elif op == "le":
                hi = min(hi, n)
            elif op == "gt":
                lo = max(lo, n + 1)
            elif op == "ge":
                lo = max(lo, n)
            elif op == "eq":
                lo, hi = max(lo, n), min(hi, n)
            elif op == "ne" and lo == n:
                lo = n + 1
        if not seen:
            continue
        guarded += 1
        if intervals is not None:
            intervals.append((item, cont, k, lo, hi if hi < INF else None))
        if lo <= k and lo <= hi:
            bad.append((item, k, lo, hi if hi < INF else None))
    return bad, guarded


def run(ck, facts, R, crates, floor=25):
    ck.rule(R, "where a function compares an index with the length of the container it then indexes (a checked access: compiler-inserted bounds assert or Index::index), the relation that holds on the edge to the access implies index < length; `index <= length` (or a reversed test) is an off-by-one in a check the author wrote to turn a bad index into a diagnostic")
    n = 0
    for cn in crates:
        for f in facts.crate(cn).fns:
            if f.kind == "promoted" or "::test" in f.path:
                continue
            bad, guarded = check_function(f)
            n += guarded
            for item, rel, d in bad:
                ck.bad(R, "guard|%s|i-%s-len" % (f.short, rel), "%s checks the index against the length before indexing, but the check only establishes `index %s length` on the way to the access at %s: index == length passes the check and the access panics (index out of bounds) instead of producing the intended diagnostic" % (f.short, {"le": "<=", "ge": ">=", "gt": ">", "eq": "==", "ne": "!="}.get(rel, rel), f.where(item)), f.where(item))
    ck.floor(R, "guarded_index_accesses", n, floor)
    ck.setcount("guarded_index_accesses_consistent", n)
    m = 0
    for cn in crates:
        for f in facts.crate(cn).fns:
            if f.kind == "promoted" or "::test" in f.path:
                continue
            bad, guarded = check_const_index(f)
            m += guarded
            for item, k, lo, hi in bad:
                ck.bad(R, "const-index|%s|%d" % (f.short, k), "%s indexes element %d of a container whose length it has just compared with constants, but on the way to the access at %s those comparisons only establish %d <= length%s: an empty / shorter container passes and the access panics (index out of bounds)" % (f.short, k, f.where(item), lo, (" <= %d" % hi) if hi is not None else ""), f.where(item))
    ck.floor(R, "length_guarded_constant_index_accesses", m, 80)
