"""Model of the whole tokenizer (the chumsky combinator value built by `parser::tokenizer`), decided on small alphabets.

`lexmodel` models the comment combinators only.  This module extracts the complete lexer — the expression handed to
`.parse(source)` in `tokenize`, with the parser-building functions it calls inlined from their own MIR — as a PEG tree
whose leaves carry the token kind they produce (`.to(TokenKind::K)`, the keyword table of the identifier closure, the
kind the error fallback constructs).  The *model* is then evaluated (the program is never run):

  tiling       every string over the alphabet up to the bound is consumed completely by the token loop, every step
               consumes at least one character (chumsky's `repeated()` panics in debug builds and spins in release
               builds on a step that consumes nothing), and the loop is followed by `end()`;
  no-progress  no repetition anywhere in the tree has a body that can succeed without consuming;
  munch        every literal token spelled alone is one token of its own kind (an earlier alternative that is a prefix of
               a later one shadows it: `|` before `||>`), and stays so between two spaces;
  layout       inserting a blank at a boundary between two tokens the model itself found never changes the sequence of
               non-blank tokens (a tokenizer whose decisions reach across a boundary makes whitespace significant).

Semantics of the chumsky 0.11 primitives used were read off its sources (`text::int` = `0 | [1-9][0-9]*`,
`text::digits` = one or more digits, `text::newline` = `\\r\\n? | \\n | VT | FF | NEL | LS | PS`, `text::ident` =
XID_Start/`_` then XID_Continue*; ordered choice; greedy repetition without backtracking).  An unknown combinator
fails closed."""
import itertools
import re

from ..facts import callee
from ..symex import PathLimit, SymEx
from .lexmodel import Unmodelled, _const_text, _strip

TOKENIZER = "::parser::tokenizer::"


def fn_return_expr(facts, f):
    sx = SymEx(f, max_paths=8, facts=facts)
    try:
        paths = sx.run(0)
    except PathLimit:
        paths = sx.paths
    rets = [p.env.get(0) for p in paths if p.end == "return"]
    if len(rets) != 1 or rets[0] is None:
        raise Unmodelled("%s does not build one parser value" % f.short)
    return rets[0]


def _kind_of(e):
    e = _strip(e)
    if isinstance(e, tuple) and e and e[0] == "agg" and "::TokenKind::" in str(e[1]):
        return e[1].split("::")[-1]
    return None


def keyword_table(facts, closure_path):
    """text -> TokenKind for the `match ident { "fn" => .., _ => Ident }` closure; also the default kind"""
    f = facts.fn(closure_path)
    if f is None:
        raise Unmodelled("keyword closure %s not found" % closure_path)
    sx = SymEx(f, max_paths=256, max_steps=20000, facts=facts)
    try:
        paths = sx.run(0)
    except PathLimit:
        raise Unmodelled("keyword closure has too many paths")
    table, default = {}, None
    for p in paths:
        if p.end != "return":
            continue
        k = _kind_of(p.env.get(0))
        if k is None:
            raise Unmodelled("keyword closure returns a non-constant kind")
        pos = None
        for ce, v, positive in p.conds:
            if ce[0] == "call" and ce[1].split("::")[-1] in ("eq", "equal", "memcmp", "bcmp"):
                texts = []
                for a in ce[2]:
                    aa = _strip(a)
                    if isinstance(aa, tuple) and aa[0] == "unk" and str(aa[1]).startswith('const:"') and str(aa[1]).endswith('"'):
                        texts.append(str(aa[1])[7:-1])  # a `&str` pattern constant, printed by the extractor
                        continue
                    try:
                        texts.append(_const_text(a))
                    except Unmodelled:
                        pass
                truth = (positive and v not in (0, (0,))) or (not positive and tuple(v) == (0,))
                if texts and truth:
                    pos = texts[0]
        if pos is None:
            default = k
        else:
            table[pos] = k
    if default is None:
        raise Unmodelled("keyword closure has no default kind")
    return table, default


def closure_kind(facts, e):
    """the TokenKind a `map_with(|_, e| Token::new(TokenKind::K, ..))` closure constructs, if it is a constant"""
    e = _strip(e)
    if not (isinstance(e, tuple) and e and e[0] == "agg" and str(e[1]).startswith("closure:")):
        return None
    f = facts.fn(e[1][len("closure:"):])
    if f is None:
        return None
    kinds = set()
    for b, s in f.all_stmts():
        if s[3] == "a" and s[5][0] == "agg" and s[5][1][0] == "adt" and s[5][1][1].endswith("::TokenKind"):
            kinds.add(s[5][1][3])
    return kinds.pop() if len(kinds) == 1 else None


def build(facts, e, depth=0):
    e = _strip(e)
    if depth > 40:
        raise Unmodelled("combinator nesting too deep")
    if not (isinstance(e, tuple) and e and e[0] == "call"):
        raise Unmodelled("not a combinator: %r" % (e,))
    full = e[1]
    name = re.sub(r"<[^<>]*>", "", re.sub(r"<[^<>]*>", "", full)).split("::")[-1]
    a = e[2]
    B = lambda x: build(facts, x, depth + 1)  # noqa: E731
    if TOKENIZER in full and not a:
        f = facts.fn(full)
        if f is None:
            raise Unmodelled("parser-building function %s not found" % full)
        return B(fn_return_expr(facts, f))
    if name in ("clone", "boxed", "labelled", "as_context", "lazy", "collect", "ignored", "to_slice", "slice"):
        return B(a[0])
    if name == "just":
        return ("lit", _const_text(a[0]))
    if name == "any":
        return ("any",)
    if name == "none_of":
        return ("none_of", frozenset(_const_text(a[0])))
    if name == "one_of":
        return ("one_of", frozenset(_const_text(a[0])))
    if name == "end":
        return ("end",)
    if name == "newline":
        return ("newline",)
    if name == "int" and "::text::" in full:
        return ("int",)
    if name == "digits" and "::text::" in full:
        return ("digits",)
    if name == "ident" and "::text::" in full:
        return ("ident", "ascii" in full)
    if name == "choice":
        t = _strip(a[0])
        if not (isinstance(t, tuple) and t[0] == "agg"):
            raise Unmodelled("choice over a non-literal tuple")
        return ("alt", tuple(B(x) for x in t[2]))
    if name == "or":
        return ("alt", (B(a[0]), B(a[1])))
    if name in ("then", "ignore_then", "then_ignore"):
        return ("seq", B(a[0]), B(a[1]))
    if name == "repeated":
        return ("star", B(a[0]), 0)
    if name == "at_least":
        inner = B(a[0])
        if inner[0] != "star":
            raise Unmodelled("at_least on a non-repetition")
        n = _strip(a[1])
        if not (isinstance(n, tuple) and n[0] == "k"):
            raise Unmodelled("at_least with a non-constant bound")
        return ("star", inner[1], int(n[1]))
    if name == "not":
        return ("not", B(a[0]))
    if name == "and_is":
        return ("and", B(a[0]), B(a[1]))
    if name == "rewind":
        return ("peek", B(a[0]))
    if name == "or_not":
        return ("opt", B(a[0]))
    if name == "delimited_by":
        return ("seq", B(a[1]), ("seq", B(a[0]), B(a[2])))
    if name == "to":
        k = _kind_of(a[1])
        if k is None:
            raise Unmodelled("`to` with a non-constant token kind")
        return ("tok", B(a[0]), k)
    if name == "map":
        c = _strip(a[1])
        if isinstance(c, tuple) and c[0] == "agg" and str(c[1]).startswith("closure:"):
            table, default = keyword_table(facts, c[1][len("closure:"):])
            return ("kw", B(a[0]), tuple(sorted(table.items())), default)
        raise Unmodelled("`map` with an unknown function")
    if name == "map_with":
        k = closure_kind(facts, a[1])
        inner = B(a[0])
        return ("tok", inner, k) if (k is not None and not _has_kind(inner)) else inner
    raise Unmodelled("combinator `%s`" % name)


def _has_kind(n):
    if n[0] in ("tok", "kw"):
        return True
    return any(isinstance(x, tuple) and x and isinstance(x[0], str) and _has_kind(x) for x in n[1:] if isinstance(x, tuple)) or (
        n[0] == "alt" and any(_has_kind(x) for x in n[1])
    )


NEWLINES = "\n\x0b\x0c\x85  "


def match(n, s, i):
    """(end, kind) or None"""
    k = n[0]
    if k == "lit":
        return (i + len(n[1]), None) if s.startswith(n[1], i) else None
    if k == "any":
        return (i + 1, None) if i < len(s) else None
    if k == "none_of":
        return (i + 1, None) if i < len(s) and s[i] not in n[1] else None
    if k == "one_of":
        return (i + 1, None) if i < len(s) and s[i] in n[1] else None
    if k == "end":
        return (i, None) if i == len(s) else None
    if k == "newline":
        if i < len(s) and s[i] == "\r":
            return (i + 2, None) if s.startswith("\n", i + 1) else (i + 1, None)
        return (i + 1, None) if i < len(s) and s[i] in NEWLINES else None
    if k == "int":
        if i < len(s) and s[i] in "123456789":
            j = i + 1
            while j < len(s) and s[j] in "0123456789":
                j += 1
            return (j, None)
        return (i + 1, None) if i < len(s) and s[i] == "0" else None
    if k == "digits":
        j = i
        while j < len(s) and s[j] in "0123456789":
            j += 1
        return (j, None) if j > i else None
    if k == "ident":
        def start(c):
            return c == "_" or (c.isalpha() and (c.isascii() or not n[1]))

        def cont(c):
            return c == "_" or ((c.isalnum()) and (c.isascii() or not n[1]))

        if i < len(s) and start(s[i]):
            j = i + 1
            while j < len(s) and cont(s[j]):
                j += 1
            return (j, None)
        return None
    if k == "alt":
        for x in n[1]:
            r = match(x, s, i)
            if r is not None:
                return r
        return None
    if k == "seq":
        r = match(n[1], s, i)
        if r is None:
            return None
        r2 = match(n[2], s, r[0])
        if r2 is None:
            return None
        return (r2[0], r2[1] if r2[1] is not None else r[1])
    if k == "star":
        cur, cnt = i, 0
        while True:
            r = match(n[1], s, cur)
            if r is None:
                break
            if r[0] == cur:
                raise NoProgress(cur)
            cur, cnt = r[0], cnt + 1
        return (cur, None) if cnt >= n[2] else None
    if k == "not":
        return (i, None) if match(n[1], s, i) is None else None
    if k == "and":
        r = match(n[1], s, i)
        if r is None or match(n[2], s, i) is None:
            return None
        return r
    if k == "peek":
        return (i, None) if match(n[1], s, i) is not None else None
    if k == "opt":
        r = match(n[1], s, i)
        return (i, None) if r is None else r
    if k == "tok":
        r = match(n[1], s, i)
        return None if r is None else (r[0], n[2])
    if k == "kw":
        r = match(n[1], s, i)
        if r is None:
            return None
        return (r[0], dict(n[2]).get(s[i:r[0]], n[3]))
    raise Unmodelled(k)


class NoProgress(Exception):
    pass


def lexer_parts(tree):
    """(step, tail): the lexer is `step.repeated()` followed by `tail`"""
    if tree[0] == "seq" and tree[1][0] == "star" and tree[1][2] == 0:
        return tree[1][1], tree[2]
    if tree[0] == "star" and tree[2] == 0:
        return tree[1], None
    raise Unmodelled("the lexer is not a repetition of one token parser")


def tokenize(step, s):
    """[(start, end, kind)] and the stop position"""
    out, pos = [], 0
    while True:
        r = match(step, s, pos)
        if r is None:
            break
        if r[0] == pos:
            raise NoProgress(pos)
        out.append((pos, r[0], r[1]))
        pos = r[0]
    return out, pos


def literals(n, acc=None):
    """(text, kind) of every `just(text).to(kind)` leaf"""
    acc = [] if acc is None else acc
    if n[0] == "tok" and n[1][0] == "lit":
        acc.append((n[1][1], n[2]))
    elif n[0] == "alt":
        for x in n[1]:
            literals(x, acc)
    else:
        for x in n[1:]:
            if isinstance(x, tuple) and x and isinstance(x[0], str):
                literals(x, acc)
    return acc


def nullable_star_bodies(n, acc=None):
    """repetitions whose body can match the empty string at the end of input or before an arbitrary character"""
    acc = [] if acc is None else acc
    if n[0] == "star":
        for probe in ("", "a", " ", "0", "\n", "\"", "/", "~"):
            try:
                r = match(n[1], probe, 0)
            except NoProgress:
                r = (0, None)
            if r is not None and r[0] == 0:
                acc.append((n, probe))
                break
    kids = n[1] if n[0] == "alt" else [x for x in n[1:] if isinstance(x, tuple) and x and isinstance(x[0], str)]
    for x in kids:
        nullable_star_bodies(x, acc)
    return acc


BLANK_KINDS = ("Whitespace", "LineBreak")
NUMERIC_DOT = ("Int", "Float", "Dot", "DoubleDot")


def check(tree, alphabet, maxlen):
    """dict of findings: tiling / layout counter-examples (first, shortest) and counts"""
    step, tail = lexer_parts(tree)
    res = {"strings": 0, "tiling": None, "layout": None, "no_progress": None}
    for L in range(0, maxlen + 1):
        for tup in itertools.product(alphabet, repeat=L):
            s = "".join(tup)
            res["strings"] += 1
            try:
                toks, pos = tokenize(step, s)
            except NoProgress as e:
                if res["no_progress"] is None:
                    res["no_progress"] = (s, e.args[0])
                continue
            ok_tail = pos == len(s) and (tail is None or match(tail, s, pos) is not None)
            if not ok_tail and res["tiling"] is None:
                res["tiling"] = (s, pos)
            if res["layout"] is None and ok_tail and len(toks) > 1 and not any(k in ("Error", None) for _, _, k in toks):
                base = [(s[a:b], k) for a, b, k in toks if k not in BLANK_KINDS]
                for j in range(1, len(toks)):
                    cut = toks[j][0]
                    if toks[j - 1][2] in BLANK_KINDS or toks[j][2] in BLANK_KINDS:
                        continue
                    if toks[j - 1][2] in NUMERIC_DOT and toks[j][2] in NUMERIC_DOT:
                        continue  # digits and dots are context-sensitive by design (`t.0.1`, `1..2`); see split_projection
                    s2 = s[:cut] + " " + s[cut:]
                    try:
                        t2, p2 = tokenize(step, s2)
                    except NoProgress:
                        continue
                    got = [(s2[a:b], k) for a, b, k in t2 if k not in BLANK_KINDS]
                    if got != base:
                        res["layout"] = (s, s2, base, got)
                        break
    return res
