"""Invented-name rule: names the compiler makes up and binds must not be spellable by the user.

A pass that introduces a binder (a feedback variable for `self`, a temporary for a record update, a parameter for a
`_` placeholder, a name for an anonymous pattern …) needs a name.  If that name can be written in a program — it
matches the identifier grammar of the tokenizer — a user variable of the same spelling is captured by, or captures, the
compiler's binder: renaming a variable to such a name changes the program (C16 says "including names resembling
compiler-generated ones").  Names with a character outside the identifier alphabet (`$`, a space, a leading digit) are
safe.

Extraction (per function, on MIR): the argument of `ToSymbol::to_symbol` is resolved to a string constant (directly,
through a promoted constant) or to the template of a `format!` (the byte-encoded template handed to
`fmt::Arguments::new`: length-prefixed literal pieces, placeholder markers).  One level of name generators (functions
whose return value is such a symbol) is followed.  A name is *bound* when the symbol flows (copies/moves/call
arguments, within the function) into a binder position: `TypedId`, `Pattern::Single`, the name operand of `Expr::Feed`
/ `Expr::LetRec`."""
import re

from ..cfg import DefIndex
from ..facts import KIND, callee
from .chainwalk import taint

IDENT = re.compile(r"^[A-Za-z_][A-Za-z0-9_]*$")


def decode_template(raw):
    """rustc's compact format template (bytes literal as printed: b"\\x07feed_id\\xc0\\x00") -> 'feed_id{}'"""
    if not (raw.startswith('b"') and raw.endswith('"')):
        return None
    body = raw[2:-1]
    try:
        data = bytes(body, "latin-1").decode("unicode_escape").encode("latin-1")
    except Exception:
        return None
    out = []
    i = 0
    while i < len(data):
        b = data[i]
        if b == 0:
            break
        if b < 0x80:
            out.append(data[i + 1:i + 1 + b].decode("utf-8", "replace"))
            i += 1 + b
        else:
            out.append("{}")
            i += 1
    return "".join(out)


def name_template(facts, f, di, op):
    cur = op
    for _ in range(10):
        if cur[0] == "c":
            if cur[1] == "s":
                return cur[2]
            if cur[1] == "p":
                pf = facts.fn("%s::promoted[%s]" % (cur[2], cur[3]))
                if pf is None:
                    return None
                for _, st in pf.all_stmts():
                    if st[KIND] == "a" and st[5][0] == "use" and st[5][1][0] == "c" and st[5][1][1] == "s":
                        return st[5][1][2]
                return None
            return None
        r = di.resolve(cur)
        if r[0] == "const":
            cur = r[1]
            continue
        if r[0] == "rv" and r[1][5][0] in ("ref", "raw"):
            cur = ["cp", [r[1][5][1][0], []]]
            continue
        if r[0] == "call":
            n = (callee(r[1]) or "").split("::")[-1]
            if n in ("must_use", "format", "as_str", "deref", "to_string", "borrow", "as_ref", "to_owned") and r[1][5]:
                cur = r[1][5][0]
                continue
            if n == "new" and "fmt::Arguments" in (callee(r[1]) or "") and r[1][5]:
                rr = di.resolve(r[1][5][0])
                for _k in range(4):
                    if rr[0] == "rv" and rr[1][5][0] in ("ref", "raw"):
                        rr = di.resolve(["cp", [rr[1][5][1][0], []]])
                    else:
                        break
                if rr[0] == "const" and rr[1][1] == "o":
                    return decode_template(rr[1][3])
                return None
            return None
        return None
    return None


BINDERS = (("TypedId", None), ("Single", "Pattern"), ("Feed", "Expr"), ("LetRec", "Expr"))


def _binder_sinks(f, T):
    out = []
    for _, st in f.all_stmts():
        if st[KIND] != "a" or st[5][0] != "agg" or st[5][1][0] != "adt":
            continue
        adt = st[5][1][1].split("::")[-1]
        var = st[5][1][3]
        for v, a in BINDERS:
            if (a is None and adt == v) or (a is not None and adt == a and var == v):
                ops = st[5][2][:1] if v in ("Feed", "LetRec", "Single") else st[5][2]
                if any(o[0] in ("cp", "mv") and o[1][0] in T for o in ops):
                    out.append(("%s::%s" % (adt, var) if a else adt, st))
    for _, t in f.calls():
        c = callee(t) or ""
        if c.endswith("TypedId::new") and t[5] and t[5][0][0] in ("cp", "mv") and t[5][0][1][0] in T:
            out.append(("TypedId", t))
    return out


def invented_names(facts, crate="mimium_lang", scope="::compiler::"):
    """[(function, template, [(binder kind, stmt)])]"""
    fns = [f for f in facts.crate(crate).fns if f.kind != "promoted" and "::test" not in f.path and scope in f.path]
    sites = {}
    gens = {}
    for f in fns:
        di = None
        for b, t in f.calls():
            if (callee(t) or "").split("::")[-1] != "to_symbol" or not t[5] or t[6] is None:
                continue
            di = di or DefIndex(f)
            tm = name_template(facts, f, di, t[5][0])
            if tm is None:
                continue
            sites.setdefault(f.path, []).append((t, tm))
            T = taint(f, [t[6][0]])
            if 0 in T or t[6][0] == 0:
                gens.setdefault(f.path, set()).add(tm)
    out = []
    for f in fns:
        seeds = [(t[6][0], tm, t) for t, tm in sites.get(f.path, [])]
        for b, t in f.calls():
            c = callee(t) or ""
            if c in gens and t[6] is not None:
                for tm in gens[c]:
                    seeds.append((t[6][0], tm, t))
        for l, tm, t in seeds:
            T = taint(f, [l])
            sk = _binder_sinks(f, T)
            if sk:
                out.append((f, tm, sk, t))
    return out


def run(ck, facts, R):
    ck.rule(R, "every name a compiler pass makes up and binds (the symbol reaches a TypedId, a Pattern::Single, or the name of an Expr::Feed / Expr::LetRec) contains a character the tokenizer's identifier grammar does not accept: a made-up name that is a valid identifier (`feed_id0`, `record_update_temp`, `__lambda_arg_0`, `_anonymous_pat_0`) can be written by the user, and a variable renamed to it captures or is captured by the compiler's binder")
    found = invented_names(facts)
    seen = set()
    n = 0
    for f, tm, sinks, t in found:
        key = "binder|%s" % tm
        if key in seen:
            continue
        seen.add(key)
        n += 1
        probe = tm.replace("{}", "0")
        if IDENT.match(probe):
            ck.bad(R, key, "%s binds the made-up name `%s` (as %s): that spelling is a valid identifier, so a user variable called `%s` and the compiler's binder capture each other — renaming a variable to it changes the program" % (f.short, tm, sinks[0][0], probe), f.where(t))
        else:
            ck.ok(R, key, {"template": tm, "in": f.short, "why_safe": "not an identifier"})
    ck.floor(R, "invented_binder_names", n, 3)
