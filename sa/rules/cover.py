"""E1 — enum coverage: which variants a function's matches handle, which fall into a catch-all,
which arms diverge; which variants a set of functions can construct."""
from ..cfg import DefIndex, can_reach_return, reachable
from ..facts import KIND, callee, call_snippet

ABORT_MACROS = ("todo", "unimplemented", "unreachable", "panic")


def ty_matches(tystr, enum_path):
    """type strings omit the crate prefix inside the defining crate; compare on the crate-less tail"""
    t = tystr.lstrip("&").replace("mut ", "").strip()
    # drop trailing generic arguments only (`Foo<T>` -> `Foo`); a path may itself contain `<impl ..>` segments
    if t.endswith(">"):
        depth = 0
        for i in range(len(t) - 1, -1, -1):
            if t[i] == ">":
                depth += 1
            elif t[i] == "<":
                depth -= 1
                if depth == 0:
                    if not t[:i].endswith("::"):
                        t = t[:i]
                    break
    elif "<" in t and not t.startswith("<") and "<impl" not in t:
        t = t.split("<", 1)[0]
    tail = enum_path.split("::", 1)[1] if "::" in enum_path else enum_path
    if t == enum_path or t == tail:
        return True
    # foreign types are printed through their visible (re-exported) path: same crate and same final name
    return "::" in t and t.split("::")[0] == enum_path.split("::")[0] and t.rsplit("::", 1)[1] == enum_path.rsplit("::", 1)[1]


class Switch:
    def __init__(self, fn, block, place, targets, otherwise, otherwise_unreachable):
        self.fn = fn
        self.block = block
        self.place = place
        self.targets = targets  # discr value (str) -> block
        self.otherwise = otherwise
        self.otherwise_unreachable = otherwise_unreachable


def is_trivially_unreachable(fn, b):
    blk = fn.bb[b]
    return blk["t"][KIND] == "unreachable"


def enum_switches(fn, enum_path):
    """all SwitchInt terminators of fn whose operand is the discriminant of a place of type enum_path"""
    out = []
    for b, blk in enumerate(fn.bb):
        if blk["c"]:
            continue
        t = blk["t"]
        if t[KIND] != "switch":
            continue
        op = t[4]
        if op[0] not in ("cp", "mv") or op[1][1]:
            continue
        loc = op[1][0]
        # find the defining `disc` in this block (MIR building puts it right before the switch)
        src = None
        for s in reversed(blk["s"]):
            if s[KIND] == "a" and s[4][0] == loc and not s[4][1]:
                if s[5][0] == "disc":
                    src = s[5]
                break
        if src is None:
            # the discriminant read may sit in a predecessor block
            di = DefIndex(fn)
            d = di.single_def(loc)
            if d and d[1] is not None and d[2][5][0] == "disc":
                src = d[2][5]
        if src is None or not ty_matches(src[2], enum_path):
            continue
        out.append(
            Switch(fn, b, src[1], {v: tb for v, tb in t[6]}, t[7], is_trivially_unreachable(fn, t[7]))
        )
    return out


def abort_sites(fn, blocks):
    """(macro, snippet, term) for explicit aborts (panic-family macro expansions) inside `blocks`"""
    out = []
    for b in blocks:
        t = fn.term(b)
        if t[KIND] != "call":
            continue
        c = callee(t) or ""
        if "panicking::" not in c and "::panic" not in c:
            continue
        exp = t[1] or []
        mac = next((m for m in exp if m in ABORT_MACROS), None)
        out.append((mac or "panic", call_snippet(t) or "", t))
    return out


class Coverage:
    """variant coverage of one function for one enum"""

    def __init__(self, fn, adt, switches):
        self.fn = fn
        self.adt = adt
        self.switches = switches
        self.names = [v["n"] for v in adt["variants"]]
        self.by_discr = {v["d"]: v["n"] for v in adt["variants"]}
        self.explicit = {}  # variant -> [target blocks]
        self.catchall = {}  # variant -> [otherwise blocks] (only from switches not handling it explicitly)
        crr = can_reach_return(fn)
        self._crr = crr
        for sw in switches:
            for d, tb in sw.targets.items():
                n = self.by_discr.get(d)
                if n is not None:
                    self.explicit.setdefault(n, []).append((sw, tb))
        # a variant is in the catch-all of the function if NO switch (at the outermost level) names it.
        # Outermost switches = those not dominated by an explicit arm of another switch on the same
        # place; approximated as: the switch with the most explicit targets is the primary one.
        self.primary = max(switches, key=lambda s: len(s.targets)) if switches else None
        if self.primary is not None and not self.primary.otherwise_unreachable:
            for n in self.names:
                if n not in {self.by_discr.get(d) for d in self.primary.targets}:
                    self.catchall[n] = self.primary.otherwise

    def handled(self):
        return set(self.explicit)

    def primary_handled(self):
        return {self.by_discr[d] for d in self.primary.targets if d in self.by_discr} if self.primary else set()

    def arm_diverges(self, variant):
        """True if the primary switch's arm for `variant` can never reach a normal return"""
        if self.primary is None:
            return None
        for d, tb in self.primary.targets.items():
            if self.by_discr.get(d) == variant:
                return tb not in self._crr
        if variant in self.catchall:
            return self.catchall[variant] not in self._crr
        return None

    def arm_target(self, variant):
        if self.primary is None:
            return None
        for d, tb in self.primary.targets.items():
            if self.by_discr.get(d) == variant:
                return tb
        return self.catchall.get(variant)

    def arm_aborts(self, variant):
        tb = self.arm_target(variant)
        if tb is None:
            return []
        return abort_sites(self.fn, reachable(self.fn, tb))


def coverage(facts, fn, enum_path):
    adt = facts.adt(enum_path)
    if adt is None:
        return None
    sws = enum_switches(fn, enum_path)
    if not sws:
        return None
    return Coverage(fn, adt, sws)


def find_matchers(facts, crate, enum_path, min_arms=1, pred=None):
    """functions (and closures) of `crate` that switch on enum_path with at least min_arms explicit arms"""
    out = []
    for fn in facts.crate(crate).fns:
        if pred and not pred(fn):
            continue
        cov = coverage(facts, fn, enum_path)
        if cov and len(cov.primary_handled()) >= min_arms:
            out.append(cov)
    return out


def constructed_variants(fns, enum_path):
    """variant name -> list of (fn, where) for every construction site (aggregate or constructor fn item
    used as a value) in the given functions"""
    out = {}
    for fn in fns:
        for b, blk in enumerate(fn.bb):
            if blk["c"]:
                continue
            for s in blk["s"]:
                if s[KIND] != "a":
                    continue
                rv = s[5]
                if rv[0] == "agg" and rv[1][0] == "adt" and rv[1][1] == enum_path:
                    out.setdefault(rv[1][3], []).append((fn, fn.where(s)))
                for op in _rv_operands(rv):
                    if op[0] == "c" and op[1] == "fn" and op[2].startswith(enum_path + "::"):
                        out.setdefault(op[2].rsplit("::", 1)[1], []).append((fn, fn.where(s)))
            t = blk["t"]
            if t[KIND] == "call":
                for op in t[5]:
                    if op[0] == "c" and op[1] == "fn" and op[2].startswith(enum_path + "::"):
                        out.setdefault(op[2].rsplit("::", 1)[1], []).append((fn, fn.where(t)))
                c = callee(t)
                if c and c.startswith(enum_path + "::") and c.count("::") == enum_path.count("::") + 1:
                    out.setdefault(c.rsplit("::", 1)[1], []).append((fn, fn.where(t)))
    return out


def _rv_operands(rv):
    k = rv[0]
    if k in ("use", "repeat"):
        return [rv[1]]
    if k == "agg":
        return rv[2]
    if k == "bin":
        return [rv[2], rv[3]]
    if k in ("un", "cast"):
        return [rv[2]]
    return []
