"""Rewrite-completeness rule for tree-rewriting passes.

A *rewriting pass* is a self-recursive function family (root function + its closures) that takes an expression id and
returns an expression id: it maps a tree to a tree, and the stages after it abort on the forms it is meant to remove
(`"_" should not be shown at type inference stage`, ...).  That belief holds only if the pass reaches every node:
wherever the pass takes a child of the node it is rewriting (a field of the matched `Expr`, or the element handed to a
closure that maps over a child list) and puts it into the node it builds, the child must first go through a call (the
pass itself, its conversion closure, or a helper that recurses).  A raw child placed in a rebuilt node is a subtree
the pass never looks at: the form survives there and the later stage panics.

Sources   locals assigned from a variant field of an `ast::Expr` value (downcast projection), and — in closures of the
          family — parameters of expression-id type
Flow      copies / moves / tuple and Option aggregates / field projections; a call launders (its result is converted
          or at least inspected by something that takes the responsibility)
Sinks     operands of an `ast::Expr` aggregate; in closures, the return place
"""
from .. import roles
from ..cfg import DefIndex
from ..facts import KIND, callee

EXPR = "mimium_lang::ast::Expr"
IDTY = ("ExprNodeId",)


def is_id_ty(t):
    return any(t == k or t.endswith("::" + k) for k in IDTY)


def holds_id_ty(t):
    return any(k in t for k in IDTY)


def _src_locals(rv, out):
    """locals read by an rvalue without going through a call"""
    if isinstance(rv, list):
        if len(rv) == 2 and rv[0] in ("cp", "mv") and isinstance(rv[1], list) and rv[1] and isinstance(rv[1][0], int):
            out.append(rv[1])
            return
        for x in rv:
            _src_locals(x, out)


def family(facts, crate, root):
    return [g for g in facts.family(crate, root.path) if g.kind != "promoted"]


def nargs(f):
    return f.d.get("argc", None)


def raw_children(f, is_closure):
    """local -> description, for locals holding an unconverted child"""
    raw = {}
    for b, st in f.all_stmts():
        if st[KIND] != "a":
            continue
        rv = st[5]
        if rv[0] != "use" or rv[1][0] not in ("cp", "mv"):
            continue
        pl = rv[1][1]
        proj = pl[1]
        # field of a downcast of an Expr value
        for i, e in enumerate(proj):
            if isinstance(e, list) and e[0] == "d":
                base_ty = None
                # the type being downcast is recorded in following field names: Adt::Variant::field
                nxt = proj[i + 1] if i + 1 < len(proj) else None
                if nxt and isinstance(nxt, list) and nxt[0] == "f" and nxt[2] and nxt[2].startswith(EXPR + "::"):
                    dst = st[4]
                    if not dst[1] and holds_id_ty(f.local_ty(dst[0])):
                        raw[dst[0]] = "field %s of the matched node" % nxt[2].split("::", 3)[-1]
    return raw


ADAPTORS = ("map", "filter_map", "flat_map", "for_each", "map_or", "and_then", "fold", "try_fold", "map_while", "scan")
CHAIN = ("into_iter", "iter", "enumerate", "rev", "cloned", "copied", "skip", "take", "peekable", "zip", "chain", "by_ref", "as_ref", "clone", "deref", "as_slice", "to_vec")


def closure_inputs(facts, crate, fam, T_of):
    """closure path -> (parameter locals that receive raw children, description): the closure is created in a family
    member and handed to an iterator / Option adaptor whose receiver is (a chain of views over) a raw child"""
    out = {}
    by_path = {g.path: g for g in fam}
    for g in fam:
        di = None
        for b, st in g.all_stmts():
            if st[KIND] != "a" or st[5][0] != "agg" or st[5][1][0] != "closure":
                continue
            cp = st[5][1][1]
            clo = by_path.get(cp)
            if clo is None:
                continue
            di = di or DefIndex(g)
            cl = st[4][0]
            # locals that hold the closure or a reference to it
            holders = {cl}
            changed = True
            while changed:
                changed = False
                for _, s2 in g.all_stmts():
                    if s2[KIND] == "a" and not s2[4][1] and s2[4][0] not in holders:
                        rv = s2[5]
                        if rv[0] in ("ref", "raw") and rv[1][0] in holders or rv[0] == "use" and rv[1][0] in ("cp", "mv") and rv[1][1][0] in holders:
                            holders.add(s2[4][0])
                            changed = True
            for _, t in g.calls():
                c = callee(t) or ""
                n = c.split("::")[-1]
                if n not in ADAPTORS or len(t[5]) < 2:
                    continue
                if not any(a[0] in ("cp", "mv") and a[1][0] in holders for a in t[5][1:]):
                    continue
                # receiver chain
                cur = t[5][0]
                origin = None
                for _ in range(10):
                    if cur[0] not in ("cp", "mv"):
                        break
                    if cur[1][0] in T_of[g.path] and not cur[1][1]:
                        origin = cur[1][0]
                        break
                    r = di.resolve(cur)
                    if r[0] == "call" and (callee(r[1]) or "").split("::")[-1] in CHAIN and r[1][5]:
                        cur = r[1][5][0]
                        continue
                    if r[0] == "rv" and r[1][5][0] in ("ref", "raw"):
                        cur = ["cp", [r[1][5][1][0], []]]
                        continue
                    break
                if origin is None:
                    continue
                argc = clo.d["argc"]
                first = 3 if n in ("fold", "try_fold", "scan") else 2  # _1 environment; fold: _2 accumulator
                params = [l for l in range(first, argc + 1) if holds_id_ty(clo.local_ty(l))]
                if params:
                    out[cp] = (params, "element of %s (handed to the closure by %s)" % (T_of[g.path][origin], n))
    return out


def propagate(f, raw):
    """flow through copies / moves / field projections / tuple and Option aggregates; never through a call"""
    T = dict(raw)
    changed = True
    while changed:
        changed = False
        for b, st in f.all_stmts():
            if st[KIND] != "a":
                continue
            dst = st[4]
            if dst[0] in T and not dst[1]:
                continue
            rv = st[5]
            if rv[0] == "use" or (rv[0] == "agg" and rv[1][0] in ("tuple",)) or (rv[0] == "agg" and rv[1][0] == "adt" and rv[1][1].endswith("::Option")):
                srcs = []
                _src_locals(rv, srcs)
                for pl in srcs:
                    if pl[0] in T and holds_id_ty(f.local_ty(dst[0])):
                        # a projection out of a tainted tuple keeps the taint only if the projected type can hold an id
                        if dst[0] not in T:
                            T[dst[0]] = T[pl[0]]
                            changed = True
    return T


def sinks(f, T, is_closure):
    out = []
    for b, st in f.all_stmts():
        if st[KIND] != "a":
            continue
        rv = st[5]
        if rv[0] == "agg" and rv[1][0] == "adt" and rv[1][1] == EXPR:
            for op in rv[2]:
                if op[0] in ("cp", "mv") and not op[1][1] and op[1][0] in T:
                    out.append((st, "Expr::%s" % rv[1][3], T[op[1][0]], op[1][0]))
        if is_closure and st[4][0] == 0:
            srcs = []
            _src_locals(rv, srcs)
            for pl in srcs:
                if pl[0] in T and (rv[0] == "use" or rv[0] == "agg"):
                    out.append((st, "the closure's result", T[pl[0]], pl[0]))
    return out


def analyse_family(facts, crate, root):
    """-> (hits, n_sources): hits = (fn, stmt, sink, source description)"""
    fam = family(facts, crate, root)
    T_of = {}
    for g in fam:
        T_of[g.path] = propagate(g, raw_children(g, g.path != root.path))
    # closures fed with raw children (their creation site decides); iterate because closures nest
    for _ in range(3):
        extra = closure_inputs(facts, crate, fam, T_of)
        grew = False
        for g in fam:
            if g.path in extra:
                params, desc = extra[g.path]
                raw = dict(T_of[g.path])
                for l in params:
                    if l not in raw:
                        raw[l] = desc
                        grew = True
                T_of[g.path] = propagate(g, raw)
        if not grew:
            break
    hits = []
    nsrc = 0
    for g in fam:
        nsrc += len(T_of[g.path])
        for st, sink, desc, l in sinks(g, T_of[g.path], g.path != root.path):
            hits.append((g, st, sink, desc))
    return hits, nsrc


def helpers_of(facts, crate, roots, depth=2):
    """functions the passes delegate their default traversal to: same crate, an expression-id parameter, build Expr"""
    out = {}
    seen = set(r.path for r in roots)
    frontier = list(roots)
    for _ in range(depth):
        nxt = []
        for r in frontier:
            for g in family(facts, crate, r):
                for _, t in g.calls():
                    c = callee(t) or ""
                    d = t[4].get("def") or c
                    for cand in (c, d):
                        h = facts.fn(cand)
                        if h is None or h.crate != crate or h.root != h.path or h.path in seen:
                            continue
                        seen.add(h.path)
                        argc = h.d["argc"]
                        if not any(is_id_ty(h.local_ty(l)) for l in range(1, argc + 1)):
                            continue
                        builds = any(st[KIND] == "a" and st[5][0] == "agg" and st[5][1][0] == "adt" and st[5][1][1] == EXPR for g2 in family(facts, crate, h) for _, st in g2.all_stmts())
                        if builds:
                            out[h.path] = h
                            nxt.append(h)
        frontier = nxt
    return list(out.values())


def run(ck, facts, R, passes, crate="mimium_lang", floor_sources=40, eliminated_variants=None):
    ck.rule(R, "in the tree-rewriting passes whose completeness later stages rely on (they abort on the forms these passes remove), a child of the node being rewritten — a field of the matched Expr, or the element a closure receives from an adaptor over a child list — never reaches the rebuilt node (an Expr aggregate, or the closure's result) without passing through a call: a raw child in a rebuilt node is a subtree the pass never visits")
    roots = []
    for pth in passes:
        f = facts.fn(pth)
        ck.require(R, f is not None, "anchor|%s" % pth.split("::", 1)[1], "rewriting pass %s not found" % pth)
        if f is not None:
            roots.append(f)
    hs = helpers_of(facts, crate, roots)
    total = 0
    for f in roots + hs:
        hits, nsrc = analyse_family(facts, crate, f)
        total += nsrc
        key = "pass|%s" % f.short
        if not hits:
            ck.ok(R, key, {"pass": f.short, "raw_child_values": nsrc, "role": "pass" if f in roots else "traversal helper"})
        for g, st, sink, desc in hits:
            ck.bad(R, "raw-child|%s|%s" % (f.short, sink), "%s puts %s into %s at %s without converting it: the subtree below it is never visited by this pass, so a form the pass is relied on to remove survives there and a later stage aborts on it" % (g.short, desc, sink, g.where(st)), g.where(st))
    ck.floor(R, "raw_child_values_tracked", total, floor_sources)
    # ---- identity default: a traversal whose catch-all hands the node back unchanged (no call that takes an
    # expression id) skips the children of every variant that lands there.  Such a variant must have no expression
    # children, be removed by a pass of the table, or be built only by the scope's own passes (it cannot be in the
    # input); anything else is a form whose subtrees none of the passes built on this traversal ever visits.
    from ..cfg import reachable
    from . import cover

    table = eliminated_variants or set()
    from .belief import late_producer_modules

    late = late_producer_modules()
    adt = facts.adt(EXPR)
    child_fields = {v["n"]: [fl[1] for fl in v["f"] if any(k in fl[1] for k in ("ExprNodeId", "RecordField", "MatchArm"))] for v in adt["variants"]}
    scope_roots = {f.path for f in roots + hs}
    producers = {}
    for g in facts.crate(crate).fns:
        if g.kind == "promoted" or "::test" in g.path or roles.is_derived(g) or any(g.path.startswith(m + "::") for m in late):
            continue
        gcov = None
        for b, st in g.all_stmts():
            if st[KIND] == "a" and st[5][0] == "agg" and st[5][1][0] == "adt" and st[5][1][1] == EXPR:
                v = st[5][1][3]
                # a node rebuilt inside the arm that matched the same form introduces nothing
                if gcov is None:
                    gcov = cover.coverage(facts, g, EXPR) or False
                if gcov and gcov.primary is not None:
                    from .belief import arm_variants_of_block

                    av = arm_variants_of_block(gcov, b)
                    if av is not None and av == [v]:
                        continue
                producers.setdefault(v, set()).add(g.root)
    n_id = 0
    for f in roots + hs:
        cov = cover.coverage(facts, f, EXPR)
        if cov is None or cov.primary is None or cov.primary.otherwise_unreachable:
            continue
        ob = cov.primary.otherwise
        region = reachable(f, ob, stop=[cov.primary.block])
        delegates = False
        for b, t in f.calls():
            if b not in region:
                continue
            c = callee(t) or ""
            if c.split("::")[-1] in ("to_expr", "to_span", "to_location", "clone", "into_id", "into_id_without_span", "deref"):
                continue
            if any(a[0] in ("cp", "mv") and is_id_ty(f.local_ty(a[1][0])) for a in t[5]):
                delegates = True
        if delegates:
            continue
        n_id += 1
        for v in sorted(cov.catchall):
            if not child_fields.get(v):
                continue
            key = "identity-default|%s|%s" % (f.short.split("::")[-1], v)
            if v in table:
                ck.ok(R, key, {"variant": v, "discharge": "removed by a pass of tables/eliminated.toml"})
            elif producers.get(v) and producers[v] <= scope_roots:
                ck.ok(R, key, {"variant": v, "discharge": "only built by %s" % ", ".join(sorted(x.split("::")[-1] for x in producers[v]))})
            else:
                ck.bad(R, key, "%s hands every Expr::%s back unchanged (it has no arm for it and its catch-all does not recurse), but that form has expression children (%s) and nothing removes it first: none of the passes built on this traversal visits those children, so an operator, `_`, `self` or macro call written there survives to a stage that aborts on it" % (f.short, v, ", ".join(child_fields[v])), f.where(f.term(ob)))
    ck.setcount("traversals_with_identity_default", n_id)
