"""Loader and accessors for the MIR facts written by mirx."""
import glob
import json
import os
import re

# indices into statement / terminator arrays
LINE, EXP, FILE, KIND = 0, 1, 2, 3


class Fn:
    __slots__ = ("d", "path", "kind", "root", "file", "line", "bb", "crate", "_succ", "_pred", "short")

    def __init__(self, d, crate):
        self.d = d
        self.path = d["p"]
        self.kind = d["k"]
        self.root = d["root"]
        self.file = d["file"]
        self.line = d["line"]
        self.bb = d["bb"]
        self.crate = crate
        self._succ = None
        self._pred = None
        self.short = self.path.split("::", 1)[1] if "::" in self.path else self.path

    # ---- CFG -------------------------------------------------------------
    def term(self, b):
        return self.bb[b]["t"]

    def stmts(self, b):
        return self.bb[b]["s"]

    def is_cleanup(self, b):
        return self.bb[b]["c"]

    def succs(self, b):
        if self._succ is None:
            self._succ = [term_succs(blk["t"]) for blk in self.bb]
        return self._succ[b]

    def preds(self, b):
        if self._pred is None:
            self._pred = [[] for _ in self.bb]
            for i in range(len(self.bb)):
                for s in self.succs(i):
                    self._pred[s].append(i)
        return self._pred[b]

    def nblocks(self):
        return len(self.bb)

    def local_ty(self, l):
        return self.d["locals"][l]

    def dbg_names(self):
        """local index -> source name (only whole-local debug entries)"""
        m = {}
        for name, pl in self.d["dbg"]:
            if not pl[1]:
                m.setdefault(pl[0], name)
        return m

    def calls(self):
        """yield (block, term) for every call terminator in non-cleanup blocks"""
        for i, blk in enumerate(self.bb):
            if blk["c"]:
                continue
            t = blk["t"]
            if t[KIND] == "call":
                yield i, t

    def all_stmts(self):
        for i, blk in enumerate(self.bb):
            if blk["c"]:
                continue
            for s in blk["s"]:
                yield i, s

    def where(self, item=None):
        if item is None:
            return "%s:%d" % (self.file, self.line)
        return "%s:%d" % (item[FILE] or self.file, item[LINE])


def term_succs(t):
    """normal-path successors (unwind edges are ignored)"""
    k = t[KIND]
    if k == "goto":
        return [t[4]]
    if k == "switch":
        out = []
        for _, b in t[6]:
            if b not in out:
                out.append(b)
        if t[7] not in out:
            out.append(t[7])
        return out
    if k == "call":
        return [t[7]] if t[7] is not None else []
    if k == "assert":
        return [t[7]]
    if k == "drop":
        return [t[5]]
    return []


# ---- call accessors -------------------------------------------------------
def callee(t):
    """resolved callee path of a call terminator (instance if resolved, else the def), or None for fn pointers"""
    c = t[4]
    if "def" in c:
        return c["inst"] or c["def"]
    return None


def callee_def(t):
    c = t[4]
    return c.get("def")


def callee_full(t):
    c = t[4]
    return c.get("full")


def call_args(t):
    return t[5]


def call_dest(t):
    return t[6]


def call_target(t):
    return t[7]


def call_snippet(t):
    return t[9] if len(t) > 9 else None


# ---- operand / place helpers ---------------------------------------------
def op_place(op):
    if op[0] in ("cp", "mv"):
        return op[1]
    return None


def op_local(op):
    """local index if the operand is a bare local"""
    p = op_place(op)
    if p is not None and not p[1]:
        return p[0]
    return None


def op_const(op):
    return op if op[0] == "c" else None


def const_int(op):
    if op[0] == "c" and op[1] == "i":
        return int(op[3])
    return None


def const_float(op):
    if op[0] == "c" and op[1] == "f":
        v = op[3]
        return float(v) if not isinstance(v, str) else float(v.replace("inf", "inf"))
    return None


def const_str(op):
    if op[0] == "c" and op[1] == "s":
        return op[2]
    if op[0] == "c" and op[1] == "o" and len(op) > 3 and op[2] in ("&str", "&'static str") and op[3].startswith('"') and op[3].endswith('"'):
        # constants rustc prints rather than exposes as a slice (e.g. patterns of a `match` on &str)
        body = op[3][1:-1]
        try:
            return bytes(body, "utf-8").decode("unicode_escape") if "\\" in body else body
        except Exception:
            return body
    return None


def const_fn(op):
    if op[0] == "c" and op[1] == "fn":
        return op[2]
    return None


def place_fields(pl):
    """list of field names (Adt::Variant::field) in the projection"""
    return [e[2] for e in pl[1] if isinstance(e, list) and e[0] == "f"]


def place_str(pl):
    s = "_%d" % pl[0]
    for e in pl[1]:
        if e == "*":
            s = "(*%s)" % s
        elif e[0] == "f":
            s += "." + (e[2].split("::")[-1] if e[2] and "::" in e[2] else str(e[1]))
        elif e[0] == "d":
            s += " as %s" % e[2]
        elif e[0] == "i":
            s += "[_%d]" % e[1]
        else:
            s += "[..]"
    return s


class Crate:
    def __init__(self, d):
        self.d = d
        self.name = d["crate"]
        self.fns = [Fn(f, self.name) for f in d["fns"]]
        self.by_path = {}
        for f in self.fns:
            self.by_path.setdefault(f.path, f)
        self.adts = {a["p"]: a for a in d["adts"]}
        self.statics = d["statics"]
        self.impls = d["impls"]


class Facts:
    def __init__(self, fdir):
        self.dir = fdir
        self.crates = {}
        self._loaded = {}
        self.files = {}
        for p in sorted(glob.glob(os.path.join(fdir, "*.json"))):
            name = os.path.basename(p).split(".")[0]
            self.files.setdefault(name, []).append(p)

    def crate_names(self):
        return sorted(self.files)

    def crate(self, name):
        """merged view of all targets of that crate name (lib + bin); duplicates (host/target builds) dropped"""
        if name in self.crates:
            return self.crates[name]
        if name not in self.files:
            raise KeyError("no fact file for crate %s in %s" % (name, self.dir))
        merged = None
        seen_sizes = set()
        for p in self.files[name]:
            sz = os.path.getsize(p)
            if sz in seen_sizes:
                continue
            seen_sizes.add(sz)
            with open(p) as f:
                d = json.load(f)
            if merged is None:
                merged = d
            else:
                for k in ("adts", "statics", "impls", "fns"):
                    merged[k].extend(d[k])
        c = Crate(merged)
        self.crates[name] = c
        return c

    def all_crates(self, names=None):
        for n in names or self.crate_names():
            yield self.crate(n)

    def fn(self, path):
        cn = path.split("::", 1)[0]
        if cn not in self.files:
            return None
        c = self.crate(cn)
        return c.by_path.get(path)

    def fns(self, crate, pred=None, regex=None):
        c = self.crate(crate)
        rx = re.compile(regex) if regex else None
        out = []
        for f in c.fns:
            if rx and not rx.search(f.path):
                continue
            if pred and not pred(f):
                continue
            out.append(f)
        return out

    def adt(self, path):
        cn = path.split("::", 1)[0]
        return self.crate(cn).adts.get(path)

    def closures_of(self, crate, root_path):
        return [f for f in self.crate(crate).fns if f.root == root_path and f.path != root_path]

    def family(self, crate, root_path):
        """the function and every closure nested in it"""
        return [f for f in self.crate(crate).fns if f.root == root_path]
