"""debug helper: python3 -m sa.dump <factsdir> <fn path regex> [block range]"""
import re
import sys

from .facts import Facts, KIND, place_str


def opstr(op):
    if op[0] in ("cp", "mv"):
        return ("move " if op[0] == "mv" else "") + place_str(op[1])
    if op[1] == "fn":
        return "fn:" + op[3]
    if op[1] == "s":
        return repr(op[2])
    if op[1] in ("i",):
        return "%s_%s" % (op[3], op[2])
    if op[1] == "f":
        return "%s_%s" % (op[3], op[2])
    return "const(%s)" % (op[3] if len(op) > 3 else "?")


def rvstr(rv):
    k = rv[0]
    if k == "use":
        return opstr(rv[1])
    if k == "ref":
        return "&%s%s" % ("mut " if rv[2] else "", place_str(rv[1]))
    if k == "disc":
        return "discriminant(%s):%s" % (place_str(rv[1]), rv[2])
    if k == "agg":
        kind = rv[1]
        name = kind[0] if kind[0] != "adt" else "%s::%s" % (kind[1], kind[3])
        if kind[0] == "closure":
            name = "closure " + kind[1]
        return "%s(%s)" % (name, ", ".join(opstr(o) for o in rv[2]))
    if k == "bin":
        return "%s(%s, %s)" % (rv[1], opstr(rv[2]), opstr(rv[3]))
    if k == "un":
        return "%s(%s)" % (rv[1], opstr(rv[2]))
    if k == "cast":
        return "%s as %s [%s %s]" % (opstr(rv[2]), rv[4], rv[1], rv[3])
    if k == "raw":
        return "&raw %s" % place_str(rv[1])
    return str(rv)[:120]


def dump(fn, blocks=None):
    print("fn %s  (%s:%d)  argc=%d" % (fn.path, fn.file, fn.line, fn.d["argc"]))
    names = fn.dbg_names()
    for b, blk in enumerate(fn.bb):
        if blocks and b not in blocks:
            continue
        print(" bb%d%s:" % (b, " (cleanup)" if blk["c"] else ""))
        for s in blk["s"]:
            exp = (" <%s>" % ",".join(s[1])) if s[1] else ""
            if s[KIND] == "a":
                print("   L%-5d %s = %s%s" % (s[0], place_str(s[4]), rvstr(s[5]), exp))
            else:
                print("   L%-5d %s %s" % (s[0], s[KIND], s[4:]))
        t = blk["t"]
        exp = (" <%s>" % ",".join(t[1])) if t[1] else ""
        k = t[KIND]
        if k == "call":
            c = t[4]
            name = (c.get("inst") or c.get("full")) if "def" in c else "(*%s)" % opstr(c["ptr"])
            print("   L%-5d %s = call %s(%s) -> bb%s%s" % (t[0], place_str(t[6]), name, ", ".join(opstr(a) for a in t[5]), t[7], exp))
        elif k == "switch":
            print("   L%-5d switch %s:%s %s else bb%d%s" % (t[0], opstr(t[4]), t[5], ["%s->bb%d" % (v, x) for v, x in t[6]], t[7], exp))
        elif k == "assert":
            print("   L%-5d assert(%s == %s, %s) -> bb%d" % (t[0], opstr(t[4]), t[5], t[6], t[7]))
        elif k == "drop":
            print("   L%-5d drop(%s) -> bb%d" % (t[0], place_str(t[4]), t[5]))
        else:
            print("   L%-5d %s %s%s" % (t[0], k, t[4:] if len(t) > 4 else "", exp))
    print(" names:", {("_%d" % k): v for k, v in sorted(names.items())})


if __name__ == "__main__":
    F = Facts(sys.argv[1])
    rx = re.compile(sys.argv[2])
    rng = None
    if len(sys.argv) > 3:
        a, b = sys.argv[3].split("-")
        rng = set(range(int(a), int(b) + 1))
    for c in F.all_crates():
        for f in c.fns:
            if rx.search(f.path):
                dump(f, rng)
