"""Whole-workspace call graph over the MIR facts.

Edges: direct calls (resolved instance if rustc could resolve it, else the declared callee); a function to
each closure defined in it; a function to every fn item it mentions as a value (function pointers /
constructors passed along); an unresolved trait-method call to every workspace impl of that method
(over-approximation for may-reach rules)."""
from collections import deque

from .facts import KIND, callee, callee_def


def _norm_ty(t):
    t = (t or "").strip()
    while t.startswith("&"):
        t = t[1:].strip()
        if t.startswith("'"):
            t = t.split(" ", 1)[1] if " " in t else t
        if t.startswith("mut "):
            t = t[4:]
    return t.replace("mimium_lang::", "")


class CallGraph:
    def __init__(self, facts, crates):
        self.facts = facts
        self.fns = {}
        for c in crates:
            for f in facts.crate(c).fns:
                self.fns.setdefault(f.path, f)
        # trait method name -> impl fn paths
        self.trait_impls = {}
        for p, f in self.fns.items():
            tr = f.d.get("trait")
            if tr and f.kind == "assoc":
                m = p.rsplit("::", 1)[1]
                self.trait_impls.setdefault((tr, m), []).append(p)
        # instantiations of generic functions: callee path -> set of first generic argument types seen at call sites
        self.inst = {}
        for p, f in self.fns.items():
            for b, t in f.calls():
                c = t[4]
                if "def" in c and c.get("a0"):
                    tgt = c["inst"] or c["def"]
                    self.inst.setdefault(tgt, set()).add(_norm_ty(c["a0"]))
        self.edges = {}
        self.unknown = {}
        self.closures = {}
        for p, f in self.fns.items():
            if f.root != p:
                self.closures.setdefault(f.root, []).append(p)
        for p, f in self.fns.items():
            self.edges[p] = self._out(f)

    def _out(self, f):
        out = {}

        def add(tgt, where):
            out.setdefault(tgt, where)

        for b, blk in enumerate(f.bb):
            if blk["c"]:
                continue
            for s in blk["s"]:
                if s[KIND] != "a":
                    continue
                self._scan_rv(s[5], f, s, add)
            t = blk["t"]
            if t[KIND] != "call":
                continue
            c = t[4]
            for a in t[5]:
                if a[0] == "c" and a[1] == "fn":
                    add(a[2], f.where(t))
            if "def" not in c:
                self.unknown.setdefault(f.path, []).append(("fnptr", f.where(t)))
                continue
            tgt = c["inst"] or c["def"]
            add(tgt, f.where(t))
            if c["inst"] is None:
                # unresolved: maybe a trait method; link to all workspace impls of it
                d = c["def"]
                if "::" in d:
                    tr, m = d.rsplit("::", 1)
                    impls = self.trait_impls.get((tr, m), ())
                    a0 = c.get("a0") or ""
                    if impls and a0 and "::" not in a0 and a0.lstrip("&").strip()[:1].isupper() and len(a0.lstrip("&").strip()) <= 2:
                        # the receiver is a bare type parameter of the enclosing generic function: only the types it is
                        # instantiated with anywhere in the workspace can be the receiver
                        insts = self.inst.get(f.root) or self.inst.get(f.path)
                        if insts:
                            impls = [i for i in impls if _norm_ty(self.fns[i].d.get("self_ty", "")) in insts]
                    for imp in impls:
                        add(imp, f.where(t))
        # closures defined directly in f
        for cl in self.closures.get(f.path, ()):
            # only direct children: closure path = parent path + ::{closure#n}
            if cl.rsplit("::", 1)[0] == f.path:
                add(cl, f.where())
        return out

    def _scan_rv(self, rv, f, s, add):
        k = rv[0]
        ops = []
        if k in ("use", "repeat"):
            ops = [rv[1]]
        elif k == "agg":
            ops = rv[2]
            if rv[1][0] == "closure":
                add(rv[1][1], f.where(s))
        elif k == "bin":
            ops = [rv[2], rv[3]]
        elif k in ("un", "cast"):
            ops = [rv[2]]
        for op in ops:
            if op[0] == "c" and op[1] == "fn":
                add(op[2], f.where(s))

    def reach(self, roots, stop=None):
        """fn path -> (parent path, where) for everything reachable from roots (workspace fns expanded;
        external callees are leaves)"""
        stop = stop or (lambda p: False)
        par = {}
        dq = deque()
        for r in roots:
            if r not in par:
                par[r] = (None, None)
                dq.append(r)
        while dq:
            p = dq.popleft()
            if p not in self.fns or stop(p):
                continue
            for t, w in self.edges[p].items():
                if t not in par:
                    par[t] = (p, w)
                    dq.append(t)
        return par

    def path_to(self, par, target):
        out = []
        p = target
        while p is not None:
            out.append(p)
            p = par[p][0]
        return list(reversed(out))

    def callers(self):
        rev = {}
        for p, outs in self.edges.items():
            for t in outs:
                rev.setdefault(t, set()).add(p)
        return rev
