"""Check bookkeeping: obligations, violations keyed without line numbers, known findings, evidence files."""
import json
import os
import sys
import time

VERIF = os.path.dirname(os.path.dirname(os.path.abspath(__file__)))
KNOWN = os.path.join(VERIF, "known_findings.json")
# development aid (seed matrix against a scratch copy): evidence of such runs must not land in /verif/evidence
EVDIR = os.environ.get("VERIF_EVIDENCE") or os.path.join(VERIF, "evidence")
EXCEPTIONS = os.path.join(VERIF, "sa", "tables", "exceptions.toml")


def load_exceptions():
    import tomllib

    if not os.path.exists(EXCEPTIONS):
        return {}
    with open(EXCEPTIONS, "rb") as f:
        d = tomllib.load(f)
    return {e["key"]: e["reason"] for e in d.get("exception", [])}


class Check:
    def __init__(self, pid, tier, level, explanation):
        self.pid = pid
        self.tier = tier
        self.level = level
        self.explanation = explanation
        self.t0 = time.time()
        self.obligations = 0
        self.discharged = 0
        self.violations = []  # dict(rule,key,msg,where,detail)
        self.notes = []
        self.samples = []
        self.counts = {}
        self.rules = {}
        self.assumptions = []
        self.trusted = [
            "rustc nightly MIR (-Zmir-opt-level=0) of the native cfg is the program",
            "the mirx extractor (/verif/mirx) and the Python rule engines (/verif/sa)",
        ]
        self.undecided = []
        self.treehash = None
        self.distinct = set()
        self.exceptions = load_exceptions()
        self.excepted = []

    # ---- recording -------------------------------------------------------
    def rule(self, rid, text):
        self.rules[rid] = text

    def count(self, name, n=1):
        self.counts[name] = self.counts.get(name, 0) + n

    def setcount(self, name, n):
        self.counts[name] = n

    def ok(self, rule, what, sample=None):
        """an obligation that was examined and holds"""
        self.obligations += 1
        self.discharged += 1
        self.distinct.add((rule, what))
        if sample is not None and len([s for s in self.samples if s.get("rule") == rule]) < 4:
            self.samples.append({"rule": rule, "obligation": what, "verdict": "holds", "detail": sample})

    def bad(self, rule, key, msg, where=None, detail=None):
        """an obligation that fails; key must not contain line numbers"""
        self.obligations += 1
        self.distinct.add((rule, key))
        full = key if key.startswith(rule) else "%s|%s" % (rule, key)
        if full in self.exceptions:
            # audited exception: violates the letter of the rule, read and found harmless (one reason per key)
            self.discharged += 1
            if full not in [e["key"] for e in self.excepted]:
                self.excepted.append({"key": full, "reason": self.exceptions[full], "where": where})
            return
        for v in self.violations:
            if v["key"] == full:
                v.setdefault("more", []).append({"where": where, "msg": msg})
                return
        self.violations.append({"rule": rule, "key": full, "msg": msg, "where": where, "detail": detail})

    def require(self, rule, cond, key, msg, where=None):
        """fail-closed anchor / floor assertion"""
        if cond:
            self.ok(rule, key)
        else:
            self.bad(rule, key, msg, where)

    def floor(self, rule, name, value, minimum):
        self.setcount(name, value)
        self.require(
            rule,
            value >= minimum,
            "floor|%s" % name,
            "anchor/floor: %s = %d is below the floor %d measured on the pinned tree (the rule would pass vacuously)"
            % (name, value, minimum),
        )

    def note(self, text):
        self.notes.append(text)

    def not_decided(self, text):
        self.undecided.append(text)

    # ---- finishing -------------------------------------------------------
    def finish(self):
        known = {"findings": [], "fixed": []}
        if os.path.exists(KNOWN):
            with open(KNOWN) as f:
                known = json.load(f)
        listed = {k["key"]: k for k in known.get("findings", []) if k["property"] == self.pid}
        new, kf = [], []
        for v in self.violations:
            if v["key"] in listed:
                kf.append(v)
            else:
                new.append(v)
        stale = [k for k in listed if k not in {v["key"] for v in self.violations}]
        for v in kf:
            print("KNOWN-FINDING: property=%s %s [%s]" % (self.pid, listed[v["key"]]["what"], v["key"]))
        rc = 0
        replay = None
        if new:
            rc = 1
            rdir = os.path.join(EVDIR, "replay")
            os.makedirs(rdir, exist_ok=True)
            replay = os.path.join(rdir, "%s.json" % self.pid)
            with open(replay, "w") as f:
                json.dump({"property": self.pid, "tree": self.treehash, "violations": new}, f, indent=1)
            for v in new:
                print("VIOLATION property=%s replay=%s" % (self.pid, replay))
                print("  %s: %s" % (v["rule"], v["msg"]))
                if v.get("where"):
                    print("    at  : %s" % v["where"])
                print("    key : %s" % v["key"])
                for m in v.get("more", [])[:5]:
                    print("    also: %s %s" % (m["where"] or "", m["msg"]))
        wall = time.time() - self.t0
        cov = {
            "explanation": self.explanation,
            "obligations": self.obligations,
            "discharged": self.discharged,
            "evaluations": max(self.obligations, 1),
            "distinct_nontrivial": len(self.distinct),
            "rule": "; ".join("%s: %s" % kv for kv in sorted(self.rules.items())),
            "rules": self.rules,
            "samples": self.samples[:24] or [{"note": "no obligations were generated"}],
            "counts": self.counts,
            "checker_cmd": "./check %s --tier %s" % (self.pid, self.tier),
            "trusted_base": self.trusted,
            "tree_hash": self.treehash,
            "known_findings_rederived": [v["key"] for v in kf],
            "known_findings_stale": stale,
            "new_violations": [v["key"] for v in new],
            "audited_exceptions_used": self.excepted,
            "not_decided": self.undecided,
            "notes": self.notes[:60],
            "exhaustive": False,
        }
        ev = {
            "property_id": self.pid,
            "tier": self.tier,
            "seed": int(os.environ.get("VERIF_SEED", "0") or 0),
            "level": self.level,
            "coverage": cov,
            "assumptions": self.assumptions
            + ["wasm32 cfg arms and cfg(test) code are not part of the analysed build"],
            "wall_s": round(wall, 2),
            "violations": len(new),
        }
        os.makedirs(EVDIR, exist_ok=True)
        with open(os.path.join(EVDIR, "%s.json" % self.pid), "w") as f:
            json.dump(ev, f, indent=1, sort_keys=True)
            f.write("\n")
        print(
            "[%s %s] obligations=%d discharged=%d known-findings=%d new-violations=%d (%.1fs)"
            % (self.pid, self.tier, self.obligations, self.discharged, len(kf), len(new), wall)
        )
        return rc


def build_failed(pid, tier, level, log):
    """fail closed when /repo does not build"""
    print("VIOLATION property=%s replay=%s" % (pid, log))
    print("  build: /repo does not compile under cargo +nightly check; nothing can be decided")
    ev = {
        "property_id": pid,
        "tier": tier,
        "seed": 0,
        "level": level,
        "coverage": {
            "explanation": "the tree under /repo failed to build; the check fails closed",
            "evaluations": 1,
            "distinct_nontrivial": 0,
            "samples": [{"build_log": log}],
        },
        "wall_s": 0.0,
        "violations": 1,
    }
    os.makedirs(EVDIR, exist_ok=True)
    with open(os.path.join(EVDIR, "%s.json" % pid), "w") as f:
        json.dump(ev, f, indent=1)
    return 1
