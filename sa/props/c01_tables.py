def run(ck, facts, cg, anchors, tier):
    pass
