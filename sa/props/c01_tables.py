"""C01.tables (E9) — the builtin-function tables of the two runtimes agree.

VM side: the builtin table is assembled from `<name>::signature()` calls; each `<name>::machine_function` is the
VM implementation.  WASM side: `resolve_ext_function` maps the same names (string comparisons) to import fields,
which are bound by `add_import_from(module, name)` to host closures registered with `Linker::func_wrap`.
Rules: (a) every builtin name of the VM table is resolvable by the WASM generator (string-compared in
resolve_ext_function) or lowered by the MIR generator as an intrinsic (its name is compared in mirgen);
(b) where both sides implement a name with a single f64 method, it is the same method."""
from .. import roles
from ..cfg import DefIndex
from ..facts import KIND, callee, const_str
from .c01_ops import host_math_imports, short_method, str_of

R = "C01.tables"


def strings_compared(fn, facts):
    """string constants that `fn` compares something with (str == "..." / match on &str)"""
    out = set()
    di = DefIndex(fn)
    for b, t in fn.calls():
        c = callee(t) or ""
        n = c.split("::")[-1]
        if n in ("eq", "ne", "starts_with", "strip_prefix", "ends_with") or c.endswith("str>::eq"):
            for a in t[5]:
                s = str_of(fn, di, a)
                if s is not None:
                    out.add(s)
    # match on &str lowers to calls to <str as PartialEq>::eq with promoted/const operands, covered above;
    # also direct const str operands in any call
    for b, t in fn.calls():
        for a in t[5]:
            s = const_str(a)
            if s is not None:
                out.add(s)
    for b, s in fn.all_stmts():
        if s[KIND] == "a" and s[5][0] == "use":
            cs = const_str(s[5][1])
            if cs is not None:
                out.add(cs)
    return out


def run(ck, facts, cg, anchors, tier):
    ck.rule(R, "every builtin function name of the VM's builtin table is resolvable by the WASM generator or lowered as an intrinsic by the MIR generator; where VM and WASM host both implement a name by a single f64 method it is the same method")
    lang = facts.crate(roles.LANG)
    gen = [f for f in lang.fns if f.short.endswith("builtin_functins::generate_builtin_functions")]
    ck.require(R, len(gen) == 1, "anchor|vm-builtin-table", "generate_builtin_functions not found")
    res = [f for f in lang.fns if f.short.endswith("WasmGenerator::resolve_ext_function")]
    ck.require(R, len(res) == 1, "anchor|wasm-resolve", "WasmGenerator::resolve_ext_function not found")
    if len(gen) != 1 or len(res) != 1:
        return
    names = []
    for b, t in gen[0].calls():
        c = callee(t) or ""
        if c.endswith("::signature") and "builtin_functins::" in c:
            names.append(c.split("::")[-2])
    ck.floor(R, "vm_builtin_functions", len(names), 30)
    wasm_names = strings_compared(res[0], facts)
    ck.floor(R, "wasm_resolvable_names", len(wasm_names), 25)
    # intrinsic names compared anywhere in mirgen (constants of compiler::intrinsics)
    intr = set()
    for f in lang.fns:
        if "::compiler::mirgen::Context::make_" in f.path and "intrinsic" in f.path:
            intr |= strings_compared(f, facts)
    alias = {"mult": "mult", "modulo": "modulo"}
    imports, field_to_name, host = host_math_imports(facts, ck)
    for n in sorted(set(names)):
        key = "name|%s" % n
        if n in wasm_names or n in intr:
            ck.ok(R, key, {"builtin": n, "wasm": "import" if n in wasm_names else "intrinsic"})
        else:
            ck.bad(R, key, "builtin `%s` is in the VM's builtin table but the WASM generator neither resolves it as an import nor does the MIR generator lower it as an intrinsic: a program calling it is accepted by the VM back end only" % n, gen[0].where())
    # method agreement
    n_cmp = 0
    for n in sorted(set(names)):
        mf = [f for f in lang.fns if f.short.endswith("builtin_functins::%s::machine_function" % n)]
        if not mf:
            continue
        meths = sorted({short_method(callee(t) or "") for g in facts.family(roles.LANG, mf[0].path) for _, t in g.calls() if short_method(callee(t) or "").startswith("f64::")})
        h = host.get(("math", n))
        if len(meths) != 1 or h is None:
            continue
        n_cmp += 1
        if meths[0] == h[0]:
            ck.ok(R, "method|%s" % n, {"builtin": n, "vm": meths[0], "wasm_host": h[0]})
        else:
            ck.bad(R, "method|%s" % n, "builtin `%s` is computed with %s on the VM and with %s by the WASM host function" % (n, meths[0], h[0]), mf[0].where())
    ck.floor(R, "builtin_methods_compared", n_cmp, 8)
