"""C01.tables (E9) — the builtin-function tables of the two runtimes agree.

VM side: the builtin table is assembled from `<name>::signature()` calls; each `<name>::machine_function` is the
VM implementation.  WASM side: `resolve_ext_function` maps the same names (string comparisons) to import fields,
which are bound by `add_import_from(module, name)` to host closures registered with `Linker::func_wrap`.
Rules: (a) every builtin name of the VM table is resolvable by the WASM generator (string-compared in
resolve_ext_function) or lowered by the MIR generator as an intrinsic (its name is compared in mirgen);
(b) where both sides implement a name with a single f64 method, it is the same method."""
from .. import roles
from ..cfg import DefIndex
from ..facts import KIND, callee, const_str
from .c01_ops import host_math_imports, short_method, str_of

R = "C01.tables"


def strings_compared(fn, facts):
    """string constants that `fn` compares something with (str == "..." / match on &str)"""
    out = set()
    di = DefIndex(fn)
    for b, t in fn.calls():
        c = callee(t) or ""
        n = c.split("::")[-1]
        if n in ("eq", "ne", "starts_with", "strip_prefix", "ends_with") or c.endswith("str>::eq"):
            for a in t[5]:
                s = str_of(fn, di, a)
                if s is not None:
                    out.add(s)
    # match on &str lowers to calls to <str as PartialEq>::eq with promoted/const operands, covered above;
    # also direct const str operands in any call
    for b, t in fn.calls():
        for a in t[5]:
            s = const_str(a)
            if s is not None:
                out.add(s)
    for b, s in fn.all_stmts():
        if s[KIND] == "a" and s[5][0] == "use":
            cs = const_str(s[5][1])
            if cs is not None:
                out.add(cs)
    return out


def run(ck, facts, cg, anchors, tier):
    ck.rule(R, "every builtin function name of the VM's builtin table is resolvable by the WASM generator or lowered as an intrinsic by the MIR generator; where VM and WASM host both implement a name by a single f64 method it is the same method")
    lang = facts.crate(roles.LANG)
    gen = [f for f in lang.fns if f.short.endswith("builtin_functins::generate_builtin_functions")]
    ck.require(R, len(gen) == 1, "anchor|vm-builtin-table", "generate_builtin_functions not found")
    res = [f for f in lang.fns if f.short.endswith("WasmGenerator::resolve_ext_function")]
    ck.require(R, len(res) == 1, "anchor|wasm-resolve", "WasmGenerator::resolve_ext_function not found")
    if len(gen) != 1 or len(res) != 1:
        return
    names = []
    for b, t in gen[0].calls():
        c = callee(t) or ""
        if c.endswith("::signature") and "builtin_functins::" in c:
            names.append(c.split("::")[-2])
    ck.floor(R, "vm_builtin_functions", len(names), 30)
    wasm_names = strings_compared(res[0], facts)
    ck.floor(R, "wasm_resolvable_names", len(wasm_names), 25)
    # intrinsic names compared anywhere in mirgen (constants of compiler::intrinsics)
    intr = set()
    for f in lang.fns:
        if "::compiler::mirgen::Context::make_" in f.path and "intrinsic" in f.path:
            intr |= strings_compared(f, facts)
    alias = {"mult": "mult", "modulo": "modulo"}
    imports, field_to_name, host = host_math_imports(facts, ck)
    for n in sorted(set(names)):
        key = "name|%s" % n
        if n in wasm_names or n in intr:
            ck.ok(R, key, {"builtin": n, "wasm": "import" if n in wasm_names else "intrinsic"})
        else:
            ck.bad(R, key, "builtin `%s` is in the VM's builtin table but the WASM generator neither resolves it as an import nor does the MIR generator lower it as an intrinsic: a program calling it is accepted by the VM back end only" % n, gen[0].where())
    # method agreement
    n_cmp = 0
    for n in sorted(set(names)):
        mf = [f for f in lang.fns if f.short.endswith("builtin_functins::%s::machine_function" % n)]
        if not mf:
            continue
        meths = sorted({short_method(callee(t) or "") for g in facts.family(roles.LANG, mf[0].path) for _, t in g.calls() if short_method(callee(t) or "").startswith("f64::")})
        h = host.get(("math", n))
        if len(meths) != 1 or h is None:
            continue
        n_cmp += 1
        if meths[0] == h[0]:
            ck.ok(R, "method|%s" % n, {"builtin": n, "vm": meths[0], "wasm_host": h[0]})
        else:
            ck.bad(R, "method|%s" % n, "builtin `%s` is computed with %s on the VM and with %s by the WASM host function" % (n, meths[0], h[0]), mf[0].where())
    ck.floor(R, "builtin_methods_compared", n_cmp, 8)
    vm_methods = {}
    for n in sorted(set(names)):
        mf = [f for f in lang.fns if f.short.endswith("builtin_functins::%s::machine_function" % n)]
        if mf:
            meths = sorted({short_method(callee(t) or "") for g in facts.family(roles.LANG, mf[0].path) for _, t in g.calls() if short_method(callee(t) or "").startswith("f64::")})
            if len(meths) == 1:
                vm_methods[n] = meths[0]
    rule_inline_builtins(ck, facts, set(names), vm_methods)


# --------------------------------------------------------------------------------------------------
# inline lowering of a builtin: a WASM-generator function (other than the import set-up and the resolver) that
# recognises a builtin by name implements it itself.  Its numeric operator must be the WASM twin of the single f64
# method of the VM's machine_function; min/max (NaN handling) and nearest/round (ties) are not twins.
W_TWIN = {"F64Floor": "f64::floor", "F64Ceil": "f64::ceil", "F64Sqrt": "f64::sqrt", "F64Abs": "f64::abs", "F64Trunc": "f64::trunc", "F64Copysign": "f64::copysign"}
W_NUMERIC_PREFIX = ("F64", "F32", "I64", "I32")
W_NEUTRAL = ("Const", "Load", "Store", "ReinterpretI64", "ReinterpretF64")


def _w_variants_in(facts, f, blocks):
    """wasm_encoder Instruction variants constructed (directly or through a promoted constant) in the given blocks"""
    out = set()

    def scan_rv(rv, fn):
        if rv[0] == "agg" and rv[1][0] == "adt" and rv[1][1].endswith("::Instruction") and "wasm_encoder" in rv[1][1]:
            out.add(rv[1][3])
        txt = [rv]
        while txt:
            x = txt.pop()
            if isinstance(x, list):
                if len(x) >= 4 and x[0] == "c" and x[1] == "p":
                    g = facts.fn("%s::promoted[%d]" % (x[2], x[3]))
                    if g is not None:
                        for _, s in g.all_stmts():
                            if s[KIND] == "a":
                                scan_rv(s[5], g)
                else:
                    txt.extend(x)

    for b in blocks:
        for s in f.stmts(b):
            if s[KIND] == "a":
                scan_rv(s[5], f)
        t = f.term(b)
        if t[KIND] == "call":
            for a in t[5]:
                scan_rv(["use", a], f)
    return out


def rule_inline_builtins(ck, facts, names, vm_methods):
    from ..cfg import dominators
    RI = "C01.tables"
    lang = facts.crate(roles.LANG)
    n_fns = 0
    for f in lang.fns:
        if "::compiler::wasmgen" not in f.path or f.kind == "promoted":
            continue
        last = f.short.split("::")[-1]
        if last in ("resolve_ext_function",) or (last.startswith("setup_") and last.endswith("_imports")):
            continue
        n_fns += 1
        di = DefIndex(f)
        dom = None
        for b, t in f.calls():
            c = callee(t) or ""
            if not (c.split("::")[-1] in ("eq", "ne") or c.endswith("str>::eq")):
                continue
            lits = [s for s in (str_of(f, di, a) for a in t[5]) if s is not None]
            hit = [s for s in lits if s in names]
            if not hit or t[7] is None or t[6] is None:
                continue
            name = hit[0]
            nb = t[7]
            tt = f.term(nb)
            if tt[KIND] != "switch" or tt[4][0] not in ("cp", "mv") or tt[4][1][0] != t[6][0]:
                continue
            listed = {int(v): tb for v, tb in tt[6]}
            true_t = tt[7] if 0 in listed else listed.get(1)
            if true_t is None:
                continue
            if dom is None:
                dom = dominators(f)
            region = [x for x in range(f.nblocks()) if true_t in dom.get(x, ()) and not f.is_cleanup(x)]
            ops = sorted(v for v in _w_variants_in(facts, f, region) if v.startswith(W_NUMERIC_PREFIX) and not any(k in v for k in W_NEUTRAL))
            key = "inline|%s|%s" % (last, name)
            vm = vm_methods.get(name)
            if len(ops) == 1 and vm is not None and W_TWIN.get(ops[0]) == vm:
                ck.ok(RI, key, {"builtin": name, "wasm": ops[0], "vm": vm})
            else:
                ck.bad(RI, key, "%s recognises the builtin `%s` by name and lowers it inline with %s, while the VM computes it with %s: these are not the same function for every f64 (NaN operands / ties), so the back ends can print different samples" % (f.short, name, ops or "its own code", vm or "its machine_function"), f.where(t))
    ck.floor(RI, "wasm_generator_functions_scanned", n_fns, 40)
