"""C19 — concurrent compilations do not interfere (global-state inventory + lock graph)."""
from .. import roles
from ..callgraph import CallGraph
from ..facts import KIND, callee, callee_full

LEVEL = "other"
EXPLANATION = (
    "Inventory and lock discipline of process-global state reachable from the compile and run entry points, decided on MIR: "
    "(statics) every static is listed; `static mut`, and statics with interior mutability whose type is not a synchronisation "
    "primitive (Mutex/RwLock/atomic/Once*/Lazy* around one), are unsynchronised shared state and must be audited; thread-locals "
    "are per thread by construction; (env) no mutation of the process environment on that path; (locks) no function reachable "
    "from a closure that runs under the interner lock re-enters that lock (self-deadlock on a non-re-entrant mutex), and the "
    "held→acquired graph over the global locks is acyclic; (markers) every `unsafe impl Send/Sync` in the workspace is listed "
    "and audited. Absence of cross-talk through the shared interner's contents, and schedules, are not decided."
)
SYNC_OK = ("std::sync::Mutex<", "std::sync::RwLock<", "std::sync::atomic::", "std::sync::OnceLock<", "std::sync::LazyLock<std::sync::Mutex<", "std::sync::LazyLock<std::sync::RwLock<", "std::sync::Once", "std::sync::LazyLock<std::sync::atomic")
CRATES = ["mimium_lang", "state_tree", "mimium_scheduler", "mimium_audiodriver", "mimium_cli", "mimium_symphonia", "mimium_midi", "mimium_guitools", "mimium_fmt"]


def rule_statics(ck, facts):
    R = "C19.statics"
    ck.rule(R, "no `static mut` and no interior-mutable static outside a synchronisation primitive in the workspace's library crates (thread-locals excepted)")
    n = 0
    for cn in CRATES:
        if cn not in facts.files:
            continue
        seen = set()
        for s in facts.crate(cn).statics:
            key = (s["p"], s["ty"])
            if key in seen:
                continue
            seen.add(key)
            n += 1
            name = s["p"].split("::", 1)[-1]
            short = name.split("::")[-1] if "{" not in name else name.split("::")[0 if "::" not in name else -3]
            if s["tls"]:
                ck.ok(R, "static|%s|%s|thread-local" % (cn, short), {"static": name, "type": s["ty"]})
                continue
            if s["mut"]:
                ck.bad(R, "static-mut|%s|%s" % (cn, short), "`static mut %s: %s` is unsynchronised process-global state: two threads using it at the same time race" % (name, s["ty"]), "%s:%s" % (s["file"], s["line"]))
                continue
            if s["freeze"]:
                ck.ok(R, "static|%s|%s|immutable" % (cn, short))
                continue
            if s["ty"].startswith(SYNC_OK):
                ck.ok(R, "static|%s|%s|synchronised" % (cn, short), {"static": name, "type": s["ty"]})
            else:
                ck.bad(R, "static-unsync|%s|%s" % (cn, short), "static %s: %s has interior mutability but is not wrapped in a synchronisation primitive" % (name, s["ty"]), "%s:%s" % (s["file"], s["line"]))
    ck.floor(R, "statics_inventoried", n, 8)


def compile_run_roots(cg):
    roots = []
    for p, f in cg.fns.items():
        s = f.short
        if (s.startswith("compiler::Context::emit_") or s.startswith("ExecContext::prepare") or s in ("compiler::emit_ast",)) and f.d["vis"] == "pub":
            roots.append(p)
        if s in ("runtime::vm::Machine::execute_main", "runtime::vm::Machine::execute_idx"):
            roots.append(p)
    return sorted(set(roots))


def rule_env(ck, facts, cg, par):
    R = "C19.env"
    ck.rule(R, "no call to std::env::set_var / remove_var / set_current_dir reachable from the compile and run entry points")
    n = 0
    for p in sorted(par):
        f = cg.fns.get(p)
        if f is None:
            continue
        for b, t in f.calls():
            c = callee(t) or ""
            if c in ("std::env::set_var", "std::env::remove_var", "std::env::set_current_dir"):
                n += 1
                root = f.root.split("::", 1)[1]
                path = cg.path_to(par, p)
                ck.bad(R, "env|%s|%s" % (root, c.split("::")[-1]), "%s mutates the process environment (%s) during compilation: another thread compiling at the same time observes (or overwrites) the value. reached via %s" % (f.short, c, " -> ".join(x.split("::", 1)[-1] for x in path[-4:])), f.where(t))
    ck.setcount("env_mutations_on_compile_path", n)
    if n == 0:
        ck.ok(R, "none")


def rule_locks(ck, facts, cg):
    R = "C19.locks"
    ck.rule(R, "closures that run while the interner lock is held never reach a function that takes that lock again; the held→acquired relation over the global locks (interner, file cache) has no cycle")
    lang = facts.crate(roles.LANG)
    # lock takers: functions that call Mutex::lock on a global (role: reads the static) — found via the statics they mention
    def mentions_static(f, name):
        for b, s in f.all_stmts():
            if s[KIND] == "a" and s[5][0] in ("use", "ref"):
                pass
        txt = None
        return None

    holders = {}  # lock name -> functions that acquire it (call .lock() after referencing the static)
    for f in lang.fns:
        if f.kind == "promoted":
            continue
        locks_here = [t for _, t in f.calls() if (callee(t) or "").endswith("Mutex::<T>::lock") or (callee(t) or "").endswith("::lock") and "Mutex" in (callee(t) or "")]
        if not locks_here:
            continue
        full = " ".join((t[4].get("full") or "") for t in locks_here)
        if "SessionGlobals" in full:
            holders.setdefault("interner", []).append(f)
        if "FileCache" in full:
            holders.setdefault("file-cache", []).append(f)
    ck.require(R, "interner" in holders, "anchor|interner-lock", "no function locking the interner mutex found")
    ck.setcount("interner_lock_sites", len(holders.get("interner", [])))
    ck.setcount("file_cache_lock_sites", len(holders.get("file-cache", [])))
    taker_paths = {name: {f.root for f in fs} | {f.path for f in fs} for name, fs in holders.items()}
    # closure-scoped lock: fn(f: F) that locks and then calls f  => every closure passed to it runs under the lock
    scoped = {}
    for name, fs in holders.items():
        for f in fs:
            calls_param = any("call_once" in (callee(t) or "") or "call_mut" in (callee(t) or "") or ("ptr" in t[4]) for _, t in f.calls())
            if calls_param:
                scoped[f.path] = name
    n = 0
    edges = set()
    for p, f in cg.fns.items():
        for b, t in f.calls():
            c = callee(t)
            if c not in scoped:
                continue
            held = scoped[c]
            # the closure argument
            clo = None
            for a in t[5]:
                if a[0] in ("cp", "mv") and not a[1][1]:
                    from ..cfg import DefIndex

                    d = DefIndex(f).single_def(a[1][0])
                    if d and d[1] is not None and d[2][5][0] == "agg" and d[2][5][1][0] == "closure":
                        clo = d[2][5][1][1]
            if clo is None:
                continue
            n += 1
            reach = cg.reach([clo])
            for name, paths in taker_paths.items():
                hit = [x for x in reach if x in paths]
                if hit:
                    edges.add((held, name))
                    if name == held:
                        chain = cg.path_to(reach, hit[0])
                        ck.bad(R, "reentry|%s|%s" % (held, f.root.split("::", 1)[1]), "%s runs a closure under the %s lock that reaches %s, which takes the same non-re-entrant lock again: the thread deadlocks on itself (%s)" % (f.short, held, hit[0].split("::", 1)[-1], " -> ".join(x.split("::", 1)[-1] for x in chain[-4:])), f.where(t))
    ck.floor(R, "closures_run_under_a_global_lock", n, 10)
    # guard-scoped acquisitions: a function that takes lock A and (anywhere in its body) reaches a taker of lock B
    for name, fs in holders.items():
        for f in fs:
            if f.path in scoped:
                continue
            reach = cg.reach([f.path])
            for other, paths in taker_paths.items():
                if other != name and any(x in paths for x in reach if x != f.path):
                    edges.add((name, other))
    ck.setcount("lock_order_edges", len(edges))
    cyc = [(a, b) for a, b in edges if a != b and (b, a) in edges]
    if cyc:
        ck.bad(R, "lock-cycle|%s" % "+".join(sorted({a for a, _ in cyc})), "the global locks are acquired in both orders (%s): two threads can deadlock" % sorted(edges))
    else:
        ck.ok(R, "lock-order|acyclic", {"edges": sorted(edges)})
    if not any(a == b for a, b in edges):
        ck.ok(R, "reentry|none", {"closures_checked": n})


def rule_markers(ck, facts):
    R = "C19.markers"
    ck.rule(R, "every `unsafe impl Send` / `unsafe impl Sync` in the workspace is audited (a new one widens what may be shared between threads)")
    n = 0
    for cn in CRATES:
        if cn not in facts.files:
            continue
        seen = set()
        for i in facts.crate(cn).impls:
            if not i["unsafe"] or not i["trait"].endswith(("marker::Send", "marker::Sync")):
                continue
            key = (i["trait"], i["self"])
            if key in seen:
                continue
            seen.add(key)
            n += 1
            ck.bad(R, "unsafe-impl|%s|%s|%s" % (cn, i["self"], i["trait"].split("::")[-1]), "unsafe impl %s for %s (%s): not audited" % (i["trait"].split("::")[-1], i["self"], cn), "%s:%s" % (i["file"], i["line"]))
    ck.floor(R, "unsafe_send_sync_impls", n, 8)


def run(ck, facts, tier):
    cg = CallGraph(facts, [c for c in CRATES if c in facts.files])
    roots = compile_run_roots(cg)
    ck.floor("C19.anchor", "entry_points", len(roots), 5)
    par = cg.reach(roots)
    rule_statics(ck, facts)
    rule_env(ck, facts, cg, par)
    rule_locks(ck, facts, cg)
    rule_markers(ck, facts)
    ck.not_decided("absence of result contamination through the contents of the shared interner; behaviour under particular schedules")
