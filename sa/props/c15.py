"""C15 — compilation is deterministic (E7: unordered-iteration and history-dependent-order lint on the compile path)."""
from .. import roles
from ..callgraph import CallGraph
from ..cfg import DefIndex, natural_loops, reachable
from ..facts import KIND, callee, callee_full

LEVEL = "other"
EXPLANATION = (
    "Determinism lint over everything reachable from the compile entry points (and the state-migration planner): (hash) every "
    "iteration over a HashMap/HashSet is classified by its consumer — order-insensitive consumers (max/min/sum/count/any/all, "
    "collecting into a map or set, loops that only insert into maps/sets or test membership) pass, order-sensitive ones "
    "(collecting into a Vec without sorting, first-match loops, loops that push/emit, enumerate/take/skip) must be audited; (ids) "
    "no sort / max / min / ordered map is keyed by an interner id (ids are handed out in first-seen order, so their order depends "
    "on what the process compiled before); (ambient) no clock, RNG, environment or pointer-address read on that path. "
    "Byte equality of outputs is not decided."
)
ITER_METHODS = ("iter", "iter_mut", "into_iter", "keys", "values", "values_mut", "drain", "into_keys", "into_values", "difference", "intersection", "union", "symmetric_difference", "range", "range_mut", "extract_if", "drain_filter")
ADAPTERS = ("map", "filter", "filter_map", "cloned", "copied", "flat_map", "flatten", "inspect", "chain", "zip", "peekable", "by_ref", "map_while", "into_iter", "rev")
POSITIONAL = ("enumerate", "take", "skip", "step_by", "nth", "last", "take_while", "skip_while", "position")
INSENSITIVE = ("max", "min", "max_by_key", "min_by_key", "max_by", "min_by", "sum", "product", "count", "any", "all", "is_empty", "len", "contains", "for_each_insensitive")
FIRST_MATCH = ("find", "find_map", "next", "position", "rposition", "reduce", "fold", "try_fold", "for_each", "unzip", "partition")
SHARED_ID_TYPES = ("interner::Symbol",)
ID_TYPES = ("interner::Symbol", "interner::TypeNodeId", "interner::ExprNodeId", "interner::ExprKey", "interner::NodeId", "types::TypeSchemeId", "interner::TypeKey")


def _outer(ty):
    t = (ty or "").strip()
    while t.startswith("&"):
        t = t[1:].strip()
        if t.startswith("mut "):
            t = t[4:].strip()
    return t


def container_kind(c, full, a0):
    """kind of the *receiver* container of an iteration call (not of its element types)"""
    prefix = c.rsplit("::", 1)[0]
    recv = None
    if "IntoIterator" in c:
        recv = _outer(a0)
    else:
        recv = prefix
    head = recv.split("<", 1)[0]
    if "HashMap" in head or "hash_map" in head or "hash::map" in head:
        return "HashMap"
    if "HashSet" in head or "hash_set" in head or "hash::set" in head:
        return "HashSet"
    if "BTreeMap" in head or "BTreeSet" in head or "btree" in head:
        # key type: first generic argument of the receiver / of the full callee path
        # (the declared path names the generic parameter, `BTreeSet::<T, A>::difference`; the instantiated path and the
        # first generic argument name the key type)
        for src in (recv, full or "", "<%s>" % (a0 or "")):
            k = src.split("<", 1)[1] if "<" in src else ""
            k = k.split(",", 1)[0].split(">", 1)[0].strip()
            k = k.replace("mimium_lang::", "")
            # only ids that are shared between compilations order by history: a `Symbol` is the index of a spelling
            # in the process-wide string interner (first job to mention it decides).  Expression / type node ids are
            # fresh slot-map keys, never deduplicated: their relative order inside one compilation is its own
            # creation order, whatever else the process compiled.
            if any(k == t or k.endswith(t) for t in SHARED_ID_TYPES):
                return "BTree-by-id"
    return None


def users_of(f, local):
    """(block, term) of calls that take the bare local as an argument (moved or copied)"""
    out = []
    for b, t in f.calls():
        for a in t[5]:
            if a[0] in ("cp", "mv") and not a[1][1] and a[1][0] == local:
                out.append((b, t))
    return out


SELECTORS = ("max_by_key", "min_by_key", "max_by", "min_by")


def _sig(e, out):
    """order-free signature of an expression: the fields it reads and the operations it applies"""
    if isinstance(e, tuple) and e:
        if e[0] == "fld" and isinstance(e[2], str):
            out.append("f:" + e[2])
        elif e[0] == "bin":
            out.append("op:" + str(e[1]).replace("_ov", ""))
        elif e[0] == "call":
            out.append("call:" + e[1].split("<")[0].split("::")[-1])
        for x in e:
            _sig(x, out)


def winner_is_its_key(facts, f, t):
    """`iter.max_by_key(K).map(M)`: the element that wins a tie depends on the iteration order; the answer does not if
    what is taken from the winner (M) is the key itself (K)"""
    from ..symex import PathLimit, SymEx

    def closure_of(term, idx):
        if len(term[5]) <= idx or term[5][idx][0] not in ("cp", "mv"):
            return None
        l = term[5][idx][1][0]
        for _, s2 in f.all_stmts():
            if s2[KIND] == "a" and s2[4][0] == l and s2[5][0] == "agg" and s2[5][1][0] == "closure":
                return facts.fn(s2[5][1][1])
        return None

    def ret_sig(g):
        if g is None:
            return None
        sx = SymEx(g, max_paths=8, facts=facts)
        try:
            ps = sx.run(0)
        except PathLimit:
            return None
        rs = [p.env.get(0) for p in ps if p.end == "return"]
        if len(rs) != 1 or rs[0] is None:
            return None
        o = []
        _sig(rs[0], o)
        return sorted(o)

    k = ret_sig(closure_of(t, 1))
    if k is None or t[6] is None or t[6][1]:
        return False
    # the consumer of the winner
    for _, t2 in f.calls():
        if t2 is not t and any(a[0] in ("cp", "mv") and a[1][0] == t[6][0] for a in t2[5]) and (callee(t2) or "").split("::")[-1] == "map":
            m = ret_sig(closure_of(t2, 1))
            return m is not None and m == k
    return False


def follow(f, di, b, t, depth=0):
    """terminal consumer of the iterator produced by call t: (terminal_name, detail)"""
    dest = t[6]
    if dest[1]:
        return ("stored", "")
    local = dest[0]
    # copies of the local
    seen = {local}
    work = [local]
    while work:
        l = work.pop()
        for bb, s in f.all_stmts():
            if s[KIND] == "a" and not s[4][1] and s[5][0] == "use" and s[5][1][0] in ("cp", "mv") and not s[5][1][1][1] and s[5][1][1][0] == l and s[4][0] not in seen:
                seen.add(s[4][0])
                work.append(s[4][0])
            if s[KIND] == "a" and not s[4][1] and s[5][0] == "ref" and s[5][1][1] in ([], ["*"]) and s[5][1][0] == l and s[4][0] not in seen:
                seen.add(s[4][0])
                work.append(s[4][0])
    for l in list(seen):
        for ub, ut in users_of(f, l):
            if ut is t:
                continue
            name = (callee(ut) or "").split("::")[-1]
            if name in ADAPTERS and depth < 8:
                if name == "into_iter" and ut[6] and not ut[6][1]:
                    pass
                return follow(f, di, ub, ut, depth + 1)
            if name in POSITIONAL:
                return (name, "positional")
            if name == "next":
                # a `for` loop: classify the loop body
                return classify_loop(f, ub)
            if name == "collect" or name == "from_iter" or name == "extend":
                full = callee_full(ut) or ""
                target = f.local_ty(ut[6][0]) if not ut[6][1] else ""
                if name == "extend":
                    # the receiver decides: extending a map/set is order-insensitive
                    target = (ut[4].get("a0") or "") + " " + (f.local_ty(ut[5][0][1][0]) if ut[5] and ut[5][0][0] in ("cp", "mv") else "")
                if "HashMap" in target or "HashSet" in target or "BTreeMap" in target or "BTreeSet" in target or "HashMap" in full.split("collect")[-1] or "HashSet" in full.split("collect")[-1]:
                    return ("collect-map", target)
                # a Vec: sorted afterwards?
                if sorted_after(f, ut):
                    return ("collect-sorted", target)
                if name in ("collect", "from_iter") and not ut[6][1] and seq_used_as_singleton(f, ut[6][0]):
                    return ("collect-singleton", target)
                if name == "extend" and ut[5] and ut[5][0][0] in ("cp", "mv"):
                    r = di.resolve(ut[5][0])
                    if r[0] == "rv" and r[1][5][0] == "ref" and not r[1][5][1][1] and seq_used_as_singleton(f, r[1][5][1][0]):
                        return ("collect-singleton", target)
                return ("collect-seq", target)
            return (name, ut if name in SELECTORS else "")
    return ("unused", "")


def seq_used_as_singleton(f, vec_local):
    """the collected sequence is only asked for its size / membership, extended, or indexed at 0 under a
    dominating `len() == 1`: then its element order cannot influence anything"""
    from ..rules import guards

    aliases = {vec_local}
    changed = True
    while changed:
        changed = False
        for _, s in f.all_stmts():
            if s[KIND] == "a" and not s[4][1] and s[4][0] not in aliases:
                rv = s[5]
                if rv[0] == "use" and rv[1][0] in ("cp", "mv") and not rv[1][1][1] and rv[1][1][0] in aliases:
                    aliases.add(s[4][0]); changed = True
                elif rv[0] == "ref" and rv[1][1] in ([], ["*"]) and rv[1][0] in aliases:
                    aliases.add(s[4][0]); changed = True
        for _, t in f.calls():
            if t[6] is not None and not t[6][1] and t[6][0] not in aliases and (callee(t) or "").split("::")[-1] in ("deref", "deref_mut", "as_slice", "as_ref", "borrow") and t[5] and t[5][0][0] in ("cp", "mv") and t[5][0][1][0] in aliases:
                aliases.add(t[6][0]); changed = True
    iv = []
    guards.check_const_index(f, intervals=iv)
    single = {id(item) for item, cont, k, lo, hi in iv if k == 0 and lo == 1 and hi == 1}
    ok_names = ("len", "is_empty", "contains", "extend", "push", "capacity", "reserve", "drop", "drop_in_place")
    for b, t in f.calls():
        if not any(a[0] in ("cp", "mv") and a[1][0] in aliases for a in t[5]):
            continue
        n = (callee(t) or "").split("::")[-1]
        if n in ok_names or n in ("deref", "deref_mut", "as_slice", "as_ref", "borrow"):
            continue
        if n in ("index", "index_mut") and id(t) in single:
            continue
        return False
    # any other appearance of the sequence (moved into an aggregate, returned, stored in a field, iterated by place
    # projection) lets its order escape
    def mentions(x):
        if isinstance(x, list):
            if len(x) == 2 and x[0] in ("cp", "mv") and isinstance(x[1], list) and x[1] and x[1][0] in aliases:
                return True
            return any(mentions(y) for y in x)
        return False

    for _, st in f.all_stmts():
        if st[KIND] != "a":
            continue
        rv = st[5]
        if st[4][0] in aliases and not st[4][1]:
            continue  # definition of an alias
        if rv[0] in ("ref", "raw") and rv[1][0] in aliases:
            if rv[1][1] in ([], ["*"]) and not st[4][1]:
                continue  # handled as alias above (dest is an alias)
            return False
        if mentions(rv):
            return False
    return True


def sorted_after(f, t):
    dest = t[6]
    if dest[1]:
        return False
    for b, tt in f.calls():
        n = (callee(tt) or "").split("::")[-1]
        if n.startswith("sort") or n in ("sort_by_key", "sort_unstable", "sort_by", "sort_unstable_by_key"):
            return True
    return False


def classify_loop(f, next_block):
    loops = [l for l in natural_loops(f) if next_block in l[1]]
    if not loops:
        return ("next", "single next()")
    h, body = min(loops, key=lambda l: len(l[1]))
    pushes = []
    inserts = []
    from ..cfg import can_reach_return

    crr = can_reach_return(f)
    exit_targets = set()
    for b in body:
        t = f.term(b)
        if t[KIND] == "call":
            c = callee(t) or ""
            n = c.split("::")[-1]
            if n in ("push", "push_str", "push_back", "extend", "extend_from_slice", "write_str", "write_fmt", "append") and ("Vec" in c or "String" in c or "VecDeque" in c or "fmt" in c):
                pushes.append(n)
            if n in ("insert", "entry", "remove") and ("Map" in c or "Set" in c):
                inserts.append(n)
        for s in f.succs(b):
            if s not in body and s in crr:
                exit_targets.add(s)
    # one exit is the iterator's None; more exits mean break/return inside the loop (first-match semantics)
    if pushes:
        return ("for-push", ",".join(sorted(set(pushes))))
    exits = len(exit_targets)
    if exits > 1:
        return ("for-first-match", "%d exits" % exits)
    # insertions into a map are order-free only when no two iterations can write the same key: the key must be (made
    # from) the key of the element being iterated; a key taken from the element's *value* (the constructor names of
    # a type declaration, keyed by the type's name) can repeat, and then the last iteration wins
    foreign = _foreign_key_inserts(f, next_block, body)
    if foreign:
        return ("for-insert-foreign-key", foreign)
    return ("for-insensitive", "inserts=%d" % len(inserts))


def _foreign_key_inserts(f, next_block, body):
    from ..rules.chainwalk import taint

    t = f.term(next_block)
    if t[KIND] != "call" or t[6] is None or t[6][1]:
        return None
    dest = t[6][0]
    elem, k_seed, v_seed = set(), set(), set()
    for b, s in f.all_stmts():
        if s[KIND] != "a" or s[4][1]:
            continue
        for pl in ([s[5][1]] if s[5][0] in ("ref", "raw") else [s[5][1][1]] if s[5][0] == "use" and s[5][1][0] in ("cp", "mv") else []):
            if pl[0] != dest:
                continue
            flds = [e[1] for e in pl[1] if isinstance(e, list) and e[0] == "f"]
            if any(isinstance(e, list) and e[0] == "d" for e in pl[1]) and flds[:1] == [0]:
                if len(flds) == 1:
                    elem.add(s[4][0])
                elif flds[1] == 0:
                    k_seed.add(s[4][0])
                else:
                    v_seed.add(s[4][0])
    # `(k, v)` destructured in a second step
    for b, s in f.all_stmts():
        if s[KIND] == "a" and not s[4][1] and s[5][0] == "use" and s[5][1][0] in ("cp", "mv") and s[5][1][1][0] in elem:
            flds = [e[1] for e in s[5][1][1][1] if isinstance(e, list) and e[0] == "f"]
            if flds[:1] == [0]:
                k_seed.add(s[4][0])
            elif flds[:1] and flds[0] >= 1:
                v_seed.add(s[4][0])
    if not v_seed:
        return None  # a set, or the value is never looked at
    tk, tv = taint(f, sorted(k_seed)) if k_seed else set(), taint(f, sorted(v_seed))
    for b in body:
        tt = f.term(b)
        if tt[KIND] != "call":
            continue
        c = callee(tt) or ""
        if c.split("::")[-1] == "insert" and ("Map" in c) and len(tt[5]) >= 2 and tt[5][1][0] in ("cp", "mv"):
            kl = tt[5][1][1][0]
            if kl in tv and kl not in tk:
                return "insert keyed by a part of the element's value"
    return None


def rule_hash_iteration(ck, facts, cg, par, kinds=None):
    """kinds: restrict to these container kinds (C19 runs the ordered-by-shared-id part only)"""
    R = "C15.hash"
    ck.rule(R, "every iteration over a HashMap/HashSet (or an ordered map keyed by an interner id) reachable from the compile entry points has an order-insensitive consumer, or is audited")
    n = 0
    for p in sorted(par):
        f = cg.fns.get(p)
        if f is None or roles.is_derived(f) or f.kind == "promoted":
            continue
        di = None
        seen_keys = {}
        for b, t in f.calls():
            c = callee(t) or ""
            name = c.split("::")[-1]
            if name not in ITER_METHODS:
                continue
            kind = container_kind(c, callee_full(t), t[4].get("a0"))
            if kind is None or (kinds and kind not in kinds):
                continue
            # skip the desugared `IntoIterator::into_iter(x.iter())` second hop
            di = di or DefIndex(f)
            term, detail = follow(f, di, b, t)
            n += 1
            root = f.root.split("::", 1)[1] if "::" in f.root else f.root
            key = "iter|%s|%s|%s" % (root, kind, term)
            if key in seen_keys:
                continue
            seen_keys[key] = 1
            if term in SELECTORS and not (isinstance(detail, list) and winner_is_its_key(facts, f, detail)):
                ck.bad(R, key + "|tie", "%s selects an element of a %s with `%s` and then uses more of the winner than the key it was selected by: among elements with equal keys the one met last in iteration order wins, so the outcome depends on the per-process hash seed" % (f.short, kind, term), f.where(t))
            elif term in INSENSITIVE or term in ("collect-map", "collect-sorted", "collect-singleton", "for-insensitive", "unused", "stored"):
                ck.ok(R, key, {"fn": root, "container": kind, "consumer": term, "at": f.where(t)})
            else:
                why = {
                    "collect-seq": "collected into a sequence without sorting",
                    "for-push": "a loop that appends/emits in iteration order",
                    "for-first-match": "a loop that stops at the first match",
                    "for-insert-foreign-key": "a loop that inserts into a map under a key taken from the element's value (two elements can carry the same key, and then the one iterated last wins)",
                }.get(term, "consumed by `%s`, whose result depends on iteration order" % term)
                ck.bad(R, key, "%s iterates a %s and the result is %s: the outcome depends on the per-process hash seed%s" % (f.short, kind, why, " / interning history" if kind == "BTree-by-id" else ""), f.where(t))
    if not kinds:
        ck.floor(R, "unordered_iteration_sites", n, 12)


def rule_id_order(ck, facts, cg, par):
    R = "C15.id-order"
    ck.rule(R, "no sort/max/min/dedup key and no direct comparison on the compile path has an interner id type (Symbol, TypeNodeId, ExprNodeId, ...): those ids are allocated in first-seen order by a process-global interner")
    n = 0
    for p in sorted(par):
        f = cg.fns.get(p)
        if f is None or roles.is_derived(f) or f.kind == "promoted":
            continue
        di = None
        for b, t in f.calls():
            c = callee(t) or ""
            name = c.split("::")[-1]
            if name.endswith(("by_key", "by_cached_key")) and not name.startswith(("unique", "dedup_by_key_ignore", "group", "chunk", "into_group", "counts", "all_unique")):
                n += 1
                di = di or DefIndex(f)
                kty = None
                for a in t[5]:
                    if a[0] in ("cp", "mv") and not a[1][1]:
                        d = di.single_def(a[1][0])
                        if d and d[1] is not None and d[2][5][0] == "agg" and d[2][5][1][0] == "closure":
                            g = facts.fn(d[2][5][1][1])
                            if g is not None:
                                kty = g.local_ty(0)
                root = f.root.split("::", 1)[1]
                if kty and any(kty.endswith(x) or x in kty for x in ID_TYPES):
                    ck.bad(R, "key|%s|%s|%s" % (root, name, kty.split("::")[-1]), "%s orders by a key of type %s: the order follows interner allocation order, i.e. it depends on what this process compiled earlier" % (f.short, kty), f.where(t))
                else:
                    ck.ok(R, "key|%s|%s" % (root, name), {"fn": root, "key_type": kty})
            elif name in ("cmp", "partial_cmp", "lt", "le", "gt", "ge", "max", "min") and any(x in (t[4].get("a0") or "") for x in ID_TYPES) and not (t[4].get("a0") or "").startswith("&str"):
                a0 = t[4].get("a0") or ""
                if a0.lstrip("&").startswith(("interner::", "types::TypeSchemeId", "mimium_lang::interner::")):
                    n += 1
                    root = f.root.split("::", 1)[1]
                    ck.bad(R, "cmp|%s|%s" % (root, a0.split("::")[-1]), "%s compares two %s values by their interner ids: the result depends on interning history" % (f.short, a0), f.where(t))
            elif name in ("sort", "sort_unstable", "dedup", "sorted", "sorted_unstable"):
                a0 = callee_full(t) or ""
                if any(x in a0 for x in ID_TYPES):
                    n += 1
                    root = f.root.split("::", 1)[1]
                    ck.bad(R, "sort|%s" % root, "%s sorts a sequence of interner ids: order follows interning history" % f.short, f.where(t))
    ck.floor(R, "ordering_sites_examined", n, 4)


def rule_id_text(ck, facts, cg, par):
    """an interner id printed into generated text makes the text depend on what was interned before"""
    R = "C15.id-order"
    QUIET = ("log::", "$crate::log", "panic", "assert", "unreachable", "todo", "unimplemented", "eprintln", "println", "dbg", "debug_assert", "tracing")
    n = 0
    for p in sorted(par):
        f = cg.fns.get(p)
        if f is None or roles.is_derived(f) or f.kind == "promoted":
            continue
        for b, t in f.calls():
            c = callee(t) or ""
            if c.split("::")[-1] != "new_debug" or "fmt" not in c:
                continue
            a0 = (t[4].get("a0") or "") if isinstance(t[4], dict) else ""
            if not any(x in a0 for x in ID_TYPES):
                continue
            if t[1] and any(any(q in m for q in QUIET) for m in t[1]):
                continue  # a log line or an abort message
            n += 1
            root = f.root.split("::", 1)[1] if "::" in f.root else f.root
            ck.bad(R, "id-text|%s|%s" % (root, a0.split("::")[-1].rstrip(">]")), "%s formats a value of type %s with `{:?}` into a string it builds: the Debug form of an interned id contains its index in the process-wide interner (`name(90)`), so a label or key made from it changes with whatever was compiled before in the same process" % (f.short, a0), f.where(t))
    ck.setcount("id_debug_format_sites", n)


def rule_ambient(ck, facts, cg, par):
    R = "C15.ambient"
    ck.rule(R, "no read of a clock, a random source, the environment or a pointer address on the compile path")
    BAD = ("std::time::Instant::now", "std::time::SystemTime::now", "rand::", "getrandom", "std::env::var", "std::env::vars", "RandomState::new", "std::thread::current", "std::process::id")
    n = 0
    for p in sorted(par):
        f = cg.fns.get(p)
        if f is None or roles.is_derived(f) or f.kind == "promoted":
            continue
        for b, t in f.calls():
            c = callee(t) or ""
            if any(c.startswith(x) or x in c for x in BAD):
                n += 1
                root = f.root.split("::", 1)[1]
                ck.bad(R, "ambient|%s|%s" % (root, c.split("::")[-1]), "%s reads ambient process state (%s) during compilation" % (f.short, c), f.where(t))
        for b, s in f.all_stmts():
            if s[KIND] == "a" and s[5][0] == "cast" and s[5][1] in ("PointerExposeProvenance", "PointerExposeAddress", "PtrToInt"):
                n += 1
                root = f.root.split("::", 1)[1]
                ck.bad(R, "address|%s" % root, "%s turns a pointer into an integer on the compile path (address-dependent value)" % f.short, f.where(s))
    ck.setcount("ambient_reads_found", n)
    ck.ok(R, "scanned", {"functions": len(par)})


def rule_memo_hit(ck, facts):
    """get-or-create tables (names -> ids, types -> instances, keys -> offsets) give the compiler and its plugins stable
    numbering: what a key got once it gets again, whatever was compiled in between"""
    from ..rules.chainwalk import map_field

    R = "C15.memo-hit"
    ck.rule(R, "in a function that looks a key up in a map held in a struct field and also inserts into that same map (get-or-create), no insertion is reachable from the `found` edge of the lookup: a hit answers with the stored entry. A hit that can fall through to the creating branch (e.g. because a second, unrelated lookup failed) hands out a fresh id for a name that already has one, so the listing depends on what was compiled before")
    n = 0
    for cn in facts.crate_names():
        if cn in ("mimium_test", "mimium_rust_template") or cn.startswith("mimium_language_server"):
            continue
        for f in facts.crate(cn).fns:
            if f.kind == "promoted" or "::test" in f.path:
                continue
            gets = [(b, t) for b, t in f.calls() if (callee(t) or "").split("::")[-1] in ("get", "get_mut") and any(k in (callee(t) or "") for k in ("HashMap", "BTreeMap")) and t[6] is not None and t[5]]
            ins = [(b, t) for b, t in f.calls() if (callee(t) or "").split("::")[-1] == "insert" and any(k in (callee(t) or "") for k in ("HashMap", "BTreeMap")) and t[5]]
            if not gets or not ins:
                continue
            di = DefIndex(f)
            for gb, gt in gets:
                fld = map_field(f, di, gt[5][0])
                if not fld:
                    continue
                same = [(b, t) for b, t in ins if map_field(f, di, t[5][0]) == fld]
                if not same:
                    continue
                dest = gt[6][0]
                some_targets = []
                for b, blk in enumerate(f.bb):
                    t = blk["t"]
                    if blk["c"] or t[KIND] != "switch" or t[4][0] not in ("cp", "mv"):
                        continue
                    r = di.resolve(t[4])
                    if r[0] == "rv" and r[1][5][0] == "disc" and r[1][5][1][0] == dest:
                        ones = [tb for v, tb in t[6] if int(v) == 1]
                        some_targets.extend(ones if ones else [t[7]])
                if not some_targets:
                    continue
                n += 1
                key = "hit|%s|%s" % (f.short, fld.split("::")[-1])
                bad = None
                for tb in some_targets:
                    reg = reachable(f, tb)
                    for b, t in same:
                        if b in reg:
                            bad = t
                if bad is None:
                    ck.ok(R, key, {"fn": f.short, "table": fld})
                else:
                    ck.bad(R, key, "%s: from the `found` edge of its lookup in %s a path reaches the insertion into the same table (%s): a key that already has an entry can be registered again with a fresh id, so the numbering in the generated code depends on what was compiled before with the same plugin / context" % (f.short, fld.split("::")[-1], f.where(bad)), f.where(gt))
    ck.floor(R, "get_or_create_tables", n, 8)


def run(ck, facts, tier):
    rule_memo_hit(ck, facts)
    cg = CallGraph(facts, ["mimium_lang", "state_tree"])
    roots = [p for p, f in cg.fns.items() if f.short.startswith("compiler::Context::emit_") and f.d["vis"] == "pub"]
    roots += [p for p in cg.fns if p in ("state_tree::build_state_storage_patch_plan",)]
    ck.floor("C15.anchor", "compile_entry_points", len(roots), 4)
    par = cg.reach(roots)
    ck.floor("C15.anchor", "functions_on_compile_path", len([p for p in par if p in cg.fns]), 1500)
    rule_hash_iteration(ck, facts, cg, par)
    rule_id_order(ck, facts, cg, par)
    rule_id_text(ck, facts, cg, par)
    rule_ambient(ck, facts, cg, par)
    ck.not_decided("byte equality of bytecode listings / WASM bytes across processes; global counters flowing into generated names (listed under C16)")
