"""C07 — hot-swap after an edit preserves the state of untouched signal paths (flow rules + C08's plan rules)."""
from .. import roles
from ..cfg import DefIndex, dominators, reachable
from ..facts import KIND, callee, place_fields
from ..rules import cover
from ..symex import PathLimit, SymEx, show
from . import c05, c08

LEVEL = "other"
EXPLANATION = (
    "Structural necessary conditions for state-preserving hot swap after an edit: (send) in the live-reload front end a program "
    "payload is sent to the audio thread only on the Ok arm of compilation / payload preparation; (layout) every WASM payload "
    "carries the state layout the compiler produced for that module — a literal None there makes the runtime copy state blindly "
    "across layout changes; (zero) on both runtimes the destination buffer of a migration starts from zeros, so new cells start "
    "at zero; (plan) the migration-plan rules of C08 and the layout-order rule of C05, because the plan's addresses are computed "
    "from the published layout. Which call sites an edit 'left untouched', and continuity of their output, are not decided."
)
CLI = "mimium_cli"
PAYLOAD = "mimium_lang::runtime::ProgramPayload"


def rule_send(ck, facts):
    R = "C07.send"
    ck.rule(R, "every send of a ProgramPayload in the CLI is dominated by the Ok arm of the compile response (and, for WASM, of payload preparation); no send on an Err arm")
    cli = facts.crate(CLI)
    n = 0
    for f in cli.fns:
        if f.kind == "promoted":
            continue
        sends = [(b, t) for b, t in f.calls() if (callee(t) or "").endswith("Sender::<T>::send") and "ProgramPayload" in (t[4].get("full") or "") + (t[4].get("a0") or "")]
        if not sends:
            continue
        dom = dominators(f)
        di = DefIndex(f)
        for b, t in sends:
            n += 1
            ok_guard = False
            err_guard = False
            for d in dom[b]:
                tt = f.term(d)
                if tt[KIND] != "switch":
                    continue
                r = di.resolve(tt[4])
                if r[0] == "rv" and r[1][5][0] == "disc" and "Result<" in r[1][5][2]:
                    # which arm leads to b?  discriminant 0 = Ok, 1 = Err
                    for v, tb in tt[6]:
                        others = [x for vv, x in tt[6] if x != tb] + ([tt[7]] if tt[7] != tb else [])
                        if b in reachable(f, tb, avoid=others):
                            if v == "0":
                                ok_guard = True
                            if v == "1":
                                err_guard = True
            root = f.root.split("::", 1)[1]
            key = "send|%s" % root
            if ok_guard and not err_guard:
                ck.ok(R, key, {"fn": root, "guard": "Ok arm"})
            elif err_guard:
                ck.bad(R, key + "|err", "%s sends a program payload on an Err arm: a failed compilation replaces the running program" % f.short, f.where(t))
            else:
                ck.bad(R, key + "|unguarded", "%s sends a program payload without being on the Ok arm of a compile/prepare result" % f.short, f.where(t))
    ck.floor(R, "payload_send_sites", n, 2)


def rule_layout_carried(ck, facts):
    R = "C07.layout"
    ck.rule(R, "every call that prepares a WASM hot-swap payload passes the state layout produced by the compiler for that module (not a literal None)")
    cli = facts.crate(CLI)
    prep = [f for f in cli.fns if f.short.endswith("prepare_hot_swap_wasm_payload")]
    ck.require(R, len(prep) == 1, "anchor|prepare", "prepare_hot_swap_wasm_payload not found")
    if len(prep) != 1:
        return
    # inside: the payload's dsp_state_skeleton is the parameter
    n = 0
    for f in cli.fns:
        di = None
        for b, t in f.calls():
            if callee(t) != prep[0].path:
                continue
            n += 1
            di = di or DefIndex(f)
            arg = t[5][2]
            r = di.resolve(arg)
            is_none = r[0] == "rv" and r[1][5][0] == "agg" and r[1][5][1][0] == "adt" and r[1][5][1][3] == "None"
            root = f.root.split("::", 1)[1]
            if is_none:
                ck.bad(R, "none-layout|%s" % root, "%s prepares a WASM payload with dsp_state_skeleton = None: the audio thread then has no layout for the new module and copies the old state words blindly, whatever the edit changed" % f.short, f.where(t))
            else:
                ck.ok(R, "layout|%s" % root, {"fn": root})
    ck.floor(R, "prepare_call_sites", n, 2)


def rule_zero_dst(ck, facts):
    R = "C07.zero"
    ck.rule(R, "on both runtimes the destination of apply_patches is zero-filled (fresh vec![0; n]) so that new cells start at zero; sibling implementations must agree")
    lang = facts.crate(roles.LANG)
    sites = []
    for crate in (roles.LANG, "state_tree"):
        for f in facts.crate(crate).fns:
            if "::tests" in f.path or f.kind == "promoted":
                continue
            for b, t in f.calls():
                if (callee(t) or "").endswith("patch::apply_patches"):
                    sites.append((f, t))
    ck.floor(R, "apply_patches_call_sites", len(sites), 2)
    for f, t in sites:
        sx = SymEx(f, max_paths=300, max_steps=20000, facts=facts)
        try:
            paths = sx.run(0, stop_at_call=lambda n, tt, t=t: tt is t)
        except PathLimit:
            paths = sx.paths
        verdict = None
        for p in paths:
            if p.end != "stopcall":
                continue
            dst = p.events[-1][2][0]
            x = dst
            for _ in range(12):
                if x[0] in ("ref", "deref"):
                    x = x[1]
                elif x[0] == "call" and any(k in x[1] for k in ("deref", "as_mut", "index", "as_mut_slice", "borrow_mut")):
                    x = x[2][0]
                else:
                    break
            zero = x[0] == "call" and x[1].endswith("from_elem") and x[2][0][0] == "k" and x[2][0][1] == 0
            verdict = (zero, show(x)[:100]) if verdict is None or not zero else verdict
        root = f.root.split("::", 1)[1]
        if verdict and verdict[0]:
            ck.ok(R, "dst|%s" % root, {"fn": root, "dst": verdict[1]})
        else:
            ck.bad(R, "dst|%s" % root, "%s applies the migration patches onto %s, not onto a zero-filled buffer: cells that the edit added keep whatever that buffer held instead of starting from zero (the sibling runtime uses vec![0; total_size])" % (f.short, verdict[1] if verdict else "an unknown buffer"), f.where(t))


def _arg_leaves(e, out):
    if isinstance(e, tuple):
        if len(e) == 2 and e[0] == "arg" and isinstance(e[1], int):
            out.add(e[1])
            return
        if e and e[0] == "unk":
            out.add("unk:" + str(e[1]))
            return
        for x in e:
            _arg_leaves(x, out)


def rule_plan_provenance(ck, facts):
    R = "C07.provenance"
    ck.rule(R, "where the VM is resumed with a new program, the `old` layout given to the migration-plan builder is computed from the running machine only and the `new` layout from the new program only (no value of the other side, e.g. a function index, takes part in the look-up)")
    lang = facts.crate(roles.LANG)
    sites = []
    for f in lang.fns:
        if "::runtime::vm" not in f.path or f.kind == "promoted" or "::test" in f.path:
            continue
        for b, t in f.calls():
            if (callee(t) or "").endswith("build_state_storage_patch_plan"):
                sites.append((f, t))
    ck.floor(R, "vm_plan_builder_call_sites", len(sites), 1)
    for f, tt in sites:
        sx = SymEx(f, max_paths=128, max_steps=20000, facts=facts)
        try:
            paths = sx.run(0, stop_at_call=lambda n, t, tt=tt: t is tt)
        except PathLimit:
            paths = sx.paths
        hits = [p for p in paths if p.end == "stopcall"]
        key = "sides|%s" % f.short.split("::")[-1]
        if not hits or f.d.get("argc", 0) < 2:
            ck.bad(R, "unanalysable|%s" % f.short.split("::")[-1], "cannot reach the plan-builder call of %s symbolically" % f.short, f.where(tt))
            continue
        bad = None
        for p in hits:
            a = p.events[-1][2]
            old_l, new_l = set(), set()
            _arg_leaves(a[0], old_l)
            _arg_leaves(a[1], new_l)
            if old_l != {1} or new_l != {2}:
                bad = (sorted(map(str, old_l)), sorted(map(str, new_l)), show(a[1])[:160])
        if bad is None:
            ck.ok(R, key, {"old_from": "self", "new_from": "the new program"})
        else:
            ck.bad(R, key, "%s: the layouts handed to the migration-plan builder mix the two programs (old side reads arguments %s, new side reads arguments %s; self = 1, new program = 2; new side: %s): a look-up keyed by the other program's function index picks the wrong function's layout as soon as the edit moves `dsp` in the function table, and the state of untouched voices is dropped or mis-migrated" % (f.short, bad[0], bad[1], bad[2]), f.where(tt))


def rule_driver_provenance(ck, facts):
    """what the VM runtime records about the incoming program before it replaces the machine"""
    R = "C07.provenance"
    cands = []
    for cn in ("mimium_audiodriver",):
        try:
            fl = facts.crate(cn).fns
        except KeyError:
            continue
        for f in fl:
            if f.kind == "promoted" or "::test" in f.path:
                continue
            if any((callee(t) or "").endswith("vm::Machine::new_resume") for _, t in f.calls()):
                cands.append(f)
    ck.floor(R, "runtime_resume_sites", len(cands), 1)
    for f in cands:
        sx = SymEx(f, max_paths=64, max_steps=8000, facts=facts)
        try:
            paths = sx.run(0)
        except PathLimit:
            paths = sx.paths
        bad = None
        n = 0
        for p in paths:
            if p.end != "return":
                continue
            idx = [i for i, e in enumerate(p.events) if e[0] == "call" and e[1].endswith("vm::Machine::new_resume")]
            if not idx:
                continue
            for e in p.events[:idx[0]]:
                if e[0] != "store":
                    continue
                lhs = repr(e[1])
                if "('arg', 1)" not in lhs:
                    continue
                n += 1
                leaves = set()
                _arg_leaves(e[2], leaves)
                if leaves and leaves <= {1}:
                    bad = (show(e[1])[:80], show(e[2])[:140])
        key = "incoming|%s" % f.short.split("::")[-1]
        if bad is None:
            ck.ok(R, key, {"fn": f.short, "stores_before_the_machine_is_replaced": n})
        else:
            ck.bad(R, key, "%s records %s = %s before it replaces the machine: the value is computed from the program that is still running, not from the incoming one (e.g. the index of `dsp`). After an edit that moves `dsp` in the function table the runtime calls the wrong function as dsp" % (f.short, bad[0], bad[1]), f.where())


def run(ck, facts, tier):
    rule_driver_provenance(ck, facts)
    rule_send(ck, facts)
    rule_layout_carried(ck, facts)
    rule_zero_dst(ck, facts)
    rule_plan_provenance(ck, facts)
    # the plan and the layout it is computed from
    c08.rule_patch_sites(ck, facts)
    c08.rule_predicate(ck, facts)
    c08.rule_lcs(ck, facts)
    c08.rule_score_dominance(ck, facts)
    c08.rule_all_pairs(ck, facts)
    c08.rule_apply(ck, facts)
    c08.rule_addressing(ck, facts)
    c08.rule_fast_path(ck, facts)
    c08.rule_no_plan(ck, facts)
    c08.rule_source_size(ck, facts)
    c05.rule_order(ck, facts)
    # what runs on the new machine after the migrated state was installed must not cut it back
    from . import c06

    c06.rule_vm_post_install(ck, facts)
    ck.not_decided("which call sites an edit leaves untouched, and sample-exact continuity of channels that depend only on them")
