"""C16 — meaning is invariant under renaming, layout and agreeing annotations (narrow structural clauses)."""
from .. import roles
from ..cfg import reachable
from ..facts import KIND, callee
from ..rules import cover

LEVEL = "other"
EXPLANATION = (
    "Narrow structural necessary conditions, decided on MIR: (record-layout) every site of the MIR generator that turns a "
    "record field name into a slot index does so on the canonicalised (name-sorted) record type, for reads, writes and "
    "addresses alike — otherwise an agreeing type annotation that lists fields in another order changes which slot is "
    "accessed; (children) the name-resolution and desugaring passes visit every expression-bearing child of every Expr form "
    "they match (a skipped child is resolved differently from its siblings, so renaming or moving code into that position "
    "changes meaning); (labels) compiler-generated function labels are listed with the sites that look functions up by label. "
    "Whitespace/comment/parenthesis invariance depends on the chumsky tokenizer and the parser's behaviour on values and is not decided."
)
PASSES = (
    "compiler::mirgen::convert_qualified_names::convert_expr",
    "compiler::mirgen::convert_qualified_names::collect_defined_names",
    "compiler::mirgen::convert_pronoun::convert_recursively",
    "compiler::mirgen::recursecheck::convert_recurse",
    "compiler::mirgen::recursecheck::try_find_recurse",
)
EXPR_BEARING = ("ExprNodeId", "TypedId", "MatchArm", "RecordField", "TypedPattern")


def payload_fields_used(f, cov, v):
    tb = cov.arm_target(v)
    used = set()
    if tb is None:
        return used
    pl = cov.primary.place
    n = len(pl[1])
    for b in reachable(f, tb, stop=[cov.primary.block]):
        blk = f.bb[b]
        items = [s for s in blk["s"] if s[KIND] == "a"]
        for s in items:
            for place in _places_of(s):
                if place[0] == pl[0] and place[1][:n] == pl[1] and len(place[1]) >= n + 2:
                    d, fl = place[1][n], place[1][n + 1]
                    if isinstance(d, list) and d[0] == "d" and d[2] == v and isinstance(fl, list) and fl[0] == "f":
                        used.add(fl[1])
    return used


def _places_of(s):
    out = [s[4]]
    rv = s[5]
    if rv[0] in ("ref", "raw", "disc"):
        out.append(rv[1])
    elif rv[0] in ("use", "repeat") and rv[1][0] in ("cp", "mv"):
        out.append(rv[1][1])
    elif rv[0] == "agg":
        out += [o[1] for o in rv[2] if o[0] in ("cp", "mv")]
    elif rv[0] in ("un", "cast") and rv[2][0] in ("cp", "mv"):
        out.append(rv[2][1])
    return out


def rule_children(ck, facts):
    R = "C16.children"
    ck.rule(R, "in each resolution/desugaring pass, every arm for an Expr form reads every payload field of that form whose type carries sub-expressions")
    adt = facts.adt(roles.EXPR)
    fields = {v["n"]: v["f"] for v in adt["variants"]}
    n = 0
    for short in PASSES:
        f = facts.fn("mimium_lang::" + short)
        if f is None:
            ck.bad(R, "anchor|%s" % short, "pass %s not found" % short)
            continue
        cov = cover.coverage(facts, f, roles.EXPR)
        if cov is None:
            ck.bad(R, "anchor|match|%s" % short, "%s does not match on Expr" % short, f.where())
            continue
        for v in sorted(cov.primary_handled()):
            if cov.arm_diverges(v):
                continue
            used = payload_fields_used(f, cov, v)
            for i, (fname, fty) in enumerate(fields.get(v, [])):
                if not any(x in fty for x in EXPR_BEARING):
                    continue
                n += 1
                key = "child|%s|%s|%d" % (short.split("::")[-1], v, i)
                if i in used:
                    ck.ok(R, key)
                else:
                    ck.bad(R, key, "%s: the arm for Expr::%s never reads payload field %d (%s): sub-expressions stored there are not visited by this pass, so names inside them are resolved/desugared differently from the rest of the program" % (short, v, i, fty[:60]), f.where())
    ck.floor(R, "expression_bearing_children_checked", n, 120)


def rule_record_layout(ck, facts):
    R = "C16.record-layout"
    ck.rule(R, "every function of the MIR generator that computes a record field's slot with Iterator::position (inside or outside a closure) canonicalises the record type first (canonical_record_type_id / canonicalize_record_layout_type): reads, writes and addresses agree on the name-sorted layout")
    lang = facts.crate(roles.LANG)
    n = 0
    for f in lang.fns:
        if "::compiler::mirgen::Context::" not in f.path or f.kind != "assoc":
            continue
        cov = cover.coverage(facts, f, roles.EXPR)
        arms = [(None, 0, None)]
        if cov and len(cov.primary_handled()) > 3:
            arms = [(v, cov.arm_target(v), cov) for v in sorted(cov.primary_handled())]
        for v, tb, c in arms:
            region = reachable(f, tb, stop=[c.primary.block]) if c else reachable(f, tb)
            calls = [(callee(f.term(b)) or "") for b in region if f.term(b)[KIND] == "call"]
            keyed = [x for x in calls if x.endswith("::position")]
            # position over record fields: the arm also mentions RecordTypeField / Type::Record
            if not keyed:
                continue
            mentions_record = any("Record" in (s[5][2] if s[5][0] == "disc" else "") or (s[5][0] == "disc" and "types::Type" in s[5][2]) for b in region for s in f.stmts(b) if s[KIND] == "a")
            closures = [facts.fn(s[5][1][1]) for b in region for s in f.stmts(b) if s[KIND] == "a" and s[5][0] == "agg" and s[5][1][0] == "closure"]
            rec_closure = any(g is not None and any("RecordTypeField" in t for t in g.d["locals"]) for g in closures)
            if not rec_closure:
                continue
            n += 1
            canon = any("canonical" in x.split("::")[-1] and "record" in x.split("::")[-1] for x in calls)
            key = "slot|%s|%s" % (f.short.split("::")[-1], v or "-")
            if canon:
                ck.ok(R, key, {"fn": f.short, "arm": v})
            else:
                ck.bad(R, key, "%s%s looks a record field up by name in the type's own field order, without canonicalising the record type: with a type annotation that lists the fields in a different order the wrong slot is accessed" % (f.short, (" (arm %s)" % v) if v else ""), f.where())
    ck.floor(R, "record_slot_lookups", n, 2)


def rule_labels(ck, facts):
    R = "C16.labels"
    ck.rule(R, "inventory: formatted function labels (lambda_N, default-argument getters, monomorphisation suffixes) and the sites that compare functions by label")
    lang = facts.crate(roles.LANG)
    fmt_sites = 0
    cmp_sites = []
    for f in lang.fns:
        if "::compiler::mirgen" not in f.path or f.kind == "promoted":
            continue
        for b, t in f.calls():
            c = callee(t) or ""
            if c.endswith("fmt::format"):
                fmt_sites += 1
            if c.endswith("get_fun_index") or c.endswith("find_function_by_label"):
                cmp_sites.append(f.short)
    ck.setcount("label_formatting_sites_in_mirgen", fmt_sites)
    ck.note("functions looked up by label in: %s" % sorted(set(cmp_sites))[:8])
    ck.ok(R, "inventory", {"formatting_sites": fmt_sites, "lookup_sites": len(cmp_sites)})


def run(ck, facts, tier):
    rule_record_layout(ck, facts)
    rule_children(ck, facts)
    rule_labels(ck, facts)
    ck.not_decided("invariance under whitespace, comments, line breaks and redundant parentheses (behaviour of the chumsky tokenizer and of the parser on concrete texts)")
    ck.not_decided("that adding an agreeing annotation never changes inference results")
