"""C16 — meaning is invariant under renaming, layout and agreeing annotations (narrow structural clauses)."""
from .. import roles
from ..cfg import reachable
from ..facts import KIND, callee, place_fields
from ..rules import cover
from ..symex import PathLimit, SymEx, show

LEVEL = "other"
EXPLANATION = (
    "Narrow structural necessary conditions, decided on MIR: (record-layout) every site of the MIR generator that turns a "
    "record field name into a slot index does so on the canonicalised (name-sorted) record type, for reads, writes and "
    "addresses alike — otherwise an agreeing type annotation that lists fields in another order changes which slot is "
    "accessed; (children) the name-resolution and desugaring passes visit every expression-bearing child of every Expr form "
    "they match (a skipped child is resolved differently from its siblings, so renaming or moving code into that position "
    "changes meaning); (labels) compiler-generated function labels are listed with the sites that look functions up by label. "
    "Whitespace/comment/parenthesis invariance depends on the chumsky tokenizer and the parser's behaviour on values and is not decided."
)
PASS_MODULES = ("::mirgen::convert_qualified_names::", "::mirgen::convert_pronoun::", "::mirgen::recursecheck::")
PASSES = (
    "compiler::mirgen::convert_qualified_names::convert_expr",
    "compiler::mirgen::convert_qualified_names::collect_defined_names",
    "compiler::mirgen::convert_pronoun::convert_recursively",
    "compiler::mirgen::recursecheck::convert_recurse",
    "compiler::mirgen::recursecheck::try_find_recurse",
)
EXPR_BEARING = ("ExprNodeId", "TypedId", "MatchArm", "RecordField", "TypedPattern")


def payload_fields_used(f, cov, v):
    tb = cov.arm_target(v)
    used = set()
    if tb is None:
        return used
    pl = cov.primary.place
    n = len(pl[1])
    for b in reachable(f, tb, stop=[cov.primary.block]):
        blk = f.bb[b]
        items = [s for s in blk["s"] if s[KIND] == "a"]
        for s in items:
            for place in _places_of(s):
                if place[0] == pl[0] and place[1][:n] == pl[1] and len(place[1]) >= n + 2:
                    d, fl = place[1][n], place[1][n + 1]
                    if isinstance(d, list) and d[0] == "d" and d[2] == v and isinstance(fl, list) and fl[0] == "f":
                        used.add(fl[1])
    return used


def _places_of(s):
    out = [s[4]]
    rv = s[5]
    if rv[0] in ("ref", "raw", "disc"):
        out.append(rv[1])
    elif rv[0] in ("use", "repeat") and rv[1][0] in ("cp", "mv"):
        out.append(rv[1][1])
    elif rv[0] == "agg":
        out += [o[1] for o in rv[2] if o[0] in ("cp", "mv")]
    elif rv[0] in ("un", "cast") and rv[2][0] in ("cp", "mv"):
        out.append(rv[2][1])
    return out


def rule_children(ck, facts):
    R = "C16.children"
    ck.rule(R, "in each resolution/desugaring pass, every arm for an Expr form reads every payload field of that form whose type carries sub-expressions")
    adt = facts.adt(roles.EXPR)
    fields = {v["n"]: v["f"] for v in adt["variants"]}
    n = 0
    # the passes by role: in the three resolution / desugaring modules, every function that dispatches on Expr over at
    # least fifteen forms (the walks over the whole expression language)
    found = []
    for g in facts.crate(roles.LANG).fns:
        if g.kind != "fn" or "::test" in g.path or not any(m in g.path for m in PASS_MODULES):
            continue
        cvg = cover.coverage(facts, g, roles.EXPR)
        if cvg is None or cvg.primary is None or len(cvg.primary_handled()) < 15:
            continue  # a walk over (nearly) the whole expression language, not a helper for one form
        found.append(g)
    ck.floor(R, "resolution_and_desugaring_walks", len(found), 5)
    for f in found:
        short = f.short
        cov = cover.coverage(facts, f, roles.EXPR)
        for v in sorted(cov.primary_handled()):
            if cov.arm_diverges(v):
                continue
            used = payload_fields_used(f, cov, v)
            for i, (fname, fty) in enumerate(fields.get(v, [])):
                if not any(x in fty for x in EXPR_BEARING):
                    continue
                n += 1
                key = "child|%s|%s|%d" % (short.split("::")[-1], v, i)
                if i in used:
                    ck.ok(R, key)
                else:
                    ck.bad(R, key, "%s: the arm for Expr::%s never reads payload field %d (%s): sub-expressions stored there are not visited by this pass, so names inside them are resolved/desugared differently from the rest of the program" % (short, v, i, fty[:60]), f.where())
    ck.floor(R, "expression_bearing_children_checked", n, 120)


def rule_optional_children(ck, facts):
    """`name [: type] [= default]`: the lowering walks the optional children of a node with a cursor"""
    R = "C16.children"
    lang = facts.crate(roles.LANG)
    n = 0
    for f in lang.fns:
        if "::parser::lower::" not in f.path or f.kind == "promoted" or "::test" in f.path:
            continue
        # functions that test the syntax kind of an indexed child against constants at least twice
        tests = [t for _, t in f.calls() if (callee(t) or "").split("::")[-1] in ("eq", "ne") and "SyntaxKind" in repr(t[4])]
        if len(tests) < 2:
            continue
        sx = SymEx(f, max_paths=600, max_steps=60000, facts=facts, track_index=True)
        try:
            paths = sx.run(0)
        except PathLimit:
            paths = sx.paths
        stale = None
        m = 0
        for p in paths:
            known = {}  # tested expression (with its index value) -> constant it is known to equal on this path
            for ce, v, pos in p.conds:
                if not (ce[0] == "call" and ce[1].split("::")[-1] == "eq" and len(ce[2]) == 2):
                    continue
                lhs, rhs = ce[2]
                if "idx" not in repr(lhs) or "SyntaxKind" not in repr(rhs):
                    continue
                truth = (pos and v not in (0, (0,))) or ((not pos) and tuple(v if isinstance(v, tuple) else (v,)) == (0,))
                m += 1
                k = repr(lhs)
                if k in known and known[k] != repr(rhs) and stale is None:
                    stale = (lhs, known[k], rhs)
                if truth:
                    known[k] = repr(rhs)
        if not m:
            continue
        n += 1
        key = "optional-children|%s" % (f.root.split("::")[-1] if f.kind == "closure" else f.short.split("::")[-1])
        if stale:
            ck.bad(R, key, "%s: a child that was just recognised (and used) as %s is tested again for %s without the cursor having moved: when both optional parts are written the second one is looked for in the place of the first and is dropped (`x: float = 1.0` loses its default, `x = 1.0` keeps it) — an agreeing annotation changes the program" % (f.short, stale[1][-44:], repr(stale[2])[-44:]), f.where())
        else:
            ck.ok(R, key, {"fn": f.short})
    ck.floor(R, "cursor_walks_over_optional_children", n, 1)


def rule_record_layout(ck, facts):
    R = "C16.record-layout"
    ck.rule(R, "every function of the MIR generator that computes a record field's slot with Iterator::position (inside or outside a closure) canonicalises the record type first (canonical_record_type_id / canonicalize_record_layout_type): reads, writes and addresses agree on the name-sorted layout")
    lang = facts.crate(roles.LANG)
    n = 0
    for f in lang.fns:
        if "::compiler::mirgen::Context::" not in f.path or f.kind != "assoc":
            continue
        cov = cover.coverage(facts, f, roles.EXPR)
        arms = [(None, 0, None)]
        if cov and len(cov.primary_handled()) > 3:
            arms = [(v, cov.arm_target(v), cov) for v in sorted(cov.primary_handled())]
        for v, tb, c in arms:
            region = reachable(f, tb, stop=[c.primary.block]) if c else reachable(f, tb)
            calls = [(callee(f.term(b)) or "") for b in region if f.term(b)[KIND] == "call"]
            keyed = [x for x in calls if x.endswith("::position")]
            # position over record fields: the arm also mentions RecordTypeField / Type::Record
            if not keyed:
                continue
            mentions_record = any("Record" in (s[5][2] if s[5][0] == "disc" else "") or (s[5][0] == "disc" and "types::Type" in s[5][2]) for b in region for s in f.stmts(b) if s[KIND] == "a")
            closures = [facts.fn(s[5][1][1]) for b in region for s in f.stmts(b) if s[KIND] == "a" and s[5][0] == "agg" and s[5][1][0] == "closure"]
            rec_closure = any(g is not None and any("RecordTypeField" in t for t in g.d["locals"]) for g in closures)
            if not rec_closure:
                continue
            n += 1
            canon = any("canonical" in x.split("::")[-1] and "record" in x.split("::")[-1] for x in calls)
            key = "slot|%s|%s" % (f.short.split("::")[-1], v or "-")
            if canon:
                ck.ok(R, key, {"fn": f.short, "arm": v})
            else:
                ck.bad(R, key, "%s%s looks a record field up by name in the type's own field order, without canonicalising the record type: with a type annotation that lists the fields in a different order the wrong slot is accessed" % (f.short, (" (arm %s)" % v) if v else ""), f.where())
    ck.floor(R, "record_slot_lookups", n, 2)


def rule_labels(ck, facts):
    R = "C16.labels"
    ck.rule(R, "inventory: formatted function labels (lambda_N, default-argument getters, monomorphisation suffixes) and the sites that compare functions by label")
    lang = facts.crate(roles.LANG)
    fmt_sites = 0
    cmp_sites = []
    for f in lang.fns:
        if "::compiler::mirgen" not in f.path or f.kind == "promoted":
            continue
        for b, t in f.calls():
            c = callee(t) or ""
            if c.endswith("fmt::format"):
                fmt_sites += 1
            if c.endswith("get_fun_index") or c.endswith("find_function_by_label"):
                cmp_sites.append(f.short)
    ck.setcount("label_formatting_sites_in_mirgen", fmt_sites)
    ck.note("functions looked up by label in: %s" % sorted(set(cmp_sites))[:8])
    ck.ok(R, "inventory", {"formatting_sites": fmt_sites, "lookup_sites": len(cmp_sites)})


TOKENKIND = "mimium_lang::compiler::parser::token::TokenKind"


def rule_name_spelling(ck, facts):
    R = "C16.name-spelling"
    ck.rule(R, "the lowering from CST to AST classifies an identifier only by comparing its whole text with a reserved spelling (`_`): no prefix / suffix / substring test (`starts_with`, `ends_with`, `contains`, `strip_prefix`, `find` ...) on a token's text, because such a test makes the meaning of a program depend on how its variables are spelt")
    lang = facts.crate(roles.LANG)
    from ..rules.chainwalk import taint
    CLASS = ("starts_with", "ends_with", "contains", "strip_prefix", "strip_suffix", "find", "rfind", "matches", "trim_start_matches", "trim_end_matches", "split_once")
    n = 0
    for f in lang.fns:
        if "::compiler::parser::lower::" not in f.path or f.kind == "promoted" or "::test" in f.path:
            continue
        seeds = [t[6][0] for _, t in f.calls() if (callee(t) or "").split("::")[-1] in ("text_of_first_token", "token_text", "text", "text_of_token") and t[6] is not None]
        if not seeds:
            continue
        n += 1
        T = taint(f, seeds)
        bad = None
        for b, t in f.calls():
            c = callee(t) or ""
            if c.split("::")[-1] in CLASS and ("str" in c or "String" in c) and t[5] and t[5][0][0] in ("cp", "mv") and t[5][0][1][0] in T:
                bad = (t, c.split("::")[-1])
        key = "text|%s" % f.short.split("::")[-1]
        if bad is None:
            ck.ok(R, key)
        else:
            ck.bad(R, key, "%s classifies a token's text with `%s`: every identifier with that spelling property is treated specially (e.g. any `let` name beginning with `_` becomes a placeholder and binds nothing), so renaming a variable changes the program" % (f.short, bad[1]), f.where(bad[0]))
    ck.floor(R, "lowering_functions_reading_token_text", n, 5)
    # the same for the stages that handle names as symbols after the lowering: the macro-stage combinators rebuild
    # binders from their names (`_` alone is the placeholder), the staging translation passes names on as strings
    m = 0
    for f in lang.fns:
        if not any(x in f.path for x in ("::plugin::codegen_combinators", "::compiler::translate_staging")) or f.kind == "promoted" or "::test" in f.path:
            continue
        seeds = [t[6][0] for _, t in f.calls() if (callee(t) or "").split("::")[-1] == "as_str" and "Symbol" in (callee(t) or "") and t[6] is not None]
        if not seeds:
            continue
        m += 1
        T = taint(f, seeds)
        bad = None
        for b, t in f.calls():
            c = callee(t) or ""
            if c.split("::")[-1] in CLASS and ("str" in c or "String" in c) and t[5] and t[5][0][0] in ("cp", "mv") and t[5][0][1][0] in T:
                bad = (t, c.split("::")[-1])
        key = "symbol|%s" % f.short.split("::", 2)[-1]
        if bad is None:
            ck.ok(R, key)
        else:
            ck.bad(R, key, "%s classifies a name with `%s`: every binder with that spelling property is treated as the placeholder (e.g. a tuple binder `_a` in quoted code is dropped from the generated `let`, and its uses resolve to a variable of the same name at the use site), so renaming a binder changes the program" % (f.short, bad[1]), f.where(bad[0]))
    ck.floor(R, "staging_functions_reading_names", m, 3)


_PM = {}


def _consumes(facts, f):
    """does f call one of the parser's consuming primitives (found by role in rules/cursor.py)?"""
    from ..rules.cursor import ParserModel

    pm = _PM.get(id(facts))
    if pm is None:
        pm = _PM[id(facts)] = ParserModel(facts)
    prim = set(pm.expecters) | set(pm.wrappers) | ({pm.bump.path} if pm.bump is not None else set())
    return any((callee(t) or "") in prim for _, t in f.calls())


def rule_linebreak_uniform(ck, facts):
    R = "C16.linebreak"
    ck.rule(R, "whether an expression continues after a line break is decided from the next token only through the infix-precedence table: no parser method that feeds that decision singles out a token kind that the table lists as an infix operator (a binary `-` at the start of a line inside brackets must continue the expression like `+` does)")
    lang = facts.crate(roles.LANG)
    # the infix-precedence table by role: the parser method that dispatches on TokenKind over the operator kinds and
    # answers with an optional numeric precedence (`Option<usize>` / `Option<u8>` ...)
    prec = []
    for g in lang.fns:
        if "::parser::cst_parser::" in g.path and g.kind == "assoc" and "Option<u" in g.local_ty(0):
            cvp = cover.coverage(facts, g, TOKENKIND)
            if cvp is not None and cvp.primary is not None and {"OpSum", "OpProduct"} <= set(cvp.primary_handled()):
                prec.append(g)
    ck.require(R, len(prec) >= 1, "anchor|get_infix_precedence", "infix precedence table not found")
    if not prec:
        return
    pcov = cover.coverage(facts, prec[0], TOKENKIND)
    ck.require(R, pcov is not None, "anchor|precedence-match", "get_infix_precedence does not match on TokenKind")
    if pcov is None:
        return
    infix = set()
    for v in pcov.primary_handled():
        if v in getattr(pcov, "catchall", ()):
            continue
        infix.add(v)
    ck.floor(R, "infix_operator_kinds", len(infix), 8)
    # methods that take part in the decision: those that call has_trailing_linebreak, and bool/Option helpers they call
    # which look at the next token
    parser_fns = [f for f in lang.fns if "::parser::cst_parser::" in f.path and f.kind != "promoted" and "::test" not in f.path]
    deciders = [f for f in parser_fns if any((callee(t) or "").endswith("::has_trailing_linebreak") for _, t in f.calls())]
    helpers = set()
    for f in deciders:
        for _, t in f.calls():
            g = facts.fn(callee(t) or "")
            if g is not None and g in parser_fns and g.local_ty(0) == "bool" and g.path != prec[0].path and any((callee(t2) or "").endswith("::peek") for _, t2 in g.calls()):
                helpers.add(g.path)
    n = 0
    for f in parser_fns:
        if f.path not in helpers:
            continue
        n += 1
        cov = cover.coverage(facts, f, TOKENKIND)
        singled = sorted(v for v in (cov.primary_handled() if cov else ()) if v in infix and v not in getattr(cov, "catchall", ()))
        key = "helper|%s" % f.short.split("::")[-1]
        if singled:
            ck.bad(R, key, "%s, which decides whether an expression continues on the next line, treats %s apart from the other infix operators: `(a<newline> - b)` no longer parses as one expression while `(a<newline> + b)` does, so a line break changes the program" % (f.short, singled), f.where())
        else:
            ck.ok(R, key)
    ck.floor(R, "linebreak_deciders", len(deciders), 1)
    ck.setcount("linebreak_helper_methods", n)



def rule_element_type(ck, facts, R="C16.annotation"):
    """a sub-pattern is bound with its own type, not with the annotation of the pattern around it"""
    from ..cfg import DefIndex
    from ..rules import patcover

    ck.rule(R, "element-type: where a walk over `Pattern` hands a sub-pattern back to itself wrapped in a new TypedPattern (from inside a closure that the walk creates per element), the type put into that TypedPattern is made for the element (the result of a call in the closure) — not the type of the enclosing pattern, which the closure can only see as a captured variable: with `let (d, e): (float, float) = ..` the elements would be typed as the whole tuple, and only annotated destructuring is affected")
    lang = facts.crate(roles.LANG)
    n = 0
    walkers = {c.fn.path for c in cover.find_matchers(facts, roles.LANG, patcover.PAT)}
    for g in lang.fns:
        if g.kind != "closure" or "::compiler::" not in g.path or "::test" in g.path or g.root not in walkers:
            continue
        if not any((callee(t) or "") == g.root for _, t in g.calls()):
            continue
        di = None
        for b, t in g.calls():
            if not (callee(t) or "").endswith("TypedPattern::new") or len(t[5]) < 2:
                continue
            di = di or DefIndex(g)
            r = di.resolve(t[5][1])
            for _ in range(4):  # `*r` where r is itself a copy of the captured reference
                if r[0] == "place" and r[1][0] != 1:
                    r2 = di.resolve(["cp", [r[1][0], []]])
                    if r2[0] in ("place", "call", "rv", "const"):
                        r = r2
                        continue
                break
            n += 1
            key = "element-type|%s" % (g.root.split("::", 1)[1] if "::" in g.root else g.root)
            if r[0] == "place" and r[1][0] == 1:
                ck.bad(R, key, "%s wraps each sub-pattern in a TypedPattern that carries a variable captured from the enclosing call — the declared type of the whole pattern — instead of a type made for the element: without an annotation that type is unknown and nothing happens, with an agreeing annotation on a destructuring `let` every element is typed as the whole aggregate (type error, or wrong words at run time)" % g.short, g.where(t))
            else:
                ck.ok(R, key, {"closure": g.short, "type_from": r[0]})
    ck.floor(R, "sub_pattern_rewraps", n, 1)



def rule_trivia_scan(ck, facts, R="C16.linebreak"):
    """whether a line break follows a token does not depend on the comments and blanks around it"""
    from ..cfg import DefIndex, natural_loops

    ck.rule(R, "trivia-scan: the parser methods that answer `is there a line break behind this token` (bool methods of the CST parser that read the trailing-trivia map) look at every trivia token recorded there: the scanning loop is left only when a line break was found (the `true` answer) or when the list is exhausted — not at the first comment or blank, which would make the statement boundary depend on a comment")
    lang = facts.crate(roles.LANG)
    n = 0
    for f in lang.fns:
        if "::parser::cst_parser::" not in f.path or f.kind != "assoc" or f.local_ty(0) != "bool" or "::test" in f.path:
            continue
        reads = any(any((x or "").endswith("trailing_trivia_map") for pl in _places_of(st)[1:] for x in place_fields(pl)) for _, st in f.all_stmts() if st[KIND] == "a")
        if not reads:
            continue
        di = DefIndex(f)
        # the scan written with iterator adaptors: `any(is_linebreak)` looks at every element until it finds one; an
        # adaptor that cuts the sequence short on another condition is the same defect as an early `break`
        CUT = ("take_while", "skip_while", "map_while", "take", "skip", "find", "find_map", "position", "nth", "first", "last", "next", "step_by")
        fam = facts.family(roles.LANG, f.root)
        anys = [(g, t) for g in fam for _, t in g.calls() if (callee(t) or "").split("::")[-1].split("<")[0] == "any" and "iter" in (callee(t) or "").lower()]
        cuts = [(g, t) for g in fam for _, t in g.calls() if (callee(t) or "").split("::")[-1].split("<")[0] in CUT and ("Iterator" in (callee(t) or "") or "iter::" in (callee(t) or "") or "slice" in (callee(t) or ""))]
        if anys and not natural_loops(f):
            n += len(anys)
            key = "trivia-scan|%s" % f.short.split("::")[-1]
            if cuts:
                g, t = cuts[0]
                ck.bad(R, key, "%s cuts the sequence of trivia tokens it scans with `%s` before asking whether one of them is a line break: a comment between the token and the line break hides the break — adding or moving a comment changes where a statement ends" % (f.short, (callee(t) or "").split("::")[-1]), g.where(t))
            else:
                ck.ok(R, key, {"method": f.short.split("::")[-1], "scan": "any over the whole list"})
            continue
        for h, body in natural_loops(f):
            n += 1
            bad = None
            for x in sorted(body):
                for y in f.succs(x):
                    if y in body or f.is_cleanup(y):
                        continue
                    t = f.term(x)
                    # (a) the iterator is exhausted
                    if t[KIND] == "switch" and t[4][0] in ("cp", "mv"):
                        r = di.resolve(t[4])
                        if r[0] == "rv" and r[1][5][0] == "disc":
                            r2 = di.resolve(["cp", [r[1][5][1][0], []]])
                            if r2[0] == "call" and (callee(r2[1]) or "").split("::")[-1] == "next":
                                continue
                    # (b) the answer `true`
                    z, ok = y, False
                    for _ in range(12):
                        for st in f.stmts(z):
                            if st[KIND] == "a" and st[4] == [0, []] and st[5][0] == "use" and st[5][1][0] == "c" and str(st[5][1][3]).lower() in ("true", "1"):
                                ok = True
                        ss = [q for q in f.succs(z) if not f.is_cleanup(q)]
                        if ok or len(ss) != 1:
                            break
                        z = ss[0]
                    if ok:
                        continue
                    bad = (x, y)
            key = "trivia-scan|%s" % f.short.split("::")[-1]
            if bad is None:
                ck.ok(R, key, {"method": f.short.split("::")[-1]})
            else:
                ck.bad(R, key, "%s stops scanning the trivia behind a token before it reached a line break or the end of the list (an exit of the loop that is neither): a comment between the token and the line break hides the break, so `foo // note` followed by a line starting with `(` is read as the call `foo(..)` — adding or moving a comment changes the program" % f.short, f.where(f.term(bad[0])))
    ck.floor(R, "trivia_scanning_loops", n, 1)


def run(ck, facts, tier):
    rule_optional_children(ck, facts)
    rule_record_layout(ck, facts)
    rule_children(ck, facts)
    rule_labels(ck, facts)
    rule_name_spelling(ck, facts)
    rule_linebreak_uniform(ck, facts)
    rule_trivia_scan(ck, facts)
    from ..rules import invented

    invented.run(ck, facts, "C16.invented-names")
    rule_lookahead_nesting(ck, facts)
    rule_block_scope(ck, facts)
    rule_annotation_ambiguity(ck, facts)
    rule_element_type(ck, facts)
    # redundant parentheses: `(x = e)` is two sibling nodes inside the ParenExpr; the lowering of every kind whose parser
    # calls parse_expr() must join them (shared with C04)
    from . import c04 as _c04

    _c04.rule_assignment_protocol(ck, facts, only_kinds=("ParenExpr",))
    # a comment must end where the comment ends, or adding / editing one changes the program (model of the tokenizer's
    # comment combinators, shared with C13)
    from . import c13

    c13.rule_comment_lexer(ck, facts, tier)
    # whether a definition is recursive must not depend on how its local binders are spelt
    from ..rules import exprwalk
    from ..facts import callee as _callee

    lang_ = facts.crate(roles.LANG)
    near = set()
    for g in lang_.fns:
        if "::mirgen::recursecheck::" in g.path and g.kind == "fn":
            cvx = cover.coverage(facts, g, roles.EXPR)
            if cvx is not None and cvx.primary is not None and "LetRec" in cvx.primary_handled():
                for _, t in g.calls():
                    near.add(_callee(t) or "")
    exprwalk.run_gating(ck, facts, "C10.recursion-gating", only=lambda f: f.path in near)
    # layout: what the tokenizer makes of a text must not depend on blanks between tokens
    c13.rule_lexer_model(ck, facts, tier, clauses=("munch", "layout"))
    ck.not_decided("invariance under whitespace, line breaks and redundant parentheses (behaviour of the rest of the chumsky tokenizer and of the parser on concrete texts)")
    ck.not_decided("that adding an agreeing annotation never changes inference results")


def rule_lookahead_nesting(ck, facts):
    """`(x)` and `(x, y)` are told apart by scanning ahead for a comma at nesting depth 0"""
    from ..cfg import reachable
    from ..rules import cover

    R = "C16.lookahead-nesting"
    ck.rule(R, "a look-ahead scan of the CST parser that keeps a nesting depth and reacts to a comma at depth 0 counts every bracket pair of the token alphabet (all `*Begin` kinds open, all `*End` kinds close): a scan that only counts parentheses takes the comma inside `({a = 1, b = 2})` or `([1, 2])` for its own, so redundant parentheses around a record / array / multi-parameter lambda turn the expression into a one-element tuple")
    lang = facts.crate(roles.LANG)
    adt = facts.adt(TOKENKIND)
    opens = {v["n"] for v in adt["variants"] if v["n"].endswith("Begin")}
    closes = {v["n"] for v in adt["variants"] if v["n"].endswith("End") and not v["n"].endswith("BeginEnd")}
    n = 0
    for f in lang.fns:
        if "::parser::cst_parser::" not in f.path or f.kind == "promoted":
            continue
        cov = cover.coverage(facts, f, TOKENKIND)
        if not cov or cov.primary is None or "Comma" not in cov.primary_handled():
            continue
        if _consumes(facts, f):
            continue  # a parsing function, not a pure look-ahead
        inc, dec = set(), set()
        for v in cov.primary_handled():
            tb = cov.arm_target(v)
            if tb is None:
                continue
            region = reachable(f, tb, stop=[cov.primary.block])
            for b in region:
                for st in f.stmts(b):
                    if st[KIND] == "a" and st[5][0] == "bin" and st[5][1] in ("add", "add_ov", "sub", "sub_ov") and st[5][3][0] == "c":
                        (inc if st[5][1].startswith("add") else dec).add(v)
        # the increments of a depth counter are the arms of bracket kinds; other arithmetic (the loop index) sits
        # outside the arms
        inc &= opens | closes
        dec &= opens | closes
        if not inc and not dec:
            continue
        n += 1
        # (deciders) the scan answers at a comma, at its own closing bracket or at the end of the look-ahead window; an
        # explicit arm for any other kind of token (an operator such as `->`) decides "tuple or not" from something that
        # can stand inside the first element
        explicit = set(cov.primary_handled()) - set(getattr(cov, "catchall", ()))
        extra = sorted(k for k in explicit - opens - closes - {"Comma"} if not k.endswith("BeginEnd"))
        if extra:
            ck.bad(R, "deciders|%s" % f.root.split("::")[-1], "%s decides whether a parenthesis holds a list by an explicit case for %s: such a token can occur inside the first element (`((float)->float, float)`), and the list is then read as a single parenthesised item although its elements, written the same way, are accepted elsewhere" % (f.short, extra), f.where())
        else:
            ck.ok(R, "deciders|%s" % f.root.split("::")[-1])
        key = "depth|%s" % f.short.split("::", 3)[-1]
        missing = sorted((opens - inc) | (closes - dec))
        if not missing:
            ck.ok(R, key, {"opens": sorted(inc), "closes": sorted(dec)})
        else:
            ck.bad(R, key, "%s scans ahead for a comma at depth 0 but its depth only follows %s: %s are not counted, so a comma inside such brackets is taken for a separator of the enclosing parenthesis — `({a = 1.0, b = 2.0})` and `(|x, y| x + y)` become one-element tuples and the compiler panics on the field access / call" % (f.short, sorted(inc | dec), missing), f.where())
    ck.floor(R, "comma_lookahead_scans", n, 2)


def rule_block_scope(ck, facts):
    """sibling cross-check of the two walks over Expr that keep a binding environment"""
    from ..cfg import reachable
    from ..rules import cover

    R = "C16.block-scope"
    ck.rule(R, "the type checker opens a scope for a block (`env.extend()` … `env.to_outer()` around the body of Expr::Block); the MIR generator keeps its own environment of value bindings, so its Block arm must also take back what the body bound (leave a scope, or truncate / pop the current one): otherwise a `let` inside `{ .. }` replaces an outer binding of the same name for the rest of the function, and renaming the inner binder changes the output")
    lang = facts.crate(roles.LANG)
    n = 0
    for want, path_part, field in (("type checker", "::compiler::typing::", "InferContext::InferContext::env"), ("MIR generator", "::compiler::mirgen::Context", "Context::Context::valenv")):
        best = None
        for f in lang.fns:
            if path_part not in f.path or f.kind == "promoted" or "::test" in f.path:
                continue
            cov = cover.coverage(facts, f, roles.EXPR)
            if cov and cov.primary is not None and "Block" in cov.primary_handled() and len(cov.primary_handled()) >= 15:
                if best is None or len(cov.primary_handled()) > len(best[1].primary_handled()):
                    best = (f, cov)
        ck.require(R, best is not None, "anchor|%s" % want.replace(" ", "-"), "the %s's walk over Expr (an arm for Block among >= 15 arms) was not found" % want)
        if best is None:
            continue
        f, cov = best
        tb = cov.arm_target("Block")
        region = reachable(f, tb, stop=[cov.primary.block])
        members = [(f, region)]
        for b in region:
            for st in f.stmts(b):
                if st[KIND] == "a" and st[5][0] == "agg" and st[5][1][0] == "closure":
                    g = facts.fn(st[5][1][1])
                    if g is not None:
                        members.append((g, None))
        restores = []
        for g, reg in members:
            for b, t in g.calls():
                if reg is not None and b not in reg:
                    continue
                nm = (callee(t) or "").split("::")[-1]
                if nm in ("to_outer", "truncate", "pop_front", "pop", "pop_scope", "split_off", "clear"):
                    restores.append(nm)
        n += 1
        key = "block|%s" % want.replace(" ", "-")
        # the restoration is unconditional with respect to the body: no branch on the discriminant of an Expr
        # (the shape of the block's body) may decide whether it happens
        from ..cfg import DefIndex, dominators
        dom = dominators(f)
        di = DefIndex(f)
        shape_guard = None
        for b, t in f.calls():
            if b not in region or (callee(t) or "").split("::")[-1] not in ("to_outer", "truncate", "pop_front", "pop", "pop_scope", "split_off", "clear"):
                continue
            for d in dom.get(b, ()):
                if d == b or d not in region or f.term(d)[KIND] != "switch" or f.term(d)[4][0] not in ("cp", "mv"):
                    continue
                r = di.resolve(f.term(d)[4])
                if r[0] == "rv" and r[1][5][0] == "disc" and r[1][5][2].endswith("ast::Expr"):
                    shape_guard = t
        if restores and shape_guard is not None:
            ck.bad(R, key, "%s takes the block's bindings back only for some shapes of the body (the restoring call is under a test of the body's Expr variant): a block whose first statement is an expression (`{ f(x)  let y = 0.5  .. }`, a `Then` chain) keeps its `let` in the enclosing environment" % f.short, f.where(shape_guard))
        elif restores:
            ck.ok(R, key, {"walk": f.short, "restores_with": sorted(set(restores))})
        else:
            ck.bad(R, key, "%s (the %s's walk over Expr) evaluates the body of a block and never takes back the bindings the body added (no to_outer / truncate / pop in the Block arm): `let x = 1.0  let y = { let x = 2.0  x }  x + y` gives 4.0, and 3.0 once the inner binder is renamed" % (f.short, want), f.where(f.term(tb)))
    ck.floor(R, "environment_walks", n, 2)


def rule_annotation_ambiguity(ck, facts):
    """`|` separates the members of a union type and closes a lambda's parameter list"""
    from ..rules import cover

    R = "C16.annotation-ambiguity"
    ck.rule(R, "after a type, the CST parser continues a union type when `|` is followed by a token that can start a type. `|` also closes the parameter list of a lambda, whose body is an expression. A token kind that the continuation test accepts without further look-ahead and that can also start an expression makes `|x: T| <body>` unparsable exactly when the parameter is annotated: adding an agreeing annotation changes whether the program compiles")
    lang = facts.crate(roles.LANG)
    fns = [f for f in lang.fns if "::parser::cst_parser::" in f.path and f.kind != "promoted"]
    # (1) the union parser: its family mentions SyntaxKind::UnionType; the predicate it calls: a bool, bump-free callee
    union = [f for f in fns if any(st[KIND] == "a" and "UnionType" in repr(st[5]) for _, st in f.all_stmts()) or any("UnionType" in repr(t[5]) for _, t in f.calls())]
    preds = []
    for f in union:
        for _, t in f.calls():
            g = facts.fn(callee(t) or "")
            if g is not None and g in fns and g.local_ty(0) == "bool" and not _consumes(facts, g):
                cov = cover.coverage(facts, g, TOKENKIND)
                if cov and cov.primary is not None:
                    preds.append((g, cov))
    ck.require(R, len(preds) >= 1, "anchor|union-continuation-test", "the look-ahead that decides whether `|` continues a union type was not found")
    # (2) FIRST(expression): the dispatch on TokenKind whose family builds ParenExpr nodes
    firsts = None
    for f in fns:
        if f.root != f.path:
            continue
        fam = facts.family(roles.LANG, f.path)
        if not (any("ParenExpr" in repr(t[5]) for g in fam for _, t in g.calls()) or any(st[KIND] == "a" and "ParenExpr" in repr(st[5]) for g in fam for _, st in g.all_stmts())):
            continue
        cov = cover.coverage(facts, f, TOKENKIND)
        if cov and cov.primary is not None and (firsts is None or len(cov.primary_handled()) > len(firsts)):
            firsts = cov.primary_handled()
    ck.require(R, firsts is not None and len(firsts) >= 10, "anchor|expression-first-set", "the expression dispatch of the CST parser (the one that builds ParenExpr) was not found")
    if not preds or not firsts:
        return
    n = 0
    for g, cov in preds:
        from ..cfg import reachable
        for v in sorted(cov.primary_handled()):
            tb = cov.arm_target(v)
            if tb is None:
                continue
            region = reachable(g, tb, stop=[cov.primary.block])
            # an arm that answers `true` at once: no further call (peek_ahead) in the arm
            further = any(g.term(b)[KIND] == "call" for b in region)
            n += 1
            key = "pipe|%s" % v
            if further or v not in firsts:
                ck.ok(R, key, {"token": v, "expression_start": v in firsts, "further_lookahead": further})
            else:
                ck.bad(R, key, "%s accepts `| %s` as the continuation of a union type without looking further, but %s also starts an expression: `|x:float| (x + 1.0)` (an annotated parameter followed by a body that starts with that token) is read as the union type `float | (…)` and does not parse, while `|x| (x + 1.0)` does" % (g.short, v, v), g.where())
    ck.floor(R, "continuation_tokens_examined", n, 5)
