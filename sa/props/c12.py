"""C12 — long-running programs do not accumulate closures or heap objects (retain/release discipline)."""
from .. import roles
from ..cfg import reachable
from ..facts import KIND, callee
from ..rules import cover

LEVEL = "other"
EXPLANATION = (
    "Retain/release discipline at the generator and VM level, decided on MIR as sibling agreement: every Return* arm of the VM "
    "dispatch loop performs the same release calls; every VM arm that creates a closure or heap object registers it in the frame's "
    "release list; the compiler's recursive clone / release / close inserters and the VM's run-time clone / release walkers handle "
    "the same set of Type variants (a type retained but never released leaks by construction; the reverse dangles); the recursive "
    "type predicates that decide where reference-count operations are emitted quantify aggregates existentially in every arm "
    "(Tuple/Record/Union alike). Boundedness over time and use-after-release on concrete runs are not decided."
)


def arm_callees(f, cov, v):
    tb = cov.arm_target(v)
    if tb is None:
        return []
    out = []
    for b in reachable(f, tb, stop=[cov.primary.block]):
        t = f.term(b)
        if t[KIND] == "call":
            c = callee(t)
            if c:
                out.append(c)
    return out


_REL = {}


def releasers(facts):
    """functions of the VM runtime that give references back: they reach (<= 3 calls, inside runtime::vm) a removal
    from the closure / heap storages or the heap's release function.  By role, not by name."""
    key = id(facts)
    if key in _REL:
        return _REL[key]
    lang = facts.crate(roles.LANG)
    fns = {f.path: f for f in lang.fns if "::runtime::vm" in f.path and f.kind != "promoted" and "::test" not in f.path}
    base = set()
    for pth, f in fns.items():
        for _, t in f.calls():
            c = callee(t) or ""
            if (c.split("::")[-1] == "remove" and "SlotMap" in c) or c.endswith("heap::heap_release") or c.endswith("heap::heap_release_closure"):
                base.add(f.root)
    reach = set(base)
    for _ in range(3):
        for pth, f in fns.items():
            if f.root in reach:
                continue
            if any((callee(t) or "") in reach for _, t in f.calls()):
                reach.add(f.root)
    _REL[key] = reach
    return reach


def rule_return_arms(ck, facts):
    R = "C12.return"
    ck.rule(R, "all Return* arms of the VM dispatch loop call the same set of release_* functions of the machine before leaving the frame")
    vd = roles.vm_dispatch(facts)
    ck.require(R, vd is not None, "anchor|vm-dispatch", "VM dispatch loop not found")
    if vd is None:
        return
    f = vd.fn
    RELS = releasers(facts)
    rets = [v for v in vd.names if v.startswith("Return")]
    ck.floor(R, "return_arms", len(rets), 2)
    rel = {}
    for v in rets:
        rel[v] = sorted({c.split("::")[-1] for c in arm_callees(f, vd, v) if c in RELS and c != f.path})
    union = sorted({x for xs in rel.values() for x in xs})
    ck.floor(R, "release_functions_called_on_return", len(union), 2)
    for v in rets:
        missing = [x for x in union if x not in rel[v]]
        if missing:
            ck.bad(R, "arm|%s" % v, "VM arm %s leaves the frame without calling %s (the sibling return arm does): closures / heap objects created in frames that return this way are never released" % (v, ", ".join(missing)), f.where())
        else:
            ck.ok(R, "arm|%s" % v, {"arm": v, "releases": rel[v]})


def rule_creation_registers(ck, facts):
    R = "C12.register"
    ck.rule(R, "every VM arm that allocates a closure or a heap closure pushes its handle onto the frame's release list (local_closures / local_heap_closures)")
    vd = roles.vm_dispatch(facts)
    if vd is None:
        return
    f = vd.fn
    # the frame's release lists: locals of the dispatch function that are vectors of closure / heap handles
    lists = {l for l in range(len(f.d.get("locals", []))) if f.local_ty(l).startswith("std::vec::Vec<") and ("ClosureIdx" in f.local_ty(l) or "DefaultKey" in f.local_ty(l) or "HeapIdx" in f.local_ty(l))}
    lang = facts.crate(roles.LANG)
    CREATORS = set()
    for g in lang.fns:
        if "::runtime::vm" in g.path and g.kind == "assoc" and "::test" not in g.path and g.path != f.path:
            rt = (g.d.get("locals") or [""])[0]
            makes = any((callee(t) or "").endswith("Closure::new") or ((callee(t) or "").split("::")[-1] == "insert" and "SlotMap" in (callee(t) or "")) for _, t in g.calls())
            if makes and ("ClosureIdx" in rt or "DefaultKey" in rt or "HeapIdx" in rt):
                CREATORS.add(g.path)
    ck.require(R, len(lists) >= 2, "anchor|release-lists", "frame release lists not found among the dispatch function's locals")
    n = 0
    for v in sorted(vd.primary_handled()):
        cs = arm_callees(f, vd, v)
        # role: machine methods that allocate a closure object (they reach vm::Closure::new)
        creates = [c for c in cs if c in CREATORS]
        if not creates:
            continue
        n += 1
        pushes = [c for c in cs if c.endswith("Vec::<T, A>::push") or c.endswith("::push")]
        if pushes:
            ck.ok(R, "arm|%s" % v, {"arm": v, "creates": [c.split("::")[-1] for c in creates][:2], "registers": True})
        else:
            ck.bad(R, "arm|%s" % v, "VM arm %s allocates (%s) without registering the handle in a frame release list" % (v, creates[0].split("::")[-1]), f.where())
    ck.floor(R, "closure_allocating_arms", n, 2)


_WK = {}


def walkers_by_role(facts):
    """the five recursive walkers over `Type`, by what they do (their names are free to change):
       clone / release / close : the MIR generator's inserters (emit CloneHeap|CloneUserSum|BoxClone / ReleaseUserSum|
                                 BoxRelease / CloseHeapClosure only), recursive over Type
       vm_clone / vm_release   : the VM's run-time walkers (reach heap_retain / heap_release), recursive over Type"""
    key = id(facts)
    if key in _WK:
        return _WK[key]
    lang = facts.crate(roles.LANG)
    out = {}
    for f in lang.fns:
        if f.kind not in ("assoc", "fn") or "::test" in f.path:
            continue
        cov = cover.coverage(facts, f, roles.TYPE)
        if cov is None or cov.primary is None:
            continue
        if not any((callee(t) or "") == f.path for g in facts.family(roles.LANG, f.root) for _, t in g.calls()):
            continue
        if "::compiler::mirgen" in f.path:
            emits = {s2[5][1][3] for _, s2 in f.all_stmts() if s2[KIND] == "a" and s2[5][0] == "agg" and s2[5][1][0] == "adt" and s2[5][1][1] == roles.MIR_INSTR}
            if emits & {"CloneHeap", "CloneUserSum", "BoxClone"}:
                out["clone"] = f
            elif emits & {"ReleaseUserSum", "BoxRelease"}:
                out["release"] = f
            elif "CloseHeapClosure" in emits:
                out["close"] = f
        elif "::runtime::vm" in f.path:
            hc = {(callee(t) or "").split("::")[-1] for _, t in f.calls() if "heap" in (callee(t) or "")}
            if "heap_retain" in hc:
                out["vm_clone"] = f
            elif "heap_release" in hc:
                out["vm_release"] = f
    _WK[key] = out
    return out


def _walker(facts, old_name):
    """the walker that used to be looked up by the name `old_name`"""
    role = {"insert_clone_recursively": "clone", "insert_release_recursively": "release", "insert_close_closures_recursively": "close", "clone_usersum_recursive": "vm_clone", "release_usersum_recursive": "vm_release"}[old_name]
    return walkers_by_role(facts).get(role)


def rule_walkers(ck, facts):
    R = "C12.walkers"
    ck.rule(R, "the recursive clone and release walkers over Type (compiler inserters and VM run-time walkers) have explicit arms for the same Type variants; the close-closures inserter handles a subset of them")
    lang = facts.crate(roles.LANG)
    groups = {
        "compiler": ("insert_clone_recursively", "insert_release_recursively", "insert_close_closures_recursively"),
        "vm": ("clone_usersum_recursive", "release_usersum_recursive", None),
    }
    for gname, (cl, rl, cc) in groups.items():
        covs = {}
        for nm in (cl, rl, cc):
            if nm is None:
                continue
            wf = _walker(facts, nm)
            if wf is not None:
                covs[nm] = cover.coverage(facts, wf, roles.TYPE)
        ck.require(R, cl in covs and rl in covs and covs[cl] and covs[rl], "anchor|%s" % gname, "%s clone/release walkers not found" % gname)
        if not (cl in covs and rl in covs and covs[cl] and covs[rl]):
            continue
        a, b = covs[cl].primary_handled(), covs[rl].primary_handled()
        if a == b:
            ck.ok(R, "pair|%s" % gname, {"clone": cl, "release": rl, "variants": sorted(a)})
        else:
            ck.bad(R, "pair|%s" % gname, "%s handles Type variants %s but %s handles %s: values of the types in the difference are retained without release (leak) or released without retain (dangling handle)" % (cl, sorted(a), rl, sorted(b)), covs[cl].fn.where())
        if cc and cc in covs and covs[cc]:
            c = covs[cc].primary_handled()
            if c <= a:
                ck.ok(R, "close|%s" % gname, {"close": cc, "variants": sorted(c)})
            else:
                ck.bad(R, "close|%s" % gname, "%s handles %s which the clone walker does not" % (cc, sorted(c - a)), covs[cc].fn.where())


WALKERS = ("insert_clone_recursively", "insert_release_recursively", "insert_close_closures_recursively", "clone_usersum_recursive", "release_usersum_recursive")


def rule_walker_recursion(ck, facts):
    R = "C12.walkers"
    lang = facts.crate(roles.LANG)
    fs = {}
    for nm in WALKERS:
        wf = _walker(facts, nm)
        if wf is not None:
            fs[nm] = wf
    paths = {f.path: nm for nm, f in fs.items()}
    n = 0
    for nm, f in fs.items():
        cov = cover.coverage(facts, f, roles.TYPE)
        if not cov:
            continue
        for v in sorted(cov.primary_handled()):
            tb = cov.arm_target(v)
            if tb is None:
                continue
            region = reachable(f, tb, stop=[cov.primary.block])
            others = []
            selfcalls = 0
            for b in region:
                t = f.term(b)
                if t[KIND] != "call":
                    continue
                c = callee(t) or ""
                if c == f.path:
                    selfcalls += 1
                elif c in paths:
                    others.append((paths[c], t))
            if not selfcalls and not others:
                continue
            n += 1
            key = "recursion|%s|%s" % (nm, v)
            if others:
                ck.bad(R, key, "%s: the arm for Type::%s descends into the element values with %s instead of with itself: everything below that aggregate gets the other walker's treatment (e.g. closures are closed but boxed / variant values under a record are never released: one heap object leaks per evaluation)" % (f.short, v, others[0][0]), f.where(others[0][1]))
            else:
                ck.ok(R, key)
    ck.floor(R, "recursive_walker_arms", n, 10)


def rule_vm_walker_offsets(ck, facts):
    R = "C12.offsets"
    ck.rule(R, "the VM's run-time clone / release walkers over variant payloads slice a tuple's elements at a running word offset advanced by each element's word size (an accumulator updated in the loop), never at the element index; the two walkers agree")
    lang = facts.crate(roles.LANG)
    verdicts = {}
    for nm in ("clone_usersum_recursive", "release_usersum_recursive"):
        c = [x for x in [_walker(facts, nm)] if x is not None]
        ck.require(R, len(c) == 1, "anchor|%s" % nm, "VM walker %s not found" % nm)
        if len(c) != 1:
            continue
        f = c[0]
        cov = cover.coverage(facts, f, roles.TYPE)
        if not cov:
            ck.bad(R, "anchor|match|%s" % nm, "%s does not match on Type" % nm, f.where())
            continue
        for v in ("Tuple", "Record"):
            if v not in cov.primary_handled() or cov.arm_target(v) is None:
                continue
            region = reachable(f, cov.arm_target(v), stop=[cov.primary.block])
            has_ws = False
            uses_enum = False
            acc = False
            recursive = False
            for b in region:
                t = f.term(b)
                if t[KIND] == "call":
                    c2 = callee(t) or ""
                    if c2.endswith("::word_size"):
                        has_ws = True
                    if c2.endswith("::enumerate"):
                        uses_enum = True
                    if c2 == f.path:
                        recursive = True
            # accumulator: a local that is assigned `itself + x` inside the arm
            from ..cfg import DefIndex
            di = DefIndex(f)
            for b in region:
                for st in f.stmts(b):
                    if st[KIND] == "a" and not st[4][1] and st[5][0] == "use" and st[5][1][0] in ("cp", "mv") and st[5][1][1][1]:
                        # x = move (tmp.0) where tmp = checked add (x, y)
                        r = di.resolve(["cp", [st[5][1][1][0], []]])
                        if r[0] == "rv" and r[1][5][0] == "bin" and r[1][5][1] in ("add", "add_ov") and any(o[0] in ("cp", "mv") and o[1][0] == st[4][0] for o in r[1][5][2:4]):
                            acc = True
                    if st[KIND] == "a" and not st[4][1] and st[5][0] == "bin" and st[5][1] in ("add", "add_ov") and any(o[0] in ("cp", "mv") and o[1][0] == st[4][0] for o in st[5][2:4]):
                        acc = True
            if not recursive:
                continue
            verdicts[(nm, v)] = (acc and has_ws and not uses_enum)
            key = "arm|%s|%s" % (nm, v)
            if verdicts[(nm, v)]:
                ck.ok(R, key, {"walker": nm, "arm": v, "offset": "running sum of word_size"})
            else:
                ck.bad(R, key, "%s (arm %s): element words are not addressed by a running word offset (accumulator=%s, word_size=%s, enumerate=%s): after a multi-word element the walker reads the wrong word, takes a float for a handle and skips the boxed child — it is never released (one heap object leaks per evaluation) or a live one is released" % (nm, v, acc, has_ws, uses_enum), f.where())
    ck.floor(R, "vm_walker_aggregate_arms", len(verdicts), 2)
    # ---- the bounds test in front of each element slice: `offset + size <= len` in both walkers.  `<` skips an
    # element that ends exactly at the end of the value (the last field of the widest variant): the clone walker then
    # retains one reference fewer than the release walker gives back, and a live box is freed.
    from ..rules.guards import FLIP, Terms
    rels = {}
    for nm in ("clone_usersum_recursive", "release_usersum_recursive"):
        c = [x for x in [_walker(facts, nm)] if x is not None]
        if len(c) != 1:
            continue
        f = c[0]
        cov = cover.coverage(facts, f, roles.TYPE)
        if not cov:
            continue
        T = Terms(f)
        for v in ("Tuple", "Record"):
            if v not in cov.primary_handled() or cov.arm_target(v) is None:
                continue
            region = reachable(f, cov.arm_target(v), stop=[cov.primary.block])
            found = set()
            for b in region:
                t = f.term(b)
                if t[KIND] != "switch" or t[4][0] not in ("cp", "mv"):
                    continue
                cnd = T.op(t[4])
                if cnd[0] != "bin" or cnd[1] not in FLIP:
                    continue
                x, y, op = cnd[2], cnd[3], cnd[1]
                if y[0] == "len":
                    pass
                elif x[0] == "len":
                    op = FLIP[op]
                else:
                    continue
                found.add(op)
            if found:
                rels[(nm, v)] = found
    for (nm, v), found in sorted(rels.items()):
        key = "slice-bound|%s|%s" % (nm, v)
        if found == {"le"}:
            ck.ok(R, key, {"walker": nm, "arm": v, "test": "end <= len"})
        else:
            ck.bad(R, key, "%s (arm %s) tests the end of an element slice against the length of the value with %s where `end <= len` is the exact condition: with `<` the element that ends at the end of the value (the last field of the widest variant) is skipped — cloning a `Node(Tree, float, Tree)` no longer retains the right subtree, releasing the copy frees it, and the next use panics `invalid heap index`" % (nm, v, sorted(found)), lang.by_path.get(next(f.path for f in lang.fns if f.short.endswith("::" + nm))).where())
    ck.floor(R, "walker_slice_bounds", len(rels), 2)


def _emitted_instr(f, cov, v):
    """MIR instruction variants constructed directly in the arm of variant v"""
    tb = cov.arm_target(v)
    out = set()
    if tb is None:
        return out
    for b in reachable(f, tb, stop=[cov.primary.block]):
        for st in f.stmts(b):
            if st[KIND] == "a" and st[5][0] == "agg" and st[5][1][0] == "adt" and st[5][1][1] == roles.MIR_INSTR:
                out.add(st[5][1][3])
    return out


def rule_pairing(ck, facts, cg):
    R = "C12.pairing"
    ck.rule(R, "reference counts are paired: (instr) for every Type variant whose clone inserter emits an instruction that the VM executes as a retain, the release inserter emits an instruction the VM executes as a release; (scope) every place of the MIR generator that clones a value for a new owner — an argument of a call, a name bound by a match pattern — has a release for that owner where its scope ends (the callee's exit, the end of the arm)")
    lang = facts.crate(roles.LANG)
    clone_f, rel_f = _walker(facts, "insert_clone_recursively"), _walker(facts, "insert_release_recursively")
    ck.require(R, clone_f is not None and rel_f is not None, "anchor|inserters", "clone / release inserters not found")
    vd = roles.vm_dispatch(facts)
    ck.require(R, vd is not None, "anchor|vm-dispatch", "VM dispatch not found")
    if clone_f is None or rel_f is None or vd is None:
        return
    ccov, rcov = cover.coverage(facts, clone_f, roles.TYPE), cover.coverage(facts, rel_f, roles.TYPE)

    def vm_effect(instr):
        """'retain' / 'release' / None: what the VM arm of that instruction does to a reference count"""
        if instr not in vd.primary_handled() or vd.arm_target(instr) is None:
            return "?"
        seen = set()
        work = [c for c in arm_callees(vd.fn, vd, instr)]
        eff = set()
        depth = {c: 0 for c in work}
        while work:
            c = work.pop()
            if c in seen:
                continue
            seen.add(c)
            n = c.split("::")[-1]
            if n in ("heap_retain",):
                eff.add("retain")
            if n in ("heap_release", "heap_release_closure", "release_heap_closure", "drop_closure"):
                eff.add("release")
            g = facts.fn(c)
            if g is not None and depth.get(c, 0) < 3 and g.crate == vd.fn.crate:
                for _, t in g.calls():
                    c2 = callee(t) or ""
                    if c2 not in seen:
                        depth[c2] = depth.get(c, 0) + 1
                        work.append(c2)
        return "+".join(sorted(eff)) or None

    n = 0
    for v in sorted(ccov.primary_handled()):
        ci = _emitted_instr(clone_f, ccov, v) - {"GetElement"}
        if not ci:
            continue
        ri = _emitted_instr(rel_f, rcov, v) - {"GetElement"} if v in rcov.primary_handled() else set()
        ce = {i: vm_effect(i) for i in ci}
        re_ = {i: vm_effect(i) for i in ri}
        if not any(e and "retain" in e for e in ce.values()):
            continue
        n += 1
        key = "instr|%s" % v
        if any(e and "release" in e for e in re_.values()):
            ck.ok(R, key, {"type": v, "clone": ce, "release": re_})
        else:
            ck.bad(R, key, "a value of type %s is retained when it gets a new owner (%s) but the release inserter emits %s for it, which the VM executes without decrementing any count: every such value that is passed on or returned stays allocated for ever (one closure + one heap object per evaluation)" % (v, ", ".join("%s=%s" % kv for kv in sorted(ce.items())), ", ".join("%s=%s" % kv for kv in sorted(re_.items())) or "nothing"), rel_f.where())
    ck.floor(R, "retained_type_variants", n, 2)
    # (scope)
    mg = [f for f in lang.fns if "::compiler::mirgen::" in f.path and f.kind != "promoted"]
    byroot = {}
    for f in mg:
        byroot.setdefault(f.root, []).append(f)
    m = 0
    for root, fam in sorted(byroot.items()):
        short = root.split("::")[-1]
        if root in {w.path for w in walkers_by_role(facts).values()}:
            continue
        clones = [(g, t) for g in fam for _, t in g.calls() if (callee(t) or "") == clone_f.path]
        if not clones:
            continue
        binds = any((callee(t) or "").split("::")[-1] in ("bind_pattern", "add_bind") and "mirgen" in (callee(t) or "") for g in fam for _, t in g.calls())
        releases = any((callee(t) or "") == rel_f.path for g in fam for _, t in g.calls())
        if short == "eval_args":
            # the new owner is the callee: parameters must be released where functions end (the code that emits Return)
            exits = [g for g in mg if any(st[KIND] == "a" and st[5][0] == "agg" and st[5][1][0] == "adt" and st[5][1][1] == roles.MIR_INSTR and st[5][1][3] in ("Return", "ReturnFeed") for _, st in g.all_stmts())]
            rel_at_exit = any((callee(t) or "") == rel_f.path for g in exits for _, t in g.calls())
            m += 1
            if rel_at_exit:
                ck.ok(R, "scope|arguments")
            else:
                ck.bad(R, "scope|arguments", "eval_args clones every reference-counted argument for the callee, but no code that emits a function's Return releases the callee's parameters: each call with a list / closure / boxed argument leaves one reference behind (heap grows by one object per call)", clones[0][0].where(clones[0][1]))
        elif binds and short != "eval_expr":
            m += 1
            if releases:
                ck.ok(R, "scope|%s" % short)
            else:
                ck.bad(R, "scope|%s" % short, "%s clones the values it binds to pattern variables, but never emits a release for them when the arm ends (the only release site of the generator is the end of a `let`): matching on a list / variant payload leaks one reference per evaluation" % short, clones[0][0].where(clones[0][1]))
    ck.floor(R, "clone_scopes_checked", m, 3)


def rule_predicates(ck, facts):
    R = "C12.predicates"
    ck.rule(R, "in the recursive Type predicates that steer reference counting (contains_function / contains_boxed / contains_code ...), every aggregate arm quantifies its elements with the same quantifier (`any`): an aggregate contains X iff some element does")
    lang = facts.crate(roles.LANG)
    preds = [f for f in lang.fns if f.kind == "assoc" and f.short.startswith("types::Type::contains_") and f.local_ty(0) == "bool"]
    ck.floor(R, "type_predicates", len(preds), 3)
    for f in preds:
        cov = cover.coverage(facts, f, roles.TYPE)
        if not cov:
            continue
        quant = {}
        for v in sorted(cov.primary_handled()):
            cs = [c.split("::")[-1] for c in arm_callees(f, cov, v)]
            qs = sorted({c for c in cs if c in ("any", "all")})
            if qs:
                quant[v] = qs
        if not quant:
            continue
        kinds = {tuple(q) for q in quant.values()}
        name = f.short.split("::")[-1]
        if kinds == {("any",)}:
            ck.ok(R, "pred|%s" % name, {"predicate": name, "aggregate_arms": sorted(quant)})
        else:
            odd = {v: q for v, q in quant.items() if q != ["any"]}
            ck.bad(R, "pred|%s" % name, "Type::%s quantifies the elements of %s with %s while its other aggregate arms use `any`: an aggregate with one matching and one plain element is classified wrongly, so reference-count operations are not emitted for it" % (name, sorted(odd), sorted({x for q in odd.values() for x in q})), f.where())


def rule_predicate_recursion(ck, facts, R="C12.predicates"):
    """a deep predicate over Type must stay deep in every aggregate arm"""
    lang = facts.crate(roles.LANG)
    preds = [f for f in lang.fns if f.kind == "assoc" and f.short.startswith("types::Type::contains_") and f.local_ty(0) == "bool"]
    adt = facts.adt(roles.TYPE)
    nested = {v["n"] for v in adt["variants"] if any("TypeNodeId" in fld[1] or "RecordTypeField" in fld[1] for fld in v["f"])}
    n = 0
    for f in preds:
        cov = cover.coverage(facts, f, roles.TYPE)
        if not cov:
            continue
        name = f.short.split("::")[-1]
        for v in sorted(cov.primary_handled()):
            if v not in nested or cov.arm_target(v) is None or v in getattr(cov, "catchall", ()):
                continue
            region = reachable(f, cov.arm_target(v), stop=[cov.primary.block])
            members = [(f, set(region))]
            for b in region:
                for st in f.stmts(b):
                    if st[KIND] == "a" and st[5][0] == "agg" and st[5][1][0] == "closure":
                        g = facts.fn(st[5][1][1])
                        if g is not None:
                            members.append((g, None))
            callees = set()
            for g, reg in members:
                for b, t in g.calls():
                    if reg is None or b in reg:
                        callees.add(callee(t) or "")
            if not any(c.startswith("mimium_lang::types::Type::") or "types::Type::" in c for c in callees):
                continue  # the arm answers without looking at the element types (constant)
            n += 1
            key = "deep|%s|%s" % (name, v)
            if f.path in callees:
                ck.ok(R, key)
            else:
                other = sorted(c.split("::")[-1] for c in callees if "types::Type::" in c)
                ck.bad(R, key, "Type::%s looks into the elements of a %s with %s instead of with itself: the predicate is deep for the other aggregates but only one level deep here, so a closure / boxed value nested below a %s is missed by the reference-count and escape handling that this predicate steers (and by the `self` admission test)" % (name, v, other, v), f.where())
    ck.floor(R, "deep_predicate_arms", n, 6)


def rule_synthesised_closures(ck, facts):
    """wrapper closures the bytecode generator makes up for bare function values"""
    from ..cfg import DefIndex

    R = "C12.synthesised-closure"
    ck.rule(R, "where the bytecode generator itself wraps a bare function value into a heap closure (a MakeHeapClosure with the constant size 0 — not the translation of a MIR MakeClosure, whose retains are MIR instructions of their own) because the value is about to be stored (array element, Store, SetGlobal), it emits a CloneHeap of the same register right after it: every such site does, so that the stored handle owns a reference. A site without it leaves the wrapper with the frame's reference only: it is freed when the frame returns while the array / global still holds the handle (use after release)")
    lang = facts.crate(roles.LANG)
    n = 0
    for f in lang.fns:
        if "::compiler::bytecodegen" not in f.path or f.kind == "promoted" or "::test" in f.path:
            continue
        for b, blk in enumerate(f.bb):
            if blk["c"]:
                continue
            for i, st in enumerate(blk["s"]):
                if not (st[KIND] == "a" and st[5][0] == "agg" and st[5][1][0] == "adt" and st[5][1][1] == roles.VM_INSTR and st[5][1][3] == "MakeHeapClosure"):
                    continue
                ops = st[5][2]
                if not (len(ops) == 3 and ops[2][0] == "c" and str(ops[2][-1]) == "0"):
                    continue
                n += 1
                di = DefIndex(f)

                def origin(op):
                    cur = op
                    for _ in range(6):
                        if cur[0] not in ("cp", "mv") or cur[1][1]:
                            return repr(cur)
                        d = di.single_def(cur[1][0])
                        if d is None or d[1] is None or d[2][5][0] != "use" or d[2][5][1][0] not in ("cp", "mv"):
                            return cur[1][0]
                        cur = d[2][5][1]
                    return repr(cur)

                reg = origin(ops[0])
                # follow the straight-line successors (pushes are calls) for a CloneHeap of the same register
                found = False
                cur, steps = b, 0
                seen_first = False
                while cur is not None and steps < 6 and not found:
                    for st2 in f.bb[cur]["s"]:
                        if st2 is st:
                            seen_first = True
                            continue
                        if seen_first and st2[KIND] == "a" and st2[5][0] == "agg" and st2[5][1][0] == "adt" and st2[5][1][1] == roles.VM_INSTR and st2[5][1][3] == "CloneHeap":
                            if origin(st2[5][2][0]) == reg:
                                found = True
                    sc = f.succs(cur)
                    cur = sc[0] if len(sc) == 1 else None
                    steps += 1
                key = "retain|%s" % f.short.split("::", 3)[-1]
                if found:
                    ck.ok(R, key, {"site": f.where(st)})
                else:
                    ck.bad(R, key, "%s wraps a bare function value into a heap closure (MakeHeapClosure .., .., 0) and does not retain it (no CloneHeap of the same register follows): the wrapper is released with the frame that built it while the container it was stored in still holds the handle — `let fs = [double, triple]` at top level, then `fs[0](x)` in dsp, calls a freed closure" % f.short, f.where(st))
    ck.floor(R, "synthesised_wrapper_sites", n, 2)


def rule_wasm_release(ck, facts):
    """the WASM side of ReleaseUserSum: generator arm -> import slot -> import name -> host function -> heap"""
    from ..cfg import DefIndex, reachable
    from ..facts import const_fn, const_str, place_fields

    R = "C12.wasm-release"
    ck.rule(R, "the WASM generator's arm for the MIR instruction that releases a boxed value (ReleaseUserSum) calls an import; the host function registered under that import's name reaches (<= 3 calls) a removal from / reference-count decrement on the runtime's heap storage. The chain arm -> import slot -> name -> host function is derived on every run. A host function that does nothing means no heap object allocated by box_alloc is ever freed on WASM")
    lang = facts.crate(roles.LANG)
    ti = [f for f in lang.fns if f.short.endswith("WasmGenerator::translate_instruction")]
    ck.require(R, len(ti) == 1, "anchor|translate_instruction", "WasmGenerator::translate_instruction not found")
    if len(ti) != 1:
        return
    f = ti[0]
    cov = cover.coverage(facts, f, roles.MIR_INSTR)
    tb = cov.arm_target("ReleaseUserSum") if cov else None
    ck.require(R, tb is not None, "anchor|release-arm", "the WASM generator has no arm for ReleaseUserSum")
    if tb is None:
        return
    region = reachable(f, tb, stop=[cov.primary.block])
    slots = set()
    for b in region:
        for st in f.stmts(b):
            if st[KIND] == "a":
                for x in _places(st[5]):
                    for fl in place_fields(x):
                        if fl and "RuntimeFunctionIndices" in fl:
                            slots.add(fl)
    ck.require(R, len(slots) == 1, "anchor|release-import-slot", "the ReleaseUserSum arm does not call exactly one runtime import (found %s)" % sorted(slots))
    if len(slots) != 1:
        return
    slot = slots.pop()
    # import name stored into that slot

    def _str_of(g, di, cur):
        for _ in range(6):
            r = di.resolve(cur) if cur[0] != "c" else ("const", cur)
            if r[0] == "const":
                return const_str(r[1])
            if r[0] == "rv" and r[1][5][0] in ("ref", "raw"):
                cur = ["cp", [r[1][5][1][0], []]]
                continue
            return None
        return None

    name = None
    for g in lang.fns:
        if "::compiler::wasmgen" not in g.path or g.kind == "promoted":
            continue
        di = None
        for b, t in g.calls():
            if (callee(t) or "").split("::")[-1] not in ("add_import", "add_import_from") or t[6] is None:
                continue
            stored = [x for x in place_fields(t[6]) if x]
            if not stored:
                for _, s2 in g.all_stmts():
                    if s2[KIND] == "a" and s2[5][0] == "use" and s2[5][1][0] in ("cp", "mv") and s2[5][1][1][0] == t[6][0] and s2[4][1]:
                        stored = [x for x in place_fields(s2[4]) if x]
            if stored and stored[-1] == slot:
                di = di or DefIndex(g)
                for a in t[5][1:]:
                    v = _str_of(g, di, a)
                    if v and v not in ("runtime", "math"):
                        name = v
    ck.require(R, name is not None, "anchor|release-import-name", "the import name behind %s was not found" % slot.split("::")[-1])
    if name is None:
        return
    host = None
    for g in lang.fns:
        if "::runtime::wasm" not in g.path or g.kind == "promoted":
            continue
        di = None
        for b, t in g.calls():
            if (callee(t) or "").split("::")[-1] != "func_wrap" or len(t[5]) < 4:
                continue
            di = di or DefIndex(g)
            if _str_of(g, di, t[5][2]) == name:
                host = facts.fn(const_fn(t[5][3]) or "")
    ck.require(R, host is not None, "anchor|release-host", "no host function is registered under the import name `%s`" % name)
    if host is None:
        return
    seen, frontier, frees = {host.path}, [host], []
    for _ in range(3):
        nxt = []
        for g in frontier:
            for _, t in g.calls():
                c = callee(t) or ""
                nm = c.split("::")[-1]
                if nm in ("heap_release", "remove", "release", "dec_ref", "decrement") and ("heap" in c.lower() or "SlotMap" in c or "HeapStorage" in c):
                    frees.append(c)
                h = facts.fn(c)
                if h is not None and h.crate == roles.LANG and h.path not in seen:
                    seen.add(h.path)
                    nxt.append(h)
        frontier = nxt
    key = "host|%s" % name
    if frees:
        ck.ok(R, key, {"import": name, "host": host.short, "frees_through": sorted(set(x.split("::")[-1] for x in frees))})
    else:
        ck.bad(R, key, "the WASM back end lowers ReleaseUserSum to a call of the import `%s`, and the host function behind it (%s) never touches the heap storage (the generator also passes placeholder arguments): every boxed value allocated on WASM lives for ever — `let l = Cons(now, Cons(2.0, Nil))` in dsp grows the host's heap by two objects per sample" % (name, host.short), host.where())


def clone_inserters(facts):
    """the MIR generator's retain walker by role: the recursive function over `Type` that emits the retaining
    instructions (CloneHeap / CloneUserSum)"""
    lang = facts.crate(roles.LANG)
    out = set()
    for f in lang.fns:
        if "::compiler::mirgen" not in f.path or f.kind != "assoc":
            continue
        emits = {s[5][1][3] for _, s in f.all_stmts() if s[KIND] == "a" and s[5][0] == "agg" and s[5][1][0] == "adt" and s[5][1][1] == roles.MIR_INSTR}
        if emits & {"CloneHeap", "CloneUserSum"} and any((callee(t) or "") == f.path for g in facts.family(roles.LANG, f.root) for _, t in g.calls()):
            out.add(f.path)
    return out


def rule_projection_clone(ck, facts, R="C12.pairing"):
    """an element read out of an aggregate value gets its own reference"""
    from ..symex import PathLimit, SymEx

    lang = facts.crate(roles.LANG)
    cl = clone_inserters(facts)
    ck.require(R, bool(cl), "anchor|clone-inserter", "the MIR generator's retain walker (recursive over Type, emits CloneHeap / CloneUserSum) was not found")
    evals = [f for f in lang.fns if "::compiler::mirgen" in f.path and f.kind == "assoc" and (cv := cover.coverage(facts, f, roles.EXPR)) is not None and cv.primary is not None and len(cv.primary_handled()) >= 20]
    n = 0
    for f in evals:
        cov = cover.coverage(facts, f, roles.EXPR)
        for v in sorted(cov.primary_handled()):
            tb = cov.arm_target(v)
            if tb is None:
                continue
            region = reachable(f, tb, stop=[cov.primary.block])
            if not any(s[KIND] == "a" and s[5][0] == "agg" and s[5][1][0] == "adt" and s[5][1][1] == roles.MIR_INSTR and s[5][1][3] == "GetElement" for b in region for s in f.bb[b]["s"]):
                continue
            sx = SymEx(f, payload_place=cov.primary.place, max_paths=300, max_steps=30000, facts=facts)
            try:
                paths = sx.run(tb)
            except PathLimit:
                paths = sx.paths
            handed, cloned = 0, 0
            for p in paths:
                if p.end != "return":
                    continue
                r0 = p.env.get(0)
                # the arm's value is the result of pushing a GetElement: the element goes to whoever evaluated the
                # expression (a binder, an argument, an operand)
                val = r0[2][0] if (r0 and r0[0] == "agg" and r0[2]) else r0
                while val and val[0] in ("call",) and val[1].split("::")[-1] == "clone" and val[2]:
                    val = val[2][0]
                    while val and val[0] in ("ref", "deref"):
                        val = val[1]
                if not (val and val[0] == "call" and "GetElement" in repr(val[2]) and "push_inst" in val[1]):
                    continue
                handed += 1
                if any(e[0] == "call" and e[1] in cl and repr(val) in repr(e[2]) for e in p.events):
                    cloned += 1
            if not handed:
                continue
            n += 1
            key = "projection-clone|%s|%s" % (f.short.split("::")[-1], v)
            if cloned == handed:
                ck.ok(R, key, {"paths": handed})
            else:
                ck.bad(R, key, "%s (arm %s) hands an element it reads out of an aggregate value (GetElement) on as the value of the expression without retaining it (%d of %d paths call the retain walker on it): the binder or callee that receives it releases it at its scope end, so each evaluation takes one reference away from a box / closure the aggregate still points to (use after release), while the sibling projection retains" % (f.short, v, cloned, handed), f.where(f.term(tb)))
    ck.floor(R, "projection_arms", n, 2)



def rule_scope_exit_unconditional(ck, facts, R="C12.pairing"):
    """the release at the end of a binding's scope does not depend on whether something follows the binding"""
    from ..facts import place_fields

    lang = facts.crate(roles.LANG)
    rel = walkers_by_role(facts).get("release")
    if rel is None:
        return
    evals = [f for f in lang.fns if "::compiler::mirgen" in f.path and f.kind == "assoc" and (cv := cover.coverage(facts, f, roles.EXPR)) is not None and cv.primary is not None and len(cv.primary_handled()) >= 20]
    adt = facts.adt(roles.EXPR)
    n = 0
    # the release walker, or a helper of the generator that does nothing but call it (an extracted scope-exit block)
    releasing = {rel.path}
    evalpaths = {f.path for f in evals}
    for g in lang.fns:
        if "::compiler::mirgen" in g.path and g.kind in ("assoc", "fn") and g.path not in evalpaths and g.path != rel.path and cover.coverage(facts, g, roles.EXPR) is None:
            if any((callee(t) or "") == rel.path for h in facts.family(roles.LANG, g.path) for _, t in h.calls()) and g.path not in {w.path for w in walkers_by_role(facts).values()}:
                releasing.add(g.path)
    for f in evals:
        cov = cover.coverage(facts, f, roles.EXPR)
        for v in sorted(cov.primary_handled()):
            tb = cov.arm_target(v)
            if tb is None:
                continue
            region = reachable(f, tb, stop=[cov.primary.block])
            calls = [b for b in region if f.term(b)[KIND] == "call" and (callee(f.term(b)) or "") in releasing]
            if not calls:
                continue
            var = [x for x in adt["variants"] if x["n"] == v]
            if not var:
                continue
            # payload fields that say whether a continuation exists: Option<ExprNodeId>
            opt = {i for i, fld in enumerate(var[0]["f"]) if fld[1].replace(" ", "").endswith("Option<interner::ExprNodeId>") or "Option<interner::ExprNodeId>" in fld[1]}
            if not opt:
                continue
            names = {"%s::%s::%s" % (roles.EXPR, v, var[0]["f"][i][0]) for i in opt}
            # locals derived from those fields (references, copies, derefs)
            taint = set()
            changed = True
            while changed:
                changed = False
                for b in region:
                    for st in f.stmts(b):
                        if st[KIND] != "a" or st[4][1] or st[4][0] in taint:
                            continue
                        rv = st[5]
                        pls = []
                        if rv[0] in ("ref", "disc"):
                            pls.append(rv[1])
                        elif rv[0] == "use" and rv[1][0] in ("cp", "mv"):
                            pls.append(rv[1][1])
                        for pl in pls:
                            if pl[0] in taint or any(nm in names for nm in place_fields(pl)):
                                taint.add(st[4][0])
                                changed = True
            n += 1
            key = "scope-exit|%s" % v
            dep = None
            for sb in sorted(region):
                t = f.term(sb)
                if t[KIND] != "switch" or t[4][0] not in ("cp", "mv") or t[4][1][0] not in taint:
                    continue
                succ = [x for x in f.succs(sb) if x in region]
                if len(succ) < 2:
                    continue
                hit = [any(c in reachable(f, x, stop=[cov.primary.block]) for c in calls) for x in succ]
                if any(hit) and not all(hit):
                    dep = (sb, t)
                    break
            if dep is None:
                ck.ok(R, key, {"arm": v, "release_calls": len(calls)})
            else:
                ck.bad(R, key, "%s (arm %s): the release of the bound value at the end of its scope is emitted only on one side of the test whether a continuation follows the binding: a binding that is the last thing in a block, a function body or a branch is never released (one heap object per evaluation stays allocated)" % (f.short, v), f.where(dep[1]))
    ck.floor(R, "scope_exit_release_arms", n, 1)



def rule_guard_set(ck, facts, R="C12.pairing"):
    """every guarded retain / release asks about both kinds of reference-counted values"""
    from ..cfg import DefIndex

    lang = facts.crate(roles.LANG)
    W = walkers_by_role(facts)
    cl, rel = W.get("clone"), W.get("release")
    if cl is None or rel is None:
        return
    sites = []
    for f in lang.fns:
        if "::compiler::mirgen" not in f.path or f.kind == "promoted" or f.path in (cl.path, rel.path):
            continue
        cs = [(b, t) for b, t in f.calls() if (callee(t) or "") in (cl.path, rel.path)]
        if not cs:
            continue
        di = DefIndex(f)
        # switch blocks that test the answer of a `Type::contains_*` predicate
        tests = {}
        for d in range(f.nblocks()):
            tt = f.term(d)
            if not f.is_cleanup(d) and tt[KIND] == "switch" and tt[4][0] in ("cp", "mv"):
                r = di.resolve(tt[4])
                if r[0] == "call" and "contains_" in (callee(r[1]) or "").split("::")[-1]:
                    tests[d] = (callee(r[1]) or "").split("::")[-1]
        for b, t in cs:
            # backwards from the site through at most a handful of blocks: the tests of one `a() || b()` condition
            guard = set()
            seen = {b}
            frontier = [(b, 0)]
            while frontier:
                x, dist = frontier.pop()
                for p in f.preds(x):
                    if p in seen or f.is_cleanup(p) or dist >= 5:
                        continue
                    seen.add(p)
                    if p in tests:
                        guard.add(tests[p])
                        frontier.append((p, dist + 1))
                    elif f.term(p)[KIND] in ("goto", "call", "drop") and not any((callee(f.term(p)) or "") in (cl.path, rel.path) for _ in [0] if f.term(p)[KIND] == "call"):
                        frontier.append((p, dist + 1))
            sites.append((f, t, "retain" if (callee(t) or "") == cl.path else "release", guard))
    full = set()
    for _, _, _, g in sites:
        full |= g
    n = 0
    seen_keys = {}
    for f, t, kind, g in sites:
        if not g:
            continue
        n += 1
        owner = f.root.split("::")[-1]
        key = "guard-set|%s|%s" % (owner, kind)
        seen_keys[key] = seen_keys.get(key, 0) + 1
        if seen_keys[key] > 1:
            key += "#%d" % seen_keys[key]
        if g >= full:
            ck.ok(R, key, {"site": owner, "asks": sorted(g)})
        else:
            ck.bad(R, key, "%s %ss a value only if its type %s, while the other guarded sites of the generator also ask %s: values of the kind that is not asked about are handed on without their own reference (a closure passed as an argument is then freed by the first owner that lets go of it while others still hold it — `Invalid Closure Id`), or never given back" % (f.short, kind, " or ".join(sorted(g)), " / ".join(sorted(full - g))), f.where(t))
    ck.floor(R, "guarded_refcount_sites", n, 2)



def rule_wrapper_released(ck, facts, R="C12.return"):
    """giving up a heap closure always gives up its heap wrapper"""
    lang = facts.crate(roles.LANG)
    n = 0
    for f in lang.fns:
        if "::runtime::vm" not in f.path or f.kind not in ("assoc", "fn") or "::test" in f.path:
            continue
        names = [(callee(t) or "").split("::")[-1] for _, t in f.calls()]
        if "drop_closure" not in names or "heap_release" not in names:
            continue
        n += 1
        rel_blocks = {b for b, t in f.calls() if (callee(t) or "").split("::")[-1] == "heap_release"}
        seen = reachable(f, 0, avoid=rel_blocks)
        skipped = [b for b in seen if f.term(b)[KIND] == "return"]
        key = "wrapper-released|%s" % f.short.split("::")[-1]
        if skipped:
            ck.bad(R, key, "%s drops the closure behind a heap handle on some paths without releasing the heap object that wraps it (a return is reachable without `heap_release`): a closure that is applied in place and never closed leaves one heap object behind per evaluation" % f.short, f.where())
        else:
            ck.ok(R, key, {"fn": f.short.split("::")[-1]})
    ck.floor(R, "closure_wrapper_releasers", n, 1)



def rule_upvalue_descriptor(ck, facts, R="C12.creation"):
    """reads and writes of a captured variable describe it the same way"""
    from ..cfg import DefIndex

    lang = facts.crate(roles.LANG)
    adt = [a for p, a in lang.adts.items() if p.endswith("::OpenUpValue")]
    if not adt:
        return
    names = [x[0] for x in adt[0]["variants"][0]["f"]]
    if "is_closure" not in names:
        return
    k = names.index("is_closure")
    sites = []
    for f in lang.fns:
        if "::compiler::bytecodegen" not in f.path or f.kind == "promoted" or "::test" in f.path:
            continue
        di = None
        for b, st in f.all_stmts():
            if st[KIND] == "a" and st[5][0] == "agg" and st[5][1][0] == "adt" and st[5][1][1].endswith("::OpenUpValue") and len(st[5][2]) > k:
                di = di or DefIndex(f)
                r = di.resolve(st[5][2][k])
                how = ("call:" + (callee(r[1]) or "?").split("::")[-1]) if r[0] == "call" else ("%s:%s" % (r[0], r[1][5][0] if r[0] == "rv" else ""))
                sites.append((f, st, how))
    n = len(sites)
    kinds = {h for _, _, h in sites}
    if n >= 2 and len(kinds) == 1:
        ck.ok(R, "upvalue-descriptor|is_closure", {"sites": n, "computed_by": sorted(kinds)[0]})
    elif n >= 2:
        from collections import Counter
        maj = Counter(h for _, _, h in sites).most_common(1)[0][0]
        odd = [(f, st, h) for f, st, h in sites if h != maj][0]
        ck.bad(R, "upvalue-descriptor|is_closure", "the bytecode generator describes a captured variable in %d places and computes `is_closure` differently in one of them (%s, elsewhere %s): the descriptor written last wins, so a closure whose last access to a captured function value is an assignment is recorded as not holding a closure — the VM does not retain it when the capturing closure is closed and the escaping closure calls a released object" % (n, odd[2], maj), odd[0].where(odd[1]))
    ck.floor(R, "upvalue_descriptor_sites", n, 2)


def rule_release_order(ck, facts, R="C12.offsets"):
    """what a dying object owns is read before the object is given back"""
    from ..cfg import dominators

    lang = facts.crate(roles.LANG)
    n = 0
    for f in lang.fns:
        if "::runtime::" not in f.path or f.kind == "promoted" or "::test" in f.path:
            continue
        rel = [(b, t) for b, t in f.calls() if (callee(t) or "").split("::")[-1] in ("heap_release", "remove") and ("heap" in (callee(t) or "").lower() or "SlotMap" in (callee(t) or ""))]
        if not rel:
            continue
        dom = dominators(f)
        for b, t in rel:
            if t[7] is None:
                continue
            n += 1
            # the rest of this activation's straight-line work (not the next loop iteration)
            after = reachable(f, t[7], avoid=[d for d in dom[b] if d != b])
            gets = [(b2, t2) for b2, t2 in f.calls() if b2 in after and (callee(t2) or "").split("::")[-1] in ("get", "get_mut", "index", "index_mut", "get_unchecked") and ("SlotMap" in (callee(t2) or "") or "heap" in (callee(t2) or "").lower())]
            key = "release-order|%s" % f.short.split("::")[-1]
            if gets:
                ck.bad(R, key, "%s looks an object up in the heap storage after it has released a handle to that storage on the same path: when the release was the last reference the object is gone, the lookup answers `None` (or another object that took the slot), and the values the object owned — nested boxes, closures — are never released" % f.short, f.where(gets[0][1]))
            else:
                ck.ok(R, key)
    ck.floor(R, "heap_release_sites", n, 8)


def _places(x):
    out = []
    if isinstance(x, list):
        if len(x) == 2 and isinstance(x[0], int) and isinstance(x[1], list):
            out.append(x)
        else:
            for y in x:
                out.extend(_places(y))
    return out


def run(ck, facts, tier):
    from ..callgraph import CallGraph

    rule_synthesised_closures(ck, facts)
    rule_wasm_release(ck, facts)

    rule_pairing(ck, facts, None)
    rule_projection_clone(ck, facts)
    rule_scope_exit_unconditional(ck, facts)
    rule_guard_set(ck, facts)
    rule_walker_recursion(ck, facts)
    rule_vm_walker_offsets(ck, facts)
    rule_release_order(ck, facts)
    rule_return_arms(ck, facts)
    rule_wrapper_released(ck, facts)
    rule_creation_registers(ck, facts)
    rule_upvalue_descriptor(ck, facts)
    rule_walkers(ck, facts)
    rule_predicates(ck, facts)
    rule_predicate_recursion(ck, facts)
    ck.not_decided("boundedness of live closures / heap objects over time on concrete programs; temporaries cloned by projections that are neither bound nor passed on")
