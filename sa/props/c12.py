"""C12 — long-running programs do not accumulate closures or heap objects (retain/release discipline)."""
from .. import roles
from ..cfg import reachable
from ..facts import KIND, callee
from ..rules import cover

LEVEL = "other"
EXPLANATION = (
    "Retain/release discipline at the generator and VM level, decided on MIR as sibling agreement: every Return* arm of the VM "
    "dispatch loop performs the same release calls; every VM arm that creates a closure or heap object registers it in the frame's "
    "release list; the compiler's recursive clone / release / close inserters and the VM's run-time clone / release walkers handle "
    "the same set of Type variants (a type retained but never released leaks by construction; the reverse dangles); the recursive "
    "type predicates that decide where reference-count operations are emitted quantify aggregates existentially in every arm "
    "(Tuple/Record/Union alike). Boundedness over time and use-after-release on concrete runs are not decided."
)


def arm_callees(f, cov, v):
    tb = cov.arm_target(v)
    if tb is None:
        return []
    out = []
    for b in reachable(f, tb, stop=[cov.primary.block]):
        t = f.term(b)
        if t[KIND] == "call":
            c = callee(t)
            if c:
                out.append(c)
    return out


def rule_return_arms(ck, facts):
    R = "C12.return"
    ck.rule(R, "all Return* arms of the VM dispatch loop call the same set of release_* functions of the machine before leaving the frame")
    vd = roles.vm_dispatch(facts)
    ck.require(R, vd is not None, "anchor|vm-dispatch", "VM dispatch loop not found")
    if vd is None:
        return
    f = vd.fn
    rets = [v for v in vd.names if v.startswith("Return")]
    ck.floor(R, "return_arms", len(rets), 2)
    rel = {}
    for v in rets:
        rel[v] = sorted({c.split("::")[-1] for c in arm_callees(f, vd, v) if "Machine::release" in c or c.split("::")[-1].startswith("release_")})
    union = sorted({x for xs in rel.values() for x in xs})
    ck.floor(R, "release_functions_called_on_return", len(union), 2)
    for v in rets:
        missing = [x for x in union if x not in rel[v]]
        if missing:
            ck.bad(R, "arm|%s" % v, "VM arm %s leaves the frame without calling %s (the sibling return arm does): closures / heap objects created in frames that return this way are never released" % (v, ", ".join(missing)), f.where())
        else:
            ck.ok(R, "arm|%s" % v, {"arm": v, "releases": rel[v]})


def rule_creation_registers(ck, facts):
    R = "C12.register"
    ck.rule(R, "every VM arm that allocates a closure or a heap closure pushes its handle onto the frame's release list (local_closures / local_heap_closures)")
    vd = roles.vm_dispatch(facts)
    if vd is None:
        return
    f = vd.fn
    names = f.dbg_names()
    lists = {l for l, n in names.items() if n in ("local_closures", "local_heap_closures")}
    ck.require(R, len(lists) >= 2, "anchor|release-lists", "frame release lists not found among the dispatch function's locals")
    n = 0
    for v in sorted(vd.primary_handled()):
        cs = arm_callees(f, vd, v)
        # role: machine methods that allocate a closure object (they reach vm::Closure::new)
        creates = [c for c in cs if c.rsplit("::", 1)[-1].startswith("allocate_") and "closure" in c.rsplit("::", 1)[-1]]
        if not creates:
            continue
        n += 1
        pushes = [c for c in cs if c.endswith("Vec::<T, A>::push") or c.endswith("::push")]
        if pushes:
            ck.ok(R, "arm|%s" % v, {"arm": v, "creates": [c.split("::")[-1] for c in creates][:2], "registers": True})
        else:
            ck.bad(R, "arm|%s" % v, "VM arm %s allocates (%s) without registering the handle in a frame release list" % (v, creates[0].split("::")[-1]), f.where())
    ck.floor(R, "closure_allocating_arms", n, 2)


def rule_walkers(ck, facts):
    R = "C12.walkers"
    ck.rule(R, "the recursive clone and release walkers over Type (compiler inserters and VM run-time walkers) have explicit arms for the same Type variants; the close-closures inserter handles a subset of them")
    lang = facts.crate(roles.LANG)
    groups = {
        "compiler": ("insert_clone_recursively", "insert_release_recursively", "insert_close_closures_recursively"),
        "vm": ("clone_usersum_recursive", "release_usersum_recursive", None),
    }
    for gname, (cl, rl, cc) in groups.items():
        covs = {}
        for nm in (cl, rl, cc):
            if nm is None:
                continue
            fs = [f for f in lang.fns if f.short.endswith("::" + nm) and f.kind in ("assoc", "fn")]
            if fs:
                covs[nm] = cover.coverage(facts, fs[0], roles.TYPE)
        ck.require(R, cl in covs and rl in covs and covs[cl] and covs[rl], "anchor|%s" % gname, "%s clone/release walkers not found" % gname)
        if not (cl in covs and rl in covs and covs[cl] and covs[rl]):
            continue
        a, b = covs[cl].primary_handled(), covs[rl].primary_handled()
        if a == b:
            ck.ok(R, "pair|%s" % gname, {"clone": cl, "release": rl, "variants": sorted(a)})
        else:
            ck.bad(R, "pair|%s" % gname, "%s handles Type variants %s but %s handles %s: values of the types in the difference are retained without release (leak) or released without retain (dangling handle)" % (cl, sorted(a), rl, sorted(b)), covs[cl].fn.where())
        if cc and cc in covs and covs[cc]:
            c = covs[cc].primary_handled()
            if c <= a:
                ck.ok(R, "close|%s" % gname, {"close": cc, "variants": sorted(c)})
            else:
                ck.bad(R, "close|%s" % gname, "%s handles %s which the clone walker does not" % (cc, sorted(c - a)), covs[cc].fn.where())


def rule_predicates(ck, facts):
    R = "C12.predicates"
    ck.rule(R, "in the recursive Type predicates that steer reference counting (contains_function / contains_boxed / contains_code ...), every aggregate arm quantifies its elements with the same quantifier (`any`): an aggregate contains X iff some element does")
    lang = facts.crate(roles.LANG)
    preds = [f for f in lang.fns if f.kind == "assoc" and f.short.startswith("types::Type::contains_") and f.local_ty(0) == "bool"]
    ck.floor(R, "type_predicates", len(preds), 3)
    for f in preds:
        cov = cover.coverage(facts, f, roles.TYPE)
        if not cov:
            continue
        quant = {}
        for v in sorted(cov.primary_handled()):
            cs = [c.split("::")[-1] for c in arm_callees(f, cov, v)]
            qs = sorted({c for c in cs if c in ("any", "all")})
            if qs:
                quant[v] = qs
        if not quant:
            continue
        kinds = {tuple(q) for q in quant.values()}
        name = f.short.split("::")[-1]
        if kinds == {("any",)}:
            ck.ok(R, "pred|%s" % name, {"predicate": name, "aggregate_arms": sorted(quant)})
        else:
            odd = {v: q for v, q in quant.items() if q != ["any"]}
            ck.bad(R, "pred|%s" % name, "Type::%s quantifies the elements of %s with %s while its other aggregate arms use `any`: an aggregate with one matching and one plain element is classified wrongly, so reference-count operations are not emitted for it" % (name, sorted(odd), sorted({x for q in odd.values() for x in q})), f.where())


def run(ck, facts, tier):
    rule_return_arms(ck, facts)
    rule_creation_registers(ck, facts)
    rule_walkers(ck, facts)
    rule_predicates(ck, facts)
    ck.not_decided("boundedness of live closures / heap objects over time on concrete programs (the agent that seeded defects reports that the pinned tree already leaks for closures passed as arguments or returned; no static rule here derives that)")
