"""C14 — the formatter never changes a program, loses no comment, and is idempotent (writer/reader agreement)."""
from .. import roles
from ..cfg import DefIndex, reachable
from ..facts import KIND, callee
from ..rules import cover
from ..rules.cursor import ParserModel
from ..symex import PathLimit, SymEx

LEVEL = "other"
EXPLANATION = (
    "Writer/reader agreement between the CST parser and the CST printer, decided on MIR: the printer dispatches on every "
    "SyntaxKind explicitly; node kinds printed by bare concatenation of their tokens must be kinds the parser only ever builds "
    "from a single token (otherwise adjacent tokens are glued together); wherever the printer tests a token kind for being a "
    "comment, both comment kinds are handled; every token is emitted through the one function that also emits its leading and "
    "trailing trivia; the rendered text is returned without textual post-processing (token texts, including multi-line strings "
    "and comments, stay verbatim). AST equality, idempotence and line-width behaviour for concrete inputs are not decided."
)
FMT = "mimium_fmt"
SK = "mimium_lang::compiler::parser::green::SyntaxKind"
TK = "mimium_lang::compiler::parser::token::TokenKind"


_FR = {}


def fmt_roles(facts):
    """the printer's primitives by role: `emitters` write a token's text with both of its trivia lists; `trivia` read both
    trivia lists of a token without writing it; `generic` is the dispatch over every SyntaxKind; `leaf` is what the
    literal kinds are printed with"""
    key = id(facts)
    if key in _FR:
        return _FR[key]
    out = {"emitters": set(), "trivia": set(), "generic": set(), "leaf": set()}
    best = None
    for g in facts.crate(FMT).fns:
        if "cst_print" not in g.path or g.kind != "fn" or "::test" in g.path:
            continue
        nm = {(callee(t) or "").split("::")[-1] for _, t in g.calls()}
        if "get_leading_trivia" in nm and "get_trailing_trivia" in nm:
            if cover.coverage(facts, g, TK) is None:  # a primitive, not a printer that walks children itself
                (out["emitters"] if "text" in nm else out["trivia"]).add(g.path)
        cv = cover.coverage(facts, g, SK)
        if cv is not None and cv.primary is not None and (best is None or len(cv.primary_handled()) > best[0]):
            best = (len(cv.primary_handled()), g, cv)
    if best:
        out["generic"].add(best[1].path)
        tb = best[2].arm_target("IntLiteral") if "IntLiteral" in best[2].primary_handled() else None
        if tb is not None:
            for b in reachable(best[1], tb, stop=[best[2].primary.block]):
                t = best[1].term(b)
                if t[KIND] == "call" and (callee(t) or "").startswith("mimium_fmt::"):
                    out["leaf"].add(callee(t))
    _FR[key] = out
    return out


def single_token_kinds(facts, pm):
    """SyntaxKind -> 'single' | 'multi' from the parser's node-building sites"""
    kinds = {}

    def note(k, v):
        if kinds.get(k) == "multi":
            return
        kinds[k] = v

    for f in pm.fns:
        if f.kind == "promoted":
            continue
        sx = SymEx(f, max_paths=400, max_steps=20000, call_hook=pm.hook, facts=facts)
        try:
            paths = sx.run(0)
        except PathLimit:
            paths = sx.paths
        for p in paths:
            ev = p.events
            # emit_node(kind, closure)
            for i, e in enumerate(ev):
                if e[0] != "call":
                    continue
                if e[1].endswith("::emit_node"):
                    k = None
                    for a in e[2]:
                        if a[0] == "agg" and a[1].startswith(SK + "::"):
                            k = a[1].rsplit("::", 1)[1]
                    c = pm.closure_arg(e[2])
                    if k and c:
                        g = pm.by_path.get(c)
                        note(k, classify_closure(facts, pm, g))
                elif e[1].endswith(("GreenTreeBuilder::start_node", "GreenTreeBuilder::start_node_at")):
                    k = None
                    for a in e[2]:
                        if a[0] == "agg" and a[1].startswith(SK + "::"):
                            k = a[1].rsplit("::", 1)[1]
                    if not k:
                        continue
                    # count parser calls until the matching finish_node on this path
                    depth = 1
                    calls = []
                    for e2 in ev[i + 1:]:
                        if e2[0] != "call":
                            continue
                        if e2[1].endswith(("GreenTreeBuilder::start_node", "GreenTreeBuilder::start_node_at")):
                            depth += 1
                        elif e2[1].endswith("GreenTreeBuilder::finish_node"):
                            depth -= 1
                            if depth == 0:
                                break
                        elif pm.mutating(e2[1], e2[2]):
                            calls.append(e2[1])
                    single = len(calls) == 1 and pm.bump is not None and (calls[0] == pm.bump.path or calls[0].endswith("::expect")) and not e[1].endswith("start_node_at")
                    note(k, "single" if single else "multi")
    return kinds


def classify_closure(facts, pm, g):
    if g is None:
        return "multi"
    sx = SymEx(g, max_paths=200, max_steps=8000, call_hook=pm.hook, facts=facts)
    try:
        paths = sx.run(0)
    except PathLimit:
        return "multi"
    for p in paths:
        if p.end == "loop":
            return "multi"
        calls = [e for e in p.events if e[0] == "call" and pm.mutating(e[1], e[2])]
        if len(calls) != 1:
            return "multi"
        c = calls[0][1]
        if not (pm.bump is not None and c == pm.bump.path or c.endswith("::expect") or c.endswith("::expects")):
            return "multi"
    return "single"


def rule_dispatch(ck, facts, pm):
    R = "C14.dispatch"
    ck.rule(R, "the printer's dispatch has an explicit arm for every SyntaxKind; kinds whose arm prints the children by bare concatenation (the leaf printer) are kinds the parser builds from exactly one token at every construction site")
    fmt = facts.crate(FMT)
    cands = [c for c in cover.find_matchers(facts, FMT, SK, min_arms=30) if not roles.is_derived(c.fn)]
    ck.require(R, len(cands) >= 1, "anchor|dispatch", "no function of mimium_fmt dispatches on SyntaxKind with >= 30 arms")
    if not cands:
        return
    cov = max(cands, key=lambda c: len(c.primary_handled()))
    f = cov.fn
    adt = facts.adt(SK)
    ck.floor(R, "syntax_kinds", len(adt["variants"]), 55)
    if cov.catchall:
        ck.bad(R, "catchall|%s" % f.short, "the printer's dispatch has a catch-all arm covering %s" % sorted(cov.catchall)[:8], f.where())
    else:
        ck.ok(R, "exhaustive|%s" % f.short.split("::")[-1], {"arms": len(cov.primary_handled())})
    # the leaf printer: the callee shared by the literal kinds (role: the function called from the arm of IntLiteral)
    leaf = None
    tb = cov.arm_target("IntLiteral")
    if tb is not None:
        for b in reachable(f, tb, stop=[cov.primary.block]):
            t = f.term(b)
            if t[KIND] == "call" and (callee(t) or "").startswith(FMT + "::"):
                leaf = callee(t)
                break
    ck.require(R, leaf is not None, "anchor|leaf-printer", "could not identify the bare-concatenation printer (callee of the IntLiteral arm)")
    if leaf is None:
        return
    kinds = single_token_kinds(facts, pm)
    ck.floor(R, "syntax_kinds_built_by_parser", len(kinds), 40)
    n = 0
    for v in sorted(cov.primary_handled()):
        tb = cov.arm_target(v)
        calls = [callee(f.term(b)) for b in reachable(f, tb, stop=[cov.primary.block]) if f.term(b)[KIND] == "call"]
        if leaf not in calls:
            continue
        n += 1
        k = kinds.get(v)
        if k == "multi":
            ck.bad(R, "leaf|%s" % v, "SyntaxKind::%s nodes are built by the parser from several tokens/children, but the printer prints them by bare concatenation (%s): adjacent tokens are glued together (e.g. `match s {` becomes `matchs{`) and the output no longer parses to the same program" % (v, leaf.split("::")[-1]), f.where())
        else:
            ck.ok(R, "leaf|%s" % v, {"kind": v, "parser_builds_it_from": k or "never (not built)"})
    ck.floor(R, "kinds_printed_by_concatenation", n, 10)


def _enum_const(facts, f, di, op, depth=0):
    """variant name if the operand is (a reference to) a constant fieldless enum value"""
    if depth > 5:
        return None
    if op[0] == "c":
        if op[1] == "p":
            g = facts.fn("%s::promoted[%d]" % (op[2], op[3]))
            if g is not None:
                for b, s in g.all_stmts():
                    if s[KIND] == "a" and s[5][0] == "agg" and s[5][1][0] == "adt":
                        return s[5][1][3]
        return None
    r = di.resolve(op)
    if r[0] == "const":
        return _enum_const(facts, f, di, r[1], depth + 1)
    if r[0] == "rv":
        rv = r[1][5]
        if rv[0] == "agg" and rv[1][0] == "adt":
            return rv[1][3]
        if rv[0] == "ref":
            return _enum_const(facts, f, di, ["cp", [rv[1][0], []]], depth + 1)
    return None


def rule_comment_kinds(ck, facts):
    R = "C14.comment-kinds"
    ck.rule(R, "in the formatter, every test on a token's kind that names one comment kind explicitly names the other one too (no site treats `//` comments as comments and `/* */` comments as something else by default, or vice versa)")
    fmt = facts.crate(FMT)
    adt = facts.adt(TK)
    d = {v["n"]: v["d"] for v in adt["variants"]}
    cs = [d.get("SingleLineComment"), d.get("MultiLineComment")]
    ck.require(R, all(x is not None for x in cs), "anchor|comment-kinds", "TokenKind comment variants not found")
    n = 0
    for f in fmt.fns:
        if "cst_print" not in f.path or "::tests" in f.path or f.kind == "promoted":
            continue
        for sw in cover.enum_switches(f, TK):
            has = [c in sw.targets for c in cs]
            if not any(has):
                continue
            n += 1
            root = f.root.split("::", 1)[1]
            if all(has):
                ck.ok(R, "site|%s" % root, {"fn": root})
            else:
                missing = "MultiLineComment" if has[0] else "SingleLineComment"
                ck.bad(R, "site|%s|%s" % (root, missing), "%s tests a token for being a comment but only names one comment kind; %s falls into the default branch, so such comments are treated as non-comments here (dropped or misplaced)" % (f.short, missing), f.where(f.term(sw.block)))
        # single-variant tests are lowered to `discriminant == K`
        di = None
        for b, st in f.all_stmts():
            if st[KIND] == "a" and st[5][0] == "bin" and st[5][1] in ("eq", "ne"):
                from ..facts import const_int

                for a, o in ((st[5][2], st[5][3]), (st[5][3], st[5][2])):
                    k = const_int(o)
                    if k is None or str(k) not in cs or a[0] not in ("cp", "mv"):
                        continue
                    di = di or DefIndex(f)
                    r = di.resolve(a)
                    if r[0] == "rv" and r[1][5][0] == "disc" and cover.ty_matches(r[1][5][2], TK):
                        n += 1
                        root = f.root.split("::", 1)[1]
                        other = "MultiLineComment" if str(k) == cs[0] else "SingleLineComment"
                        ck.bad(R, "site|%s|%s" % (root, other), "%s tests a token for being a comment but only names one comment kind; %s is treated as a non-comment here (dropped or misplaced)" % (f.short, other), f.where(st))
        # `kind == TokenKind::X` through PartialEq
        for b, t in f.calls():
            c = callee(t) or ""
            if not (c.endswith("::eq") or c.endswith("::ne")) or "TokenKind" not in (t[4].get("a0") or ""):
                continue
            di = di or DefIndex(f)
            for a in t[5]:
                vname = _enum_const(facts, f, di, a)
                if vname in ("SingleLineComment", "MultiLineComment"):
                    n += 1
                    root = f.root.split("::", 1)[1]
                    other = "MultiLineComment" if vname == "SingleLineComment" else "SingleLineComment"
                    ck.bad(R, "site|%s|%s" % (root, other), "%s compares a token kind with TokenKind::%s only; %s is treated as a non-comment here (dropped or misplaced)" % (f.short, vname, other), f.where(t))
    ck.floor(R, "comment_kind_tests", n, 3)


def rule_trivia_sinks(ck, facts):
    R = "C14.trivia"
    ck.rule(R, "tokens are emitted only through the function that also emits their leading and trailing trivia; that function reads both trivia maps")
    fmt = facts.crate(FMT)
    # role: the function that reads both leading and trailing trivia of one token and the token text
    emitters = []
    for f in fmt.fns:
        if "cst_print" not in f.path or f.kind != "fn":
            continue
        names = [(callee(t) or "").split("::")[-1] for _, t in f.calls()]
        # the token emitter: reads both trivia maps of a token *and* the token's own text
        if "get_leading_trivia" in names and "get_trailing_trivia" in names and "text" in names and any((callee(t) or "").endswith("Token::text") and "parser" in (callee(t) or "") for _, t in f.calls()):
            emitters.append(f)
    ck.require(R, len(emitters) == 1, "anchor|token-emitter", "expected one function reading both trivia maps of a token and its text, found %d" % len(emitters))
    if len(emitters) != 1:
        return
    em = emitters[0]
    ck.ok(R, "emitter|%s" % em.short.split("::")[-1], {"fn": em.short})
    # printers that read only one of the maps are special cases: list them
    partial = []
    for f in fmt.fns:
        if "cst_print" not in f.path or f.kind == "promoted" or "::tests" in f.path:
            continue
        names = {(callee(t) or "").split("::")[-1] for _, t in f.calls()}
        if ("get_trailing_trivia" in names) != ("get_leading_trivia" in names):
            partial.append(f.root.split("::", 1)[1])
    ck.setcount("printers_reading_one_trivia_map", len(set(partial)))
    ck.note("printers that read only one trivia map of a token (hand-written comment placement): %s" % sorted(set(partial)))


def rule_trivia_lookup(ck, facts):
    """which token a comment belongs to is looked up by searching the list of syntax-token indices: all of it"""
    R = "C14.trivia-sinks"
    n = 0
    for f in facts.crate(FMT).fns:
        if f.kind != "fn" or "cst_print" not in f.path or "::test" in f.path:
            continue
        rt = (f.d.get("locals") or [""])[0]
        if "Option<usize>" not in rt or not any("PreParsedTokens" in t for t in f.d.get("locals", [])[1 : f.d.get("argc", 0) + 1]):
            continue
        fam = facts.family(FMT, f.root)
        touches = any("token_indices" in repr(s2) for g in fam for _, s2 in g.all_stmts())
        if not touches:
            continue
        n += 1
        cut = []
        for g in fam:
            for _, t in g.calls():
                c = callee(t) or ""
                nm = c.split("::")[-1]
                full = (t[4].get("full") or "") if isinstance(t[4], dict) else ""
                if (nm in ("index", "index_mut", "get", "get_mut") and ("Range" in c or "Range" in full)) or nm in ("take", "skip", "split_at", "split_first", "split_last", "take_while", "skip_while", "step_by", "chunks", "first", "last", "truncate"):
                    cut.append((g, t, nm))
        key = "lookup|%s" % f.short.split("::")[-1]
        if cut:
            g, t, nm = cut[0]
            ck.bad(R, key, "%s maps a token to its place among the syntax tokens by searching only a part of `token_indices` (`%s`): for the tokens outside that part the lookup answers `None` and the token is printed without the comments attached to it" % (f.short, nm), g.where(t))
        else:
            ck.ok(R, key)
    ck.floor(R, "trivia_owner_lookups", n, 1)


def rule_no_postprocess(ck, facts):
    R = "C14.verbatim"
    ck.rule(R, "in the function that renders the document, the rendered text reaches the return value without passing through text-rewriting calls (lines/trim*/replace*/split*/to_lowercase...): token texts stay verbatim")
    fmt = facts.crate(FMT)
    renderers = [f for f in fmt.fns if any((callee(t) or "").endswith("::render") for _, t in f.calls()) and "::tests" not in f.path]
    ck.floor(R, "render_functions", len(renderers), 1)
    REWRITE = ("lines", "trim", "trim_end", "trim_start", "trim_matches", "trim_end_matches", "replace", "replacen", "split", "split_whitespace", "to_lowercase", "to_uppercase", "retain", "truncate", "strip_suffix", "strip_prefix", "char_indices", "split_terminator", "remove", "drain")
    for f in renderers:
        fam = facts.family(FMT, f.path)
        bad = []
        for g in fam:
            for b, t in g.calls():
                c = callee(t) or ""
                short = c.split("::")[-1]
                if short in REWRITE and ("str" in c or "String" in c):
                    # only after the render call (in f itself: reachable from the render block)
                    bad.append((g, t, short))
        rb = [b for b, t in f.calls() if (callee(t) or "").endswith("::render")]
        after = set()
        for b in rb:
            after |= reachable(f, b)
        bad2 = []
        for g, t, short in bad:
            if g.path == f.path:
                blk = [b for b, tt in f.calls() if tt is t][0]
                if blk in after:
                    bad2.append((g, t, short))
            else:
                bad2.append((g, t, short))
        key = "verbatim|%s" % f.short
        if bad2:
            g, t, short = bad2[0]
            ck.bad(R, key, "%s rewrites the rendered text with `%s` (%d such call(s)): the inside of multi-line tokens (string literals, block comments) is altered, changing the program or its comments" % (f.short, short, len(bad2)), g.where(t))
        else:
            ck.ok(R, key, {"fn": f.short})


def rule_token_text(ck, facts):
    R = "C14.token-text"
    ck.rule(R, "in the printer, the text of a token / trivia token (result of `.text(source)`) reaches the document as one piece: it is not taken apart or rewritten (lines / split* / trim* / replace* / chars ...) on the way, so the inside of a multi-line comment or string is not re-laid-out by the layout engine")
    from ..rules.chainwalk import taint
    fmt = facts.crate(FMT)
    REWRITE = ("lines", "trim", "trim_end", "trim_start", "trim_matches", "trim_end_matches", "trim_start_matches", "replace", "replacen", "split", "split_whitespace", "to_lowercase", "to_uppercase", "strip_suffix", "strip_prefix", "char_indices", "chars", "split_terminator", "split_once", "rsplit", "splitn", "bytes")
    n = 0
    for f in fmt.fns:
        if f.kind == "promoted" or "::tests" in f.path or "cst_print" not in f.path:
            continue
        seeds = [t[6][0] for _, t in f.calls() if (callee(t) or "").split("::")[-1] == "text" and ("Token" in (callee(t) or "") or "token" in (callee(t) or "")) and t[6] is not None]
        if not seeds:
            continue
        n += len(seeds)
        T = taint(f, seeds)
        bad = None
        for b, t in f.calls():
            c = callee(t) or ""
            short = c.split("::")[-1]
            if short in REWRITE and ("str" in c or "String" in c) and t[5] and t[5][0][0] in ("cp", "mv") and t[5][0][1][0] in T:
                bad = (t, short)
        key = "text|%s" % f.short.split("::")[-1]
        if bad is None:
            ck.ok(R, key, {"fn": f.short, "token_texts": len(seeds)})
        else:
            ck.bad(R, key, "%s takes a token's text apart with `%s` before it is put into the document: the pieces are joined again by the layout engine (line breaks pick up the current indentation), so the text of a multi-line block comment changes and grows with every formatting pass" % (f.short, bad[1]), f.where(bad[0]))
    ck.floor(R, "token_text_reads", n, 3)


def rule_keyword_space(ck, facts):
    R = "C14.keyword-space"
    ck.rule(R, "where the printer emits a word keyword token (if / else / let / letrec / fn / mod ...), a spacing document follows it before the next child is appended: either in the same match arm, or at the start of the branch that the arm's `seen_*` flag enables; otherwise the keyword and an operand that does not start with punctuation are glued together (`if gate {` becomes `ifgate {`, another program)")
    from ..cfg import natural_loops
    fmt = facts.crate(FMT)
    KW = ("If", "Else", "Let", "LetRec", "Function", "Mod", "Match", "Type", "Use", "Pub", "Include", "Rec", "Alias", "Macro")
    SP = ("space", "softline", "line", "hardline", "line_", "softline_")
    n = 0
    for f in fmt.fns:
        if f.kind == "promoted" or "cst_print" not in f.path or "::tests" in f.path:
            continue
        cov = cover.coverage(facts, f, TK)
        if not cov:
            continue
        loops = natural_loops(f)
        for v in sorted(cov.primary_handled()):
            if v not in KW or cov.arm_target(v) is None:
                continue
            tb = cov.arm_target(v)
            inner = [l for l in loops if tb in l[1]]
            hdr = [min(inner, key=lambda l: len(l[1]))[0]] if inner else []
            stop = [cov.primary.block] + hdr
            region = reachable(f, tb, stop=stop)
            emits = [b for b in region if f.term(b)[KIND] == "call" and (callee(f.term(b)) or "") in fmt_roles(facts)["emitters"]]
            if not emits:
                continue
            n += 1
            after = set()
            for b in emits:
                after |= set(reachable(f, b, stop=stop))
            spaced = any(b in region and f.term(b)[KIND] == "call" and (callee(f.term(b)) or "").split("::")[-1] in SP for b in after)
            key = "kw|%s|%s" % (f.short.split("::")[-1], v)
            if spaced:
                ck.ok(R, key, {"keyword": v, "spacing": "in the arm"})
                continue
            # flags set in the arm and the branch they enable
            flags = {st[4][0] for b in region for st in f.stmts(b) if st[KIND] == "a" and not st[4][1] and st[5][0] == "use" and st[5][1][0] == "c" and f.local_ty(st[4][0]) == "bool" and str(st[5][1][-1]) == "1" and f.dbg_names().get(st[4][0])}
            from ..cfg import DefIndex
            di = DefIndex(f)
            enabled_spaced = None
            for b in range(f.nblocks()):
                t = f.term(b)
                if f.is_cleanup(b) or t[KIND] != "switch" or t[4][0] not in ("cp", "mv") or t[4][1][1]:
                    continue
                # the tested value: the flag itself, a copy of it, or its negation
                loc = t[4][1][0]
                neg = False
                for _ in range(3):
                    if loc in flags:
                        break
                    d = di.single_def(loc)
                    if d is None or d[1] is None:
                        break
                    rv = d[2][5]
                    if rv[0] == "use" and rv[1][0] in ("cp", "mv") and not rv[1][1][1]:
                        loc = rv[1][1][0]
                    elif rv[0] == "un" and rv[1] == "not" and rv[2][0] in ("cp", "mv") and not rv[2][1][1]:
                        loc = rv[2][1][0]
                        neg = not neg
                    else:
                        break
                if loc not in flags:
                    continue
                listed = {int(x): tb2 for x, tb2 in t[6]}
                true_t = (t[7] if 0 in listed else listed.get(1)) if not neg else listed.get(0, t[7] if 1 in listed else None)
                if true_t is None:
                    continue
                reg2 = reachable(f, true_t, stop=stop)
                has_append = any(f.term(x)[KIND] == "call" and (callee(f.term(x)) or "").split("::")[-1] == "append" for x in reg2)
                if not has_append:
                    continue
                sp2 = any(f.term(x)[KIND] == "call" and (callee(f.term(x)) or "").split("::")[-1] in SP for x in reg2)
                enabled_spaced = sp2 if enabled_spaced is None else (enabled_spaced and sp2)
            if enabled_spaced:
                ck.ok(R, key, {"keyword": v, "spacing": "at the start of the branch its flag enables"})
            else:
                ck.bad(R, key, "%s emits the keyword `%s` and neither the arm nor the branch enabled by its flag appends a spacing document before the next child: with an operand that is not parenthesised the keyword and the operand are printed as one word (`if gate { .. }` is printed `ifgate { .. }`)" % (f.short, v.lower()), f.where(f.term(emits[0])))
    ck.floor(R, "keyword_arms", n, 5)


def _collect_locals(x, out):
    if isinstance(x, list):
        if len(x) == 2 and isinstance(x[0], int) and isinstance(x[1], list):
            out.add(x[0])
            return
        for y in x:
            _collect_locals(y, out)


def rule_list_items(ck, facts):
    R = "C14.list-items"
    ck.rule(R, "a printer loop that skips the comma tokens of a list and re-inserts separators itself delimits the items by those commas: a child is appended to the item under construction, and an item is only closed (pushed) in the comma arm or after the loop — pushing one item per child invents separators inside `x:float` or `g = 2.0`")
    from ..cfg import natural_loops
    fmt = facts.crate(FMT)
    n = 0
    # printers of the kinds in which a lone comma is significant: the parser tells `(x,)` (TupleExpr / TuplePattern /
    # TupleType) from `(x)` by that comma.  Found from the dispatch: callees (two calls deep) of the arms of Tuple* kinds.
    tuple_printers = set()
    dcands = [c for c in cover.find_matchers(facts, FMT, SK, min_arms=30) if not roles.is_derived(c.fn)]
    if dcands:
        dcov = max(dcands, key=lambda c: len(c.primary_handled()))
        for v in dcov.primary_handled():
            if not v.startswith("Tuple"):
                continue
            tb0 = dcov.arm_target(v)
            frontier = [callee(dcov.fn.term(b)) for b in reachable(dcov.fn, tb0, stop=[dcov.primary.block]) if dcov.fn.term(b)[KIND] == "call"]
            for _ in range(2):
                nxt = []
                for c in frontier:
                    g = facts.fn(c or "")
                    if g is None or g.crate != FMT or g.path in tuple_printers:
                        continue
                    tuple_printers.add(g.path)
                    nxt.extend(callee(t) or "" for _, t in g.calls())
                frontier = nxt
    ck.floor(R, "printers_of_tuple_kinds", len(tuple_printers), 3)
    for f in fmt.fns:
        if f.kind == "promoted" or "cst_print" not in f.path or "::tests" in f.path:
            continue
        cov = cover.coverage(facts, f, TK)
        if not cov or "Comma" not in cov.primary_handled() or cov.arm_target("Comma") is None:
            continue
        if not any((callee(t) or "").split("::")[-1] == "intersperse" for _, t in f.calls()):
            continue
        loops = natural_loops(f)
        tb = cov.arm_target("Comma")
        inner = [l for l in loops if tb in l[1]]
        if not inner:
            continue
        h, body = min(inner, key=lambda l: len(l[1]))
        stop = [cov.primary.block, h]
        comma_region = set()
        for v2 in cov.primary_handled():
            if v2 in getattr(cov, "catchall", ()) or cov.arm_target(v2) is None:
                continue
            comma_region |= set(reachable(f, cov.arm_target(v2), stop=stop))  # arms of explicit delimiter tokens
        pushes = [(b, t) for b, t in f.calls() if (callee(t) or "").split("::")[-1] == "push" and "Vec" in (callee(t) or "")]
        n += 1
        # a push outside the comma arm is item-aware if some test of the child (a discriminant / kind comparison
        # other than the token-kind dispatch itself) controls it; a push that only depends on plain flags is not
        from ..cfg import DefIndex, dominators
        dom = dominators(f)
        di = DefIndex(f)

        def item_aware(b):
            for d in dom.get(b, ()):
                if d == b or d not in body or d == cov.primary.block or f.term(d)[KIND] != "switch":
                    continue
                op = f.term(d)[4]
                if op[0] not in ("cp", "mv"):
                    continue
                r = di.resolve(op)
                if r[0] == "rv" and r[1][5][0] == "disc":
                    ty = r[1][5][2]
                    if "GreenNode" in ty:
                        continue  # token-or-node test: says nothing about which item the child belongs to
                    return True
                if r[0] == "call":
                    return True
            return False

        # ---- the comma of a one-item list: `(x,)` is a tuple, `(x)` is not.  A printer that swallows the commas and
        # puts items-1 separators back must remember that it saw a comma and emit one after the loop depending on that
        # (a one-item list with a comma, or any trailing comma).
        from ..facts import const_str
        comma_arm = set(reachable(f, tb, stop=stop))
        flags = set()
        for b in comma_arm:
            for st in f.stmts(b):
                if st[KIND] == "a" and not st[4][1] and f.local_ty(st[4][0]) == "bool" and st[5][0] == "use" and st[5][1][0] == "c":
                    flags.add(st[4][0])

        def depends(l, depth=3, seen=None):
            seen = seen if seen is not None else set()
            if l in flags:
                return True
            if depth == 0 or l in seen:
                return False
            seen.add(l)
            for (db, di_, ds) in di.defs.get(l, []):
                if di_ is not None:
                    srcs = set()
                    _collect_locals(ds[5], srcs)
                    if any(depends(x, depth - 1, seen) for x in srcs if x != l):
                        return True
                for d in dom.get(db, ()):
                    if d == db or f.term(d)[KIND] != "switch" or f.term(d)[4][0] not in ("cp", "mv"):
                        continue
                    if depends(f.term(d)[4][1][0], depth - 1, seen):
                        return True
            return False

        lone = False
        for b, t in f.calls():
            if b in body or (callee(t) or "").split("::")[-1] != "text" or len(t[5]) < 2:
                continue
            cur = t[5][1]
            txt = None
            for _ in range(5):
                r = di.resolve(cur) if cur[0] != "c" else ("const", cur)
                if r[0] == "const":
                    txt = const_str(r[1])
                    break
                if r[0] == "rv" and r[1][5][0] in ("ref", "raw"):
                    cur = ["cp", [r[1][5][1][0], []]]
                    continue
                break
            if txt != ",":
                continue
            for d in dom.get(b, ()):
                if d == b or d in body or f.term(d)[KIND] != "switch" or f.term(d)[4][0] not in ("cp", "mv"):
                    continue
                if depends(f.term(d)[4][1][0]):
                    lone = True
        k3 = "lone-comma|%s" % f.short.split("::")[-1]
        if f.path not in tuple_printers:
            pass  # a trailing comma carries no meaning in the lists this printer is used for
        elif lone:
            ck.ok(R, k3, {"fn": f.short, "comma_flags": len(flags)})
        else:
            ck.bad(R, k3, "%s swallows the list's commas and writes items-1 separators back, and nothing it emits after the loop depends on having seen a comma: the comma of a one-element list is lost, so the tuple `(x,)` / the pattern `(a,)` is printed as the parenthesised `(x)` / `(a)` — a different syntax tree" % f.short, f.where())
        bad = [t for b, t in pushes if b in body and b not in comma_region and not item_aware(b)]
        key = "items|%s" % f.short.split("::")[-1]
        if not bad:
            ck.ok(R, key, {"fn": f.short, "item_pushes": len(pushes)})
        else:
            ck.bad(R, key, "%s skips the list's comma tokens and inserts its own separators, but closes an item for every child instead of at the commas: a typed parameter or a parameter with a default value (several children) gets separators inside it (`fn f(x:float, g = 2.0)` is printed `fn f(x, :float, g, =2.0)`)" % f.short, f.where(bad[0]))
    ck.floor(R, "comma_skipping_list_printers", n, 1)


def rule_skipped_token_trivia(ck, facts):
    """comments hang on tokens (leading / trailing trivia): a token the printer consumes without printing it takes its
    comments with it"""
    from ..cfg import natural_loops

    R = "C14.skipped-trivia"
    ck.rule(R, "every arm of a printer's dispatch on the kind of a child *token* (a syntax token, not a trivia token) either emits the token through the trivia-aware emitter, reads that token's trivia itself, or hands the child to the generic printer: an arm that swallows the token (it writes the delimiter itself, or re-creates separators later) drops the comments attached to it")
    TRIVIA = {"Whitespace", "LineBreak", "SingleLineComment", "MultiLineComment", "Eof", "Error"}
    FR = fmt_roles(facts)
    EMIT = {"get_leading_trivia", "get_trailing_trivia"}
    # plus every function of the printer that reads both trivia maps of the token it is given (the token emitter and
    # trivia-only helpers), the generic printer and the leaf printer — all found by role
    EMIT |= {x.split("::")[-1] for x in FR["emitters"] | FR["trivia"] | FR["generic"] | FR["leaf"]}
    n = 0
    for f in facts.crate(FMT).fns:
        if f.kind == "promoted" or "cst_print" not in f.path or "::tests" in f.path:
            continue
        cov = cover.coverage(facts, f, TK)
        if not cov or cov.primary is None:
            continue
        loops = natural_loops(f)
        for v in sorted(cov.primary_handled()):
            if v in TRIVIA:
                continue
            tb = cov.arm_target(v)
            if tb is None:
                continue
            inner = [l for l in loops if tb in l[1]]
            if not inner:
                continue  # not a per-child dispatch
            stop = [cov.primary.block, min(inner, key=lambda l: len(l[1]))[0]]
            region = reachable(f, tb, stop=stop)
            names = {(callee(f.term(b)) or "").split("::")[-1] for b in region if f.term(b)[KIND] == "call"}
            n += 1
            key = "skip|%s|%s" % (f.short.split("::")[-1], v)
            emit_blocks = {b for b in region if f.term(b)[KIND] == "call" and (callee(f.term(b)) or "").split("::")[-1] in EMIT}
            hdr = stop[1]
            # a guarded arm (`Comma if in_params => { .. continue }`) shares its entry with the fall-through that prints
            # the token generically: the blocks that belong to the arm alone (not reachable from the fall-through
            # target) must not reach the next iteration without reading the token's trivia
            silent = False
            other = cov.primary.otherwise
            if names & EMIT and other is not None and other != tb and other in region:  # guarded arm
                shared = reachable(f, other, stop=stop)
                own = region - shared
                if tb in shared:
                    # the arm target is the shared test: start from its successors that the fall-through cannot reach
                    starts = [x for x in f.succs(tb) if x in own]
                else:
                    starts = [tb]
                for st in starts:
                    seen_ = reachable(f, st, stop=stop, avoid=emit_blocks | shared)
                    if any(hdr in f.succs(x) or x == hdr for x in seen_ if x in own):
                        silent = True
            if names & EMIT and not silent:
                ck.ok(R, key)
            elif silent:
                # must-pass-through: a guarded arm (`Comma if in_params => { .. continue }`) shares its entry with the
                # fall-through that prints the token; the guarded alternative itself must read the trivia too
                ck.bad(R, key + "|guarded", "%s: one alternative of the arm for a %s token goes on to the next child without emitting the token through the trivia-aware emitter and without reading its trivia (a guarded arm that swallows the token): a comment attached to that token is not in the output" % (f.short, v), f.where(f.term(tb)))
            else:
                ck.bad(R, key, "%s consumes a %s token without emitting it through the trivia-aware emitter and without reading its trivia: a comment attached to that token (e.g. written right after it) is not in the output" % (f.short, v), f.where(f.term(tb)))
    ck.floor(R, "token_arms_checked", n, 40)



def _mentions(f, b, local):
    """does block b use `local` other than by dropping it / assigning it as a whole?  -> (uses, redefines)"""
    from .c16 import _places_of

    uses = False
    redef = False
    for st in f.stmts(b):
        if st[KIND] != "a":
            continue
        pls = _places_of(st)
        if any(p[0] == local for p in pls[1:]):
            uses = True
        if pls[0][0] == local:
            if pls[0][1]:
                uses = True
            elif not uses:
                redef = True
        if st[5][0] == "bin" and any(o[0] in ("cp", "mv") and o[1][0] == local for o in st[5][2:4]):
            uses = True
    t = f.term(b)
    if t[KIND] == "call":
        if any(a[0] in ("cp", "mv") and a[1][0] == local for a in t[5]):
            uses = True
        elif t[6] is not None and t[6][0] == local and not t[6][1] and not uses:
            redef = True
    elif t[KIND] == "switch" and t[4][0] in ("cp", "mv") and t[4][1][0] == local:
        uses = True
    return uses, redef


def rule_carried_trivia(ck, facts):
    """comments read in one iteration of a printer loop reach the output even when nothing follows"""
    from ..cfg import natural_loops

    R = "C14.skipped-trivia"
    FR = fmt_roles(facts)
    prod = FR["emitters"] | FR["trivia"]
    n = 0
    for f in facts.crate(FMT).fns:
        if "cst_print" not in f.path or f.kind == "promoted" or "::test" in f.path:
            continue
        sites = [(b, t) for b, t in f.calls() if (callee(t) or "") in prod and t[6] is not None and not t[6][1]]
        if not sites:
            continue
        loops = natural_loops(f)
        for b, t in sites:
            inside = [(h, body) for h, body in loops if b in body]
            if not inside:
                continue
            h, body = min(inside, key=lambda x: len(x[1]))
            L = t[6][0]
            # aliases: the document is usually moved once into a named local (`x = emit(..)` on an existing `x` is a call
            # into a temporary, a drop of the old value and a move)
            for _ in range(3):
                mv = [(bb, st) for bb, st in f.all_stmts() if st[KIND] == "a" and not st[4][1] and st[5][0] == "use" and st[5][1][0] == "mv" and st[5][1][1] == [L, []]]
                if len(mv) == 1 and mv[0][0] in body:
                    b, L = mv[0][0], mv[0][1][4][0]
                else:
                    break
            n += 1
            # live across the back edge?  a path header -> ... -> use of L inside the loop that does not pass a redefinition
            seen = set()
            work = [h]
            live = False
            while work and not live:
                x = work.pop()
                if x in seen or x not in body:
                    continue
                seen.add(x)
                u, r = _mentions(f, x, L)
                if u and not (x == b):
                    live = True
                    break
                if r or x == b:
                    continue
                work.extend(f.succs(x))
            root = f.root.split("::")[-1]
            key = "carried|%s" % root
            if not live:
                ck.ok(R, key, {"printer": root, "trivia": "consumed in the iteration that read it"})
                continue
            # carried into the next iteration: every way out of the loop must still use it
            exits = {s2 for x in body for s2 in f.succs(x) if s2 not in body and not f.is_cleanup(s2)}
            lost = None
            seen = set()
            work = list(exits)
            while work and lost is None:
                x = work.pop()
                if x in seen:
                    continue
                seen.add(x)
                u, r = _mentions(f, x, L)
                if u:
                    continue
                if f.term(x)[KIND] == "return":
                    lost = x
                    break
                work.extend(s2 for s2 in f.succs(x) if not f.is_cleanup(s2))
            if lost is None:
                ck.ok(R, key, {"printer": root, "trivia": "carried to the next item and flushed after the loop"})
            else:
                ck.bad(R, key, "%s keeps the comments it read at one token in a local for the item that follows and never writes them when the loop ends first: comments behind the last separator of a list (`f(a, // first\n b, // second\n)`, `(1, 2, /* two */)`) disappear from the formatted program" % f.short, f.where(t))
    ck.floor(R, "trivia_reads_in_loops", n, 5)



def rule_type_kind_sets(ck, facts):
    """a printer that asks `is this child a type?` knows every kind of type the language has"""
    R = "C14.dispatch"
    lang = facts.crate(roles.LANG)
    T = None
    for f in lang.fns:
        if "::parser::lower::" in f.path and f.kind in ("assoc", "fn") and "TypeNodeId" in f.local_ty(0):
            cov = cover.coverage(facts, f, SK)
            if cov is not None and cov.primary is not None:
                hs = set(cov.primary_handled()) - set(getattr(cov, "catchall", ()))
                if len(hs) >= 5 and (T is None or len(hs) > len(T)):
                    T = hs
    ck.require(R, T is not None, "anchor|type-lowering", "the function that lowers a type node (dispatch on SyntaxKind, answers a TypeNodeId) was not found")
    if T is None:
        return
    n = 0
    for cov in cover.find_matchers(facts, FMT, SK):
        f = cov.fn
        if "::test" in f.path or f.kind == "promoted":
            continue
        S = set(cov.primary_handled()) - set(getattr(cov, "catchall", ()))
        if len(S) < 4 or not S <= T:
            continue
        n += 1
        key = "type-kinds|%s" % f.root.split("::")[-1]
        if S == T:
            ck.ok(R, key, {"kinds": len(S)})
        else:
            ck.bad(R, key, "%s recognises a type by a list of node kinds that lacks %s (the lowering accepts %d kinds of type): such a return type is taken for the first child of what follows, printed with a space in front and the real next child glued to it — `|x:float|->float|int x` becomes `-> float|intx`, another program" % (f.short, sorted(T - S), len(T)), f.where())
    ck.floor(R, "type_kind_tests", n, 1)


def token_texts(facts):
    """TokenKind variant -> its spelling, read off the arms of <TokenKind as Display>::fmt"""
    from ..cfg import DefIndex
    from ..facts import const_str

    out = {}
    for f in facts.crate(roles.LANG).fns:
        if "TokenKind" in f.path and "Display" in f.path and f.kind != "promoted":
            cov = cover.coverage(facts, f, TK)
            if not cov or cov.primary is None:
                continue
            di = DefIndex(f)
            for v in cov.primary_handled():
                tb = cov.arm_target(v)
                if tb is None:
                    continue
                for b in reachable(f, tb, stop=[cov.primary.block]):
                    t = f.term(b)
                    if t[KIND] != "call":
                        continue
                    for a in t[5]:
                        sv = None
                        if a[0] == "c":
                            sv = const_str(a)
                        else:
                            r = di.resolve(a)
                            if r[0] == "const":
                                sv = const_str(r[1])
                        if sv is not None:
                            out[v] = sv
    return out


def rule_token_glue(ck, facts):
    """two delimiter tokens of the same kind written next to each other"""
    from ..cfg import dominators

    R = "C14.token-glue"
    ck.rule(R, "a printer arm that writes both the opening and the closing delimiter of a list for one token kind K, where the spelling of K written twice is the spelling of another token (`|` `|` = `||`), never leaves nothing between them: on the `list is empty` edge of the arm the separator is not the empty document. (`| | body` printed as `|| body` is lexed as the or-operator and no longer parses.)")
    texts = token_texts(facts)
    ck.floor(R, "token_spellings", len(texts), 60)
    spell = set(texts.values())
    doubling = {k for k, v in texts.items() if v and (v + v) in spell}
    ck.setcount("self_gluing_token_kinds", len(doubling))
    n = 0
    for f in facts.crate(FMT).fns:
        if f.kind == "promoted" or "cst_print" not in f.path or "::tests" in f.path:
            continue
        cov = cover.coverage(facts, f, TK)
        if not cov or cov.primary is None:
            continue
        for v in sorted(cov.primary_handled() & doubling):
            tb = cov.arm_target(v)
            if tb is None:
                continue
            region = set(reachable(f, tb, stop=[cov.primary.block]))
            emits = [b for b in region if f.term(b)[KIND] == "call" and (callee(f.term(b)) or "") in fmt_roles(facts)["emitters"]]
            if len(emits) < 2:
                continue  # the arm writes the token once: not both delimiters
            n += 1
            dom = dominators(f)
            di = None
            bad = None
            for b in region:
                t = f.term(b)
                if t[KIND] != "switch" or t[4][0] not in ("cp", "mv"):
                    continue
                from ..cfg import DefIndex

                di = di or DefIndex(f)
                r = di.resolve(t[4])
                if not (r[0] == "call" and (callee(r[1]) or "").split("::")[-1] == "is_empty"):
                    continue
                # the edge on which is_empty() is true
                zero = [tb2 for vv, tb2 in t[6] if int(vv) == 0]
                true_edge = t[7] if zero else None
                if true_edge is None:
                    continue
                for b2 in region:
                    if b2 == true_edge or (true_edge in dom.get(b2, ()) and not any(z in dom.get(b2, ()) for z in zero)):
                        t2 = f.term(b2)
                        if t2[KIND] == "call" and (callee(t2) or "").split("::")[-1] == "nil":
                            bad = t2
            key = "delimiters|%s|%s" % (f.short.split("::")[-1], v)
            if bad is None:
                ck.ok(R, key, {"kind": v, "spelling": texts[v]})
            else:
                ck.bad(R, key, "%s writes `%s` for both ends of a list and, when the list is empty, nothing in between: `%s%s` is the spelling of another token, so `%s %s` (a lambda without parameters) is printed as `%s%s` and the output no longer parses" % (f.short, texts[v], texts[v], texts[v], texts[v], texts[v], texts[v], texts[v]), f.where(bad))
    ck.floor(R, "same_kind_delimiter_arms", n, 1)


def run(ck, facts, tier):
    pm = ParserModel(facts)
    ck.floor("C14.anchor", "fmt_bodies", len(facts.crate(FMT).fns), 100)
    rule_token_glue(ck, facts)
    rule_skipped_token_trivia(ck, facts)
    rule_carried_trivia(ck, facts)
    rule_dispatch(ck, facts, pm)
    rule_type_kind_sets(ck, facts)
    rule_comment_kinds(ck, facts)
    rule_trivia_sinks(ck, facts)
    rule_trivia_lookup(ck, facts)
    rule_no_postprocess(ck, facts)
    rule_token_text(ck, facts)
    rule_keyword_space(ck, facts)
    rule_list_items(ck, facts)
    from . import c13

    from . import c16 as _c16

    # the formatter moves own-line comments onto the preceding line: sound only while a comment cannot hide a line break
    _c16.rule_trivia_scan(ck, facts)
    c13.rule_trivia(ck, facts, loss=False, lazy=True)  # the overwrite clause: trivia the formatter never gets to see
    ck.not_decided("AST equality of input and output, idempotence, behaviour at every line width (run-time properties of the layout engine)")
