"""C04 — front end and compile entry points are total on arbitrary text."""
from .. import roles
from ..callgraph import CallGraph
from ..cfg import DefIndex, dominators, natural_loops, reachable
from ..facts import KIND, callee, place_fields
from ..rules import belief, chainwalk, guards
from ..rules.cursor import ParserModel
from ..symex import PathLimit, SymEx

LEVEL = "other"
EXPLANATION = (
    "No-stall and no-stated-abort clauses of front-end totality, decided on MIR: (progress) every loop of the CST parser "
    "advances the cursor, observes progress against a snapshot, is a counted/look-ahead loop, or is forced out on the next "
    "iteration (symbolic enumeration of loop cycles with token-kind knowledge); no cycle of parser calls can be followed without "
    "consuming a token; (belief) no todo!/unimplemented!/delegating abort is reachable from the parse and type-check entry "
    "points unless in a dead arm, behind a verified eliminating pass, or audited; (errors-as-values) compile entry points return "
    "Err whenever the parse-error list is non-empty, and MIR generation is entered only with an inference context whose error "
    "list was inspected on that path. Implicit panics (index/overflow), stack depth and chumsky's tokenizer are not decided."
)


def rule_progress(ck, facts, pm):
    R = "C04.progress"
    ck.rule(R, "every loop cycle of the CST parser shows ADV (must-advance call, with token-kind knowledge), SNAP (cursor != snapshot), ITER (counted), LOOK (pure look-ahead with increasing offset) or EXIT (next iteration leaves); no unguarded recursion cycle")
    n = 0
    for f, h, body in pm.loops():
        n += 1
        ok, bad, verd = pm.check_loop(f, h, body)
        # key by function + ordinal of the loop inside it (stable under line moves)
        idx = sorted(hh for ff, hh, _ in pm.loops() if ff.path == f.path).index(h) if False else None
        key = "loop|%s|%s" % (f.short, "+".join(sorted({str(v[0]) for v in verd})) or "none")
        if ok is None:
            ck.bad(R, "unanalysable|%s" % f.short, "loop in %s cannot be analysed: %s" % (f.short, bad), f.where(f.term(h)))
        elif ok:
            ck.ok(R, key, {"fn": f.short, "header_block": h, "cycle_verdicts": sorted({"%s: %s" % v for v in verd})[:6]})
        else:
            ck.bad(R, "stall|%s" % f.short, "a loop in %s can iterate without consuming a token: %s" % (f.short, bad[0]), f.where(f.term(h)))
    ck.floor(R, "parser_loops", n, 30)
    # recursion: edges that can be taken before any token is consumed must not form a cycle.  Nodes are
    # (method, token kind known at entry): a callee is analysed under the knowledge its call site established.
    unguarded = {}
    work = []
    for f in pm.fns:
        if f.kind == "promoted":
            continue
        if f.d["argc"] >= 1 and "cst_parser::Parser<" in f.local_ty(1) and f.local_ty(1).startswith("&mut"):
            work.append((f.path, None))
    paths_cache = {}
    while work:
        node = work.pop()
        if node in unguarded:
            continue
        fp, K = node
        f = pm.by_path[fp]
        if fp not in paths_cache:
            sx = SymEx(f, max_paths=300, max_steps=12000, call_hook=pm.hook, facts=facts)
            try:
                paths_cache[fp] = sx.run(0)
            except PathLimit:
                paths_cache[fp] = sx.paths
        outs = set()
        for p in paths_cache[fp]:
            mutated = False
            for i, e in enumerate(p.events):
                if e[0] != "call" or not pm.mutating(e[1], e[2]):
                    continue
                k = pm.known_kind(p.events, i)
                if k is None and not mutated:
                    # nothing consumed or learnt since entry: the caller's knowledge still holds unless a test on this
                    # path contradicts it (a path that tested peek()==other kind is infeasible under K: skip it)
                    k = K
                tgt = e[1]
                if tgt.endswith("::emit_node") or "call_once" in tgt:
                    c = pm.closure_arg(e[2])
                    tgt = c or tgt
                if tgt in pm.by_path:
                    outs.add((tgt, k))
                if pm.advances(e[1], e[2], k):
                    break
                mutated = True
        unguarded[node] = outs
        for o in outs:
            if o not in unguarded:
                work.append(o)
    # cycle detection (Tarjan-free: DFS colouring)
    color = {}
    cyc = []

    def dfs(u, stack):
        color[u] = 1
        stack.append(u)
        for v in sorted(unguarded.get(u, ()), key=str):
            if color.get(v, 0) == 0:
                dfs(v, stack)
            elif color.get(v) == 1:
                cyc.append(stack[stack.index(v):] + [v])
        stack.pop()
        color[u] = 2

    import sys

    sys.setrecursionlimit(10000)
    for u in sorted(unguarded, key=str):
        if color.get(u, 0) == 0:
            dfs(u, [])
    ck.setcount("parser_methods_in_recursion_graph", len(unguarded))
    ck.setcount("unguarded_call_edges", sum(len(v) for v in unguarded.values()))
    if cyc:
        for c in cyc[:4]:
            names = [("%s[%s]" % (x.split("::")[-1] if "{closure" not in x else x.split("::")[-2] + "::closure", k or "?")) for x, k in c]
            ck.bad(R, "left-recursion|%s" % "->".join(sorted(set(n.split("[")[0] for n in names))), "parser methods can call each other in a cycle without consuming a token: %s (unbounded descent on some input)" % " -> ".join(names), pm.by_path[c[0][0]].where())
    else:
        ck.ok(R, "recursion|acyclic-before-consumption", {"methods": len(unguarded)})


def frontend_roots(cg):
    roots = []
    for p, f in cg.fns.items():
        s = f.short
        if s in ("compiler::parser::parse_to_expr", "compiler::parser::parse", "compiler::mirgen::typecheck_with_module_info", "compiler::mirgen::typecheck", "compiler::emit_ast"):
            roots.append(p)
    return sorted(roots)


def rule_errors_as_values(ck, facts, cg):
    R = "C04.errors-as-values"
    ck.rule(R, "(a) in every compile entry point that parses, the path on which the parse-error vector is non-empty returns Err; (b) every InferContext handed to the MIR generator's constructor comes from a call whose error result was tested for emptiness on that path")
    lang = facts.crate(roles.LANG)
    # (a) functions that call parse_to_expr
    parsers = [f for f in lang.fns if any((callee(t) or "").endswith("::parse_to_expr") for _, t in f.calls()) and "::compiler::Context::" in f.path]
    ck.floor(R, "entry_points_that_parse", len(parsers), 1)
    for f in parsers:
        sx = SymEx(f, max_paths=64, facts=facts)
        try:
            paths = sx.run(0)
        except PathLimit:
            paths = sx.paths
        verdict = True
        seen = 0
        for p in paths:
            if p.end != "return":
                continue
            # is_empty(parse_errs) cond
            conds = [e for e in p.events if e[0] == "cond" and e[1][0] == "call" and e[1][1].endswith("::is_empty")]
            for c in conds:
                src = repr(c[1][2])
                if "parse_to_expr" not in src:
                    continue
                seen += 1
                empty = (c[3] and c[2] == 1) or ((not c[3]) and tuple(c[2]) == (0,))
                if not empty:
                    ret = p.env.get(0)
                    if not (ret and ret[0] == "agg" and ret[1].endswith("Result::Err")):
                        verdict = False
        key = "parse-errors|%s" % f.short
        if seen == 0:
            ck.bad(R, key + "|untested", "%s never tests the parse-error list returned by parse_to_expr: syntax errors would be dropped" % f.short, f.where())
        elif verdict:
            ck.ok(R, key, {"fn": f.short, "non_empty_parse_errors": "returns Err"})
        else:
            ck.bad(R, key, "%s can return something other than Err although the parse-error list is non-empty" % f.short, f.where())
    # (b) constructor of the MIR generator context: fn new(typeenv: InferContext, ..) in mirgen
    ctors = [f for f in lang.fns if f.short.startswith("compiler::mirgen::Context::new") and "InferContext" in f.local_ty(1)]
    ck.require(R, len(ctors) == 1, "anchor|mirgen-ctor", "MIR generator constructor taking an InferContext not found")
    if len(ctors) != 1:
        return
    ctor = ctors[0]
    # (c) a tree with parse errors never reaches MIR generation: in the functions that parse, every call that can
    #     reach the MIR generator's constructor comes after the `parse errors are empty` edge on its path
    reach_ctor = set(cg.reach_to([ctor.path])) if hasattr(cg, "reach_to") else None
    if reach_ctor is None:
        # reverse reachability by fixpoint over the call graph
        reach_ctor = {ctor.path}
        changed = True
        while changed:
            changed = False
            for pth, callees in cg.edges.items():
                if pth not in reach_ctor and any(c in reach_ctor for c in callees):
                    reach_ctor.add(pth)
                    changed = True
    for f in parsers:
        sx = SymEx(f, max_paths=64, facts=facts)
        try:
            paths = sx.run(0)
        except PathLimit:
            paths = sx.paths
        bad = None
        n_calls = 0
        for p in paths:
            empty_seen = False
            for e in p.events:
                if e[0] == "cond" and e[1][0] == "call" and e[1][1].endswith("::is_empty") and "parse_to_expr" in repr(e[1][2]):
                    empty_seen = (e[3] and e[2] == 1) or ((not e[3]) and tuple(e[2]) == (0,))
                    if not empty_seen:
                        empty_seen = "nonempty"
                if e[0] == "call" and e[1] in reach_ctor and e[1] != f.path:
                    n_calls += 1
                    if empty_seen is not True:
                        bad = e[3]
        key = "parse-errors-stop|%s" % f.short
        if n_calls == 0:
            continue
        if bad is None:
            ck.ok(R, key, {"fn": f.short, "mir_generation": "only after the parse-error list was found empty"})
        else:
            ck.bad(R, key, "%s hands the parsed tree to macro expansion / MIR generation before (or although) the parse-error list is non-empty: the later stages are written for well-formed trees and abort on the error nodes that recovery leaves behind (`f(else |> )` panics in the MIR generator instead of returning the two syntax diagnostics)" % f.short, f.where(bad))
    for f in lang.fns:
        sites = [(b, t) for b, t in f.calls() if callee(t) == ctor.path]
        if not sites or "::tests" in f.path:
            continue
        di = DefIndex(f)
        dom = dominators(f)
        for b, t in sites:
            # where may the InferContext argument come from?  resolve through copies; a local with several
            # definitions (if/else) yields several origins
            origins = []
            work = [t[5][0]]
            seen = set()
            while work:
                op = work.pop()
                if op[0] not in ("cp", "mv") or op[1][1]:
                    origins.append(("other", None, None))
                    continue
                l = op[1][0]
                if l in seen:
                    continue
                seen.add(l)
                ds = di.defs.get(l, []) + [x for x in di.partial.get(l, []) if x[1] is None]
                if not ds:
                    origins.append(("arg", l, None))
                for bb, i, s in ds:
                    if i is None:
                        origins.append(("call", s, bb))
                    elif s[5][0] == "use":
                        work.append(s[5][1])
                    else:
                        origins.append(("rv", s, bb))
            for kind, s, bb in origins:
                if kind != "call":
                    continue
                cn = callee(s) or ""
                # the producing call returns the context alone (infer_root) or inside a tuple with its errors
                # (typecheck_with_module_info); in both cases an emptiness test of the errors must guard the ctor call
                guarded = False
                dest = s[6][0]
                for d in dom[b]:
                    tt = f.term(d)
                    if tt[KIND] != "switch":
                        continue
                    r = di.resolve(tt[4])
                    if r[0] == "call" and (callee(r[1]) or "").endswith("::is_empty"):
                        # the tested vector must originate from the same producing call, or from the context's errors field
                        a = r[1][5][0]
                        rr = di.resolve(a)
                        txt = repr(rr)
                        # walk: &_errs where _errs is a field of the tuple returned by `s`, or errors field of the ctx
                        ok_src = False
                        if rr[0] == "rv" and rr[1][5][0] == "ref":
                            pl = rr[1][5][1]
                            base = pl[0]
                            dd = di.defs.get(base, [])
                            for _, ii, ss in dd:
                                if ii is not None and ss[5][0] == "use" and ss[5][1][0] in ("cp", "mv") and ss[5][1][1][0] == dest:
                                    ok_src = True
                            if base == dest:
                                ok_src = True
                            flds = place_fields(pl)
                            if flds and flds[-1] and flds[-1].endswith("InferContext::errors"):
                                ok_src = ok_src or True
                        if ok_src and bb in dom[d] | {d} or (ok_src and bb in dom[b]):
                            guarded = True
                key = "ctx-origin|%s|%s" % (f.short, cn.split("::")[-1])
                if guarded:
                    ck.ok(R, key, {"fn": f.short, "context_from": cn.split("::", 1)[-1], "guard": "is_empty(errors) dominates the generator's constructor"})
                else:
                    ck.bad(R, key, "%s hands the MIR generator an inference context produced by %s without inspecting that context's errors on the path: an ill-typed program reaches the 'typing guarantees it' aborts of mirgen" % (f.short, cn.split("::", 1)[-1]), f.where(s))


def _occurs_fn(facts):
    """the occurs check by role: the bool function of the unification module that dispatches on `Type` (with an arm for
    type variables), calls itself, and is consulted before a type variable is bound (its result guards a store)"""
    from ..rules import cover

    lang = facts.crate(roles.LANG)
    cands = []
    for f in lang.fns:
        if "::typing::unification::" not in f.path or f.kind != "fn" or f.local_ty(0) != "bool":
            continue
        cov = cover.coverage(facts, f, roles.TYPE)
        if cov is None or cov.primary is None or "Intermediate" not in cov.primary_handled():
            continue
        if any((callee(t) or "") == f.path for g in facts.family(roles.LANG, f.root) for _, t in g.calls()):
            cands.append(f)
    return cands


def rule_occurs(ck, facts):
    """the occurs check of unification must look at every component type: a variable bound to a type that contains
    itself makes every later traversal of that type recurse without end (stack overflow instead of CircularType)"""
    from ..rules import cover
    R = "C04.occurs"
    ck.rule(R, "occur_check visits every component of a composite type: each Type variant whose payload holds type references has its own arm, and no path of such an arm answers `false` before every type-valued payload field was handed to a (recursive) check")
    lang = facts.crate(roles.LANG)
    fs = _occurs_fn(facts)
    ck.require(R, len(fs) == 1, "anchor|occur_check", "the occurs check (recursive bool function over Type in typing::unification) was not found")
    if len(fs) != 1:
        return
    f = fs[0]
    cov = cover.coverage(facts, f, roles.TYPE)
    ck.require(R, cov is not None, "anchor|match", "occur_check no longer matches on Type")
    if cov is None:
        return
    adt = facts.adt(roles.TYPE)
    typed = {}
    for v in adt["variants"]:
        idx = [i for i, fld in enumerate(v["f"]) if "TypeNodeId" in fld[1] or "RecordTypeField" in fld[1]]
        if idx:
            typed[v["n"]] = idx
    ck.floor(R, "type_variants_with_type_payload", len(typed), 8)
    handled = cov.primary_handled()
    for v, idx in sorted(typed.items()):
        key = "arm|%s" % v
        if v not in handled or cov.arm_target(v) is None:
            ck.bad(R, key, "occur_check has no arm for Type::%s (it falls into the catch-all that answers `no occurrence`), although its payload holds type references: a type variable can be bound to a %s type that contains itself, and the traversals that follow never end (stack overflow in the type checker instead of a CircularType diagnostic)" % (v, v), f.where())
            continue
        tb = cov.arm_target(v)
        sx = SymEx(f, payload_place=cov.primary.place, max_paths=64, facts=facts)
        try:
            paths = sx.run(tb)
        except PathLimit:
            ck.bad(R, "unanalysable|%s" % v, "arm for Type::%s too large to enumerate" % v, f.where())
            continue
        early = None
        for p in paths:
            if p.end != "return":
                continue
            r = p.env.get(0)
            if not (isinstance(r, tuple) and r and r[0] == "k" and not r[1]):
                continue  # only constant-false answers
            txt = repr([e[2] for e in p.events if e[0] == "call"])
            missing = [i for i in idx if "('pay', '%s', %d)" % (v, i) not in txt]
            if missing:
                early = missing
        if early is None:
            ck.ok(R, key, {"variant": v, "type_fields": idx})
        else:
            names = [adt_field(adt, v, i) for i in early]
            ck.bad(R, key, "occur_check answers `no occurrence` for a Type::%s on a path that never looked at its component %s (components combined with `&&` instead of `||`): a variable can be bound to a %s type that contains it in that component, and later traversals never end" % (v, names, v), f.where())


def rule_occurs_resolved(ck, facts):
    """a resolved type variable stands for the type it was bound to"""
    from ..rules import cover
    R = "C04.occurs"
    lang = facts.crate(roles.LANG)
    fs = _occurs_fn(facts)
    if len(fs) != 1:
        return
    f = fs[0]
    cov = cover.coverage(facts, f, roles.TYPE)
    if cov is None or "Intermediate" not in cov.primary_handled() or cov.arm_target("Intermediate") is None:
        ck.bad(R, "arm|Intermediate", "occur_check has no arm for a type variable met inside the other type", f.where())
        return
    region = reachable(f, cov.arm_target("Intermediate"), stop=[cov.primary.block])
    members = [(f, set(region))]
    seen = {f.path}
    # closures created in the arm, and closures those create
    frontier = [(f, set(region))]
    while frontier:
        g, reg = frontier.pop()
        for b, blk in enumerate(g.bb):
            if blk["c"] or (reg is not None and b not in reg):
                continue
            for st in blk["s"]:
                if st[KIND] == "a" and st[5][0] == "agg" and st[5][1][0] == "closure":
                    h = facts.fn(st[5][1][1])
                    if h is not None and h.path not in seen:
                        seen.add(h.path)
                        members.append((h, None))
                        frontier.append((h, None))
    recurses = any((callee(t) or "") == f.path for g, reg in members for b, t in g.calls() if reg is None or b in reg)
    reads_parent = any("TypeVar::parent" in repr(st) for g, reg in members for b, st in g.all_stmts() if reg is None or b in reg)
    if recurses and reads_parent:
        ck.ok(R, "arm|Intermediate|parent", {"follows": "TypeVar::parent", "by": "recursive occur_check"})
    else:
        ck.bad(R, "arm|Intermediate|parent", "occur_check compares a type variable met inside the other type by its id only and does not follow the type it is already bound to (TypeVar::parent): after `let y = x` the variable of x hides behind y's, the circular constraint `x(x)` is accepted, the type graph becomes cyclic and the final substitution recurses until the stack overflows", f.where())


def adt_field(adt, v, i):
    for var in adt["variants"]:
        if var["n"] == v:
            return var["f"][i][0]
    return str(i)


def rule_env_balance(ck, facts, scopes=("::compiler::typing", "::compiler::mirgen")):
    """scopes of the type checker's environment are opened and closed in the same function body, on every path"""
    R = "C04.env-balance"
    ck.rule(R, "in every function body (closures count separately) of the type checker and of the MIR generator that opens or closes a scope of an environment (`extend` / `to_outer` on an Environment), the calls are balanced on every path to a return: the depth never goes below its value at entry and is back to it at every return. An error path that closes a scope it has not opened removes the enclosing scope — at top level the only one — and the next binding panics in Environment::add_bind")
    lang = facts.crate(roles.LANG)
    n = 0
    for f in lang.fns:
        if not any(sc in f.path for sc in scopes) or f.kind == "promoted" or "::test" in f.path:
            continue
        marks = {}
        for b, t in f.calls():
            c = callee(t) or ""
            if "Environment" not in c:
                continue
            nm = c.split("::")[-1]
            if nm == "extend":
                marks[b] = 1
            elif nm == "to_outer":
                marks[b] = -1
        if not marks:
            continue
        if any(k in f.local_ty(0) for k in ("InferContext", "Environment")) and not f.local_ty(0).startswith("&"):
            continue  # a constructor: it opens the outermost scope of the value it returns
        n += 1
        # forward data flow of the set of possible depths
        depth = {0: {0}}
        work = [0]
        under = None
        while work:
            b = work.pop()
            for d in list(depth[b]):
                nd = d + marks.get(b, 0)
                if nd < 0:
                    under = b
                    continue
                for sc in f.succs(b):
                    if f.is_cleanup(sc):
                        continue
                    cur = depth.setdefault(sc, set())
                    if nd not in cur and len(cur) < 6:
                        cur.add(nd)
                        work.append(sc)
        open_at_return = None
        for b, ds in depth.items():
            if f.term(b)[KIND] == "return" and any(d + marks.get(b, 0) != 0 for d in ds):
                open_at_return = b
        key = "balance|%s" % f.short.split("::", 2)[-1]
        if under is None and open_at_return is None:
            ck.ok(R, key)
        elif under is not None:
            ck.bad(R, key, "%s closes a scope of the environment (to_outer) on a path on which it has not opened one in the same body: the enclosing scope is removed instead (for a definition at top level the global scope itself), and the next binding panics instead of the diagnostic being reported" % f.short, f.where(f.term(under)))
        else:
            ck.bad(R, key, "%s returns on some path with a scope of the environment still open (extend without to_outer): bindings of the abandoned scope stay visible to whatever is checked next" % f.short, f.where())
    ck.floor(R, "scope_managing_bodies", n, 3)


def rule_silent_error_nodes(ck, facts):
    """the CST->AST lowering has no diagnostics channel: an error node it creates is silent"""
    from ..rules import cover
    R = "C04.silent-error"
    SK = "mimium_lang::compiler::parser::green::SyntaxKind"
    ck.rule(R, "the CST to AST lowering (which cannot report diagnostics) turns a syntax kind into Expr::Error only when a child the parser promises is missing (i.e. after a reported parse error): no arm for a regular syntax kind produces Expr::Error on every path, because such a kind is accepted by the parser without any error and then reaches type checking and code generation as an error node")
    lang = facts.crate(roles.LANG)
    n = 0
    for f in lang.fns:
        if "::parser::lower::" not in f.path or f.kind == "promoted" or "::test" in f.path:
            continue
        cov = cover.coverage(facts, f, SK)
        if not cov or len(cov.primary_handled()) < 5:
            continue
        for v in sorted(cov.primary_handled()):
            tb = cov.arm_target(v)
            if tb is None or v in getattr(cov, "catchall", ()) or v == "Error":
                continue
            region = set(reachable(f, tb, stop=[cov.primary.block]))
            errs = {b for b in region for st in f.stmts(b) if st[KIND] == "a" and st[5][0] == "agg" and st[5][1][0] == "adt" and st[5][1][1] == roles.EXPR and st[5][1][3] == "Error"}
            if not errs:
                continue
            n += 1
            # can the arm be left without passing an Expr::Error construction?
            seen, todo, escapes = set(), [tb], False
            while todo:
                x = todo.pop()
                if x in seen or x in errs or f.is_cleanup(x):
                    continue
                seen.add(x)
                t = f.term(x)
                if t[KIND] == "return" or x == cov.primary.block:
                    escapes = True
                    break
                for y in f.succs(x):
                    if y not in region:
                        escapes = True
                    todo.append(y)
                if escapes:
                    break
            key = "arm|%s|%s" % (f.short.split("::")[-1], v)
            if escapes:
                ck.ok(R, key)
            else:
                ck.bad(R, key, "%s lowers every %s node to Expr::Error, and the lowering has no way to report a diagnostic: the parser accepts the construct where it is not part of a statement sequence (`if (c) x = 5.0 else x = 7.0`, `_ => x = x + 10.0`) and the compile entry points then either drop it silently or hand an error node to the back ends (panic `Instruction not implemented: Error` on the VM, an invalid module on WASM)" % (f.short, v), f.where())
    ck.floor(R, "lowering_arms_with_error_nodes", n, 4)


def rule_assignment_protocol(ck, facts, only_kinds=None):
    """parser / lowering protocol for `target = value`: the parser emits it as two sibling nodes"""
    import re
    from ..rules import cover
    R = "C04.assign-protocol"
    SK = "mimium_lang::compiler::parser::green::SyntaxKind"
    ck.rule(R, "`parse_expr()` may leave an assignment as two sibling nodes (target, AssignExpr) in the node being built; the lowering of every syntax kind whose children are parsed with `parse_expr()` therefore reads them through the sequence-aware lowering (`lower_expr_sequence` or a function that calls it), not child by child with `lower_expr` — otherwise the assignment is dropped or becomes a silent error node")
    lang = facts.crate(roles.LANG)
    P = [f for f in lang.fns if "::parser::cst_parser::" in f.path and f.kind != "promoted" and "::test" not in f.path]
    pe = [f for f in P if f.short.endswith("Parser::<'a>::parse_expr")]
    ck.require(R, len(pe) == 1, "anchor|parse_expr", "Parser::parse_expr not found")
    if len(pe) != 1:
        return
    kinds = set()
    for f in P:
        if f.kind != "closure" or not any((callee(t) or "") == pe[0].path for _, t in f.calls()):
            continue
        for g in (h for h in P if h.root == f.root):
            di = DefIndex(g)
            for b, t in g.calls():
                if "emit_node" not in (callee(t) or ""):
                    continue
                for a in t[5]:
                    r = di.resolve(a) if a[0] in ("cp", "mv") else None
                    if r and r[0] == "rv" and r[1][5][0] == "agg" and r[1][5][1][0] == "closure" and r[1][5][1][1] == f.path and len(t[5]) > 1 and t[5][1][0] in ("cp", "mv"):
                        rk = di.resolve(t[5][1])
                        if rk[0] == "rv" and rk[1][5][0] == "agg" and rk[1][5][1][0] == "adt" and rk[1][5][1][1] == SK:
                            kinds.add(rk[1][5][1][3])
    ck.floor(R, "kinds_with_parse_expr_children", len(kinds), 10)
    L = [f for f in lang.fns if "::parser::lower::" in f.path and f.kind != "promoted" and "::test" not in f.path]
    byname = {f.short.split("::")[-1]: f for f in L if f.kind in ("assoc", "fn")}
    seq_fns = {f.path for f in L if f.short.split("::")[-1] in ("lower_expr_sequence",)}

    def seq_aware(paths, depth=2):
        seen = set()
        work = [(p, 0) for p in paths]
        while work:
            p, d = work.pop()
            if p in seen:
                continue
            seen.add(p)
            if p in seq_fns:
                return True
            g = facts.fn(p)
            if g is None or d >= depth or "::parser::lower::" not in p or p.endswith("::lower_expr"):
                continue  # the dispatcher itself is not followed: it reaches everything
            for _, t in g.calls():
                work.append((callee(t) or "", d + 1))
            for h in L:
                if h.root == g.path and h.path != g.path:
                    work.append((h.path, d))
        return False

    snake = lambda k: re.sub(r"(?<!^)(?=[A-Z])", "_", k).lower()
    for k in sorted(kinds):
        if only_kinds and k not in only_kinds:
            continue
        handlers = []
        for f in L:
            cov = cover.coverage(facts, f, SK)
            if cov and k in cov.primary_handled() and k not in getattr(cov, "catchall", ()) and cov.arm_target(k) is not None and len(cov.primary_handled()) >= 5:
                region = reachable(f, cov.arm_target(k), stop=[cov.primary.block])
                handlers += [callee(f.term(b)) or "" for b in region if f.term(b)[KIND] == "call"]
                # closures created in the arm
                for b in region:
                    for st in f.stmts(b):
                        if st[KIND] == "a" and st[5][0] == "agg" and st[5][1][0] == "closure":
                            handlers.append(st[5][1][1])
        for nm in ("lower_" + snake(k), "lower_" + snake(k).replace("_expr", ""), "lower_" + snake(k).replace("_decl", "")):
            if nm in byname:
                handlers.append(byname[nm].path)
        key = "kind|%s" % k
        if not handlers:
            ck.note("no lowering handler located for %s" % k)
            continue
        if seq_aware(handlers):
            ck.ok(R, key)
        else:
            ck.bad(R, key, "the children of a %s node are parsed with parse_expr(), which can leave `target = value` as two siblings, but the lowering of %s reads its children one by one: an assignment in that position is dropped without a diagnostic (or lowered to an error node)" % (k, k), None)


def run(ck, facts, tier):
    pm = ParserModel(facts)
    ck.floor("C04.anchor", "cst_parser_bodies", len(pm.fns), 120)
    rule_progress(ck, facts, pm)
    cg = CallGraph(facts, ["mimium_lang"])
    R = "C04.belief"
    ck.rule(R, "no stated-belief abort (todo!/unimplemented!/delegating unreachable!/panic!) reachable from the parse and type-check entry points, unless in a dead arm, behind a verified eliminating pass, or audited")
    roots = frontend_roots(cg)
    ck.floor(R, "frontend_entry_points", len(roots), 3)
    ck.note("front-end entry points: " + ", ".join(r.split("::", 1)[1] for r in roots))
    belief.run(ck, R, facts, cg, roots, "front-end")
    rule_errors_as_values(ck, facts, cg)
    rule_occurs(ck, facts)
    rule_occurs_resolved(ck, facts)
    rule_env_balance(ck, facts)
    rule_silent_error_nodes(ck, facts)
    rule_assignment_protocol(ck, facts)
    chainwalk.run(ck, facts, "C04.chain-walk", ["mimium_lang"])
    from ..rules import rewrite

    rewrite.run(ck, facts, "C04.rewrite-complete", belief.rewriting_passes(), eliminated_variants=belief.eliminated_variant_names())
    from . import c03

    c03.rule_admission(ck, facts)
    # diagnostics carry token spans: tokens must tile the text on character boundaries (shared rule of C13)
    from . import c13

    c13.rule_token_extent(ck, facts)
    from ..rules import spanorigin

    spanorigin.run(ck, facts, "C04.span-origin", ["mimium_lang"])
    # the tokenizer terminates and covers every text (model of the combinator value)
    c13.rule_lexer_model(ck, facts, tier, clauses=("tiling", "no-progress"))
    guards.run(ck, facts, "C03.guarded-index", ["mimium_lang"])
    ck.not_decided("implicit panics (slice/index/overflow asserts) — censused in the evidence counts only")
    ck.not_decided("stack depth for deep nesting; the tokenizer's own termination (chumsky); termination of type inference (dynamic occurs check)")
    ck.not_decided("diagnostic spans lie inside the text on character boundaries (depends on chumsky spans)")
