"""C13 — tokens and syntax tree are lossless over the source text."""
from .. import roles
from ..cfg import DefIndex, natural_loops
from ..facts import KIND, callee, place_fields
from ..rules.cursor import ParserModel
from ..symex import PathLimit, SymEx, show

LEVEL = "other"
EXPLANATION = (
    "Static linearity argument for the CST: the parser cursor has a single writer (bump) that increments it by exactly one and "
    "hands exactly the token under the old cursor to the tree builder; bump is the only caller of add_token; start_node*/"
    "finish_node are balanced on every path and every loop cycle of every parser method; the root loop leaves only at end of "
    "input; together with C04's progress rule every non-trivia token enters the tree exactly once, in order. Trivia: every "
    "index pushed to the pending list of the pre-parser must leave it into one of the two trivia maps (clear/drop = loss site). "
    "Token extents: every Token constructed by the tokenizer takes (start,len) from one span, is the zero-length end marker, or "
    "belongs to a chain that tiles an existing token. The tokenizer's own tiling (chumsky) is not decided."
)
PARSER_MOD = "::parser::cst_parser::"


def rule_cursor(ck, facts, pm):
    R = "C13.cursor"
    ck.rule(R, "the parser cursor field is written only by bump, as cursor+1; bump is the only caller of GreenTreeBuilder::add_token and passes the token index read at the old cursor")
    ck.require(R, pm.cursor_field is not None and pm.bump is not None, "anchor|cursor", "no Parser field written by a method that calls add_token (cursor/bump role not found)")
    if pm.bump is None:
        return
    ck.note("cursor field %s, writer %s" % (pm.cursor_field, pm.bump.short))
    lang = facts.crate(roles.LANG)
    # writers of the cursor field anywhere in the crate (constructors build the struct by aggregate, not by field write)
    writers = []
    for f in lang.fns:
        if f.kind == "promoted":
            continue
        for b, s in f.all_stmts():
            if s[KIND] == "a" and s[4][1]:
                last = s[4][1][-1]
                if isinstance(last, list) and last[0] == "f" and last[2] == pm.cursor_field:
                    writers.append((f, s))
    for f, s in writers:
        if f.path == pm.bump.path:
            continue
        ck.bad(R, "writer|%s" % f.short, "%s writes the parser cursor directly; only %s may move it (a token could be skipped without entering the tree, or revisited)" % (f.short, pm.bump.short), f.where(s))
    # bump: every path increments by one and adds the token at the old cursor
    sx = SymEx(pm.bump, max_paths=32, facts=facts)
    paths = sx.run(0)
    n = 0
    for p in paths:
        if p.end != "return":
            continue
        n += 1
        stores = [e for e in p.events if e[0] == "store" and pm.cursor_field in repr(e[1])]
        incs = []
        for e in stores:
            v = e[2]
            # (cursor add_ov 1).0
            ok = v[0] == "fld" and v[2] == 0 and v[1][0] == "bin" and v[1][1] in ("add_ov", "add") and v[1][3] == ("k", 1, "usize") and pm.cursor_field in repr(v[1][2])
            incs.append(ok)
        adds = [e for e in p.events if e[0] == "call" and e[1].endswith("GreenTreeBuilder::add_token")]
        gets = [e for e in p.events if e[0] == "call" and e[1].endswith("::get") and pm.cursor_field in repr(e[2])]
        key = "bump|path%d" % n
        if len(stores) == 1 and all(incs):
            ck.ok(R, key + "|inc", {"stores": 1, "value": "cursor + 1"})
        else:
            ck.bad(R, "bump|increment", "%s: a path changes the cursor %d time(s) / not by exactly +1" % (pm.bump.short, len(stores)), pm.bump.where())
        if len(adds) > 1:
            ck.bad(R, "bump|add-twice", "%s adds more than one token per call" % pm.bump.short, pm.bump.where())
        for a in adds:
            # the token index handed to add_token must be the element read at the cursor before the increment
            idx_txt = repr(a[2][1])
            if pm.cursor_field in idx_txt and "token_indices" in idx_txt:
                ck.ok(R, key + "|add", {"token": "token_indices[cursor]"})
            else:
                ck.bad(R, "bump|add-index", "%s passes %s to add_token, not the token index stored at the cursor" % (pm.bump.short, show(a[2][1])), pm.bump.where())
        # an add must precede the increment on the path (old cursor)
        if adds and stores:
            ia = p.events.index(adds[0])
            istore = p.events.index(stores[0])
            if ia > istore:
                ck.bad(R, "bump|order", "%s increments the cursor before reading the token" % pm.bump.short, pm.bump.where())
    ck.floor(R, "bump_paths", n, 2)
    # only caller of add_token
    callers = []
    for f in lang.fns:
        for b, t in f.calls():
            if (callee(t) or "").endswith("GreenTreeBuilder::add_token"):
                callers.append((f, t))
    ck.floor(R, "add_token_call_sites", len(callers), 1)
    for f, t in callers:
        if f.path != pm.bump.path:
            ck.bad(R, "add_token-caller|%s" % f.short, "%s calls add_token directly: a token enters the tree without the cursor moving (duplicate or out-of-order token)" % f.short, f.where(t))
        else:
            ck.ok(R, "add_token-caller|bump")


def rule_balance(ck, facts, pm):
    R = "C13.balance"
    ck.rule(R, "on every returning path and every loop cycle of every parser method or closure, #start_node + #start_node_at == #finish_node (callees and emit_node are balanced by induction)")
    n = 0
    for f in pm.fns:
        names = [(callee(t) or "") for _, t in f.calls()]
        if not any(x.endswith(("GreenTreeBuilder::start_node", "GreenTreeBuilder::start_node_at", "GreenTreeBuilder::finish_node")) for x in names):
            continue
        n += 1
        sx = SymEx(f, max_paths=600, max_steps=40000, call_hook=pm.hook, facts=facts)
        try:
            paths = sx.run(0)
        except PathLimit as e:
            ck.bad(R, "unanalysable|%s" % f.short, "too many paths to check node balance: %s" % e, f.where())
            continue
        bad = None
        for p in paths:
            if p.end == "diverge":
                continue
            net = 0
            if p.end == "loop":
                # count only the events of the cycle part: from the first visit of the loop header
                # (events are not indexed by block; approximate by re-running from the header)
                continue
            for e in p.events:
                if e[0] == "call":
                    if e[1].endswith(("GreenTreeBuilder::start_node", "GreenTreeBuilder::start_node_at")):
                        net += 1
                    elif e[1].endswith("GreenTreeBuilder::finish_node"):
                        net -= 1
            if net != 0:
                bad = (net, p)
                break
        # loop cycles
        if bad is None:
            for h, body in natural_loops(f):
                sx2 = SymEx(f, max_paths=600, max_steps=40000, call_hook=pm.hook, facts=facts)
                try:
                    cyc = [p for p in sx2.run(h) if p.end == "loop" and p.end_block == h]
                except PathLimit:
                    cyc = []
                for p in cyc:
                    net = 0
                    for e in p.events:
                        if e[0] == "call":
                            if e[1].endswith(("GreenTreeBuilder::start_node", "GreenTreeBuilder::start_node_at")):
                                net += 1
                            elif e[1].endswith("GreenTreeBuilder::finish_node"):
                                net -= 1
                    if net != 0:
                        bad = (net, p)
                        break
                if bad:
                    break
        if bad:
            net, p = bad
            calls = [e[1].split("::")[-1] for e in p.events if e[0] == "call"][-8:]
            ck.bad(R, "unbalanced|%s" % f.short, "%s: a path leaves %+d node frame(s) open/closed (…%s): later finish_node calls close the wrong nodes and earlier tokens drop out of the returned tree" % (f.short, net, " → ".join(calls)), f.where())
        else:
            ck.ok(R, "balanced|%s" % f.short, {"fn": f.short, "paths": len(paths)})
    ck.floor(R, "functions_with_node_frames", n, 6)



def rule_wrap_from_marker(ck, facts):
    """wrapping what was parsed since a marker keeps every node parsed since the marker, in order"""
    R = "C13.balance"
    lang = facts.crate(roles.LANG)
    n = 0
    for f in lang.fns:
        if "::parser::green::" not in f.path or f.kind not in ("assoc", "fn") or "::test" in f.path:
            continue
        if not any("Marker" in f.local_ty(i) for i in range(1, f.d["argc"] + 1)):
            continue
        names = [(callee(t) or "").split("::")[-1].split("<")[0] for _, t in f.calls()]
        if "push" not in names:
            continue  # does not open a node
        n += 1
        key = "wrap-from-marker|%s" % f.short.split("::")[-1]
        whole = [x for x in names if x in ("drain", "split_off")]
        single = [x for x in names if x in ("remove", "swap_remove", "pop", "get", "nth")]
        if whole and not single:
            ck.ok(R, key, {"fn": f.short.split("::")[-1], "moves": whole[0]})
        else:
            ck.bad(R, key, "%s opens a node at a marker without moving *all* children parsed since the marker into it (%s): the nodes that stay behind end up before the new node, so the leaves of the tree are no longer in source order (`(float) | int`: the parentheses and the inner type are three siblings, only the first is wrapped)" % (f.short, ("takes one element with `%s`" % single[0]) if single else "no drain / split_off from the marker position"), f.where())
    ck.floor(R, "marker_wrapping_builders", n, 1)


def rule_root(ck, facts, pm):
    R = "C13.root"
    ck.rule(R, "the root parse loop is left only when is_at_end() holds, and the root node is finished after the loop")
    roots = [f for f in pm.fns if f.short.endswith("Parser::<'a>::parse")]
    ck.require(R, len(roots) == 1, "anchor|root", "Parser::parse not found")
    for f in roots:
        loops = natural_loops(f)
        ck.require(R, len(loops) == 1, "root|loops", "expected one loop in the root parse function, found %d" % len(loops), f.where())
        if len(loops) != 1:
            continue
        h, body = loops[0]
        sx = SymEx(f, max_paths=64, call_hook=pm.hook, facts=facts)
        paths = sx.run(h)
        exits = [p for p in paths if p.end == "return"]
        ok = bool(exits)
        for p in exits:
            # the last cond before leaving must be is_at_end() == true
            conds = [e for e in p.events if e[0] == "cond"]
            leave = [c for c in conds if c[1][0] == "call" and c[1][1].endswith("::is_at_end")]
            if not leave or not ((leave[0][3] and leave[0][2] == 1) or ((not leave[0][3]) and tuple(leave[0][2]) == (0,))):
                ok = False
        if ok:
            ck.ok(R, "root|exit-at-end", {"exits": len(exits)})
        else:
            ck.bad(R, "root|exit-at-end", "the root loop can be left while tokens remain (exit not guarded by is_at_end())", f.where())


def rule_trivia(ck, facts, loss=True, lazy=False):
    R = "C13.trivia"
    ck.rule(R, "pre-parser: the pending-trivia vector only loses elements by append/extend into a trivia map; clear/truncate/pop/drain = loss site; storing it with a map `insert` overwrites the trivia the token already has")
    lang = facts.crate(roles.LANG)
    cands = [f for f in lang.fns if "::parser::preparser::" in f.path and f.kind == "fn"]
    target = None
    for f in cands:
        names = [(callee(t) or "") for _, t in f.calls()]
        if any(n.endswith("Vec::<usize>::push") or n.endswith("::push") for n in names) and any(n.endswith("::append") for n in names):
            target = f
    ck.require(R, target is not None, "anchor|preparse", "pre-parser function (pushes trivia indices, appends them to maps) not found")
    if target is None:
        return
    f = target
    # the pending vector: the local that is the *source* (2nd arg, by &mut) of append
    from ..cfg import DefIndex

    di = DefIndex(f)

    def base_local(op):
        for _ in range(6):
            if op[0] not in ("cp", "mv"):
                return None
            pl = op[1]
            if pl[1]:
                return pl[0] if pl[1] == ["*"] else None
            d = di.single_def(pl[0])
            if d is None or d[1] is None:
                return pl[0]
            rv = d[2][5]
            if rv[0] == "ref":
                if not rv[1][1]:
                    return rv[1][0]
                if rv[1][1] == ["*"]:
                    op = ["cp", [rv[1][0], []]]
                    continue
                return None
            if rv[0] == "use":
                op = rv[1]
                continue
            return pl[0]
        return None

    pend = set()
    for b, t in f.calls():
        c = callee(t) or ""
        if c.endswith("::append") and len(t[5]) == 2:
            l = base_local(t[5][1])
            if l is not None:
                pend.add(l)
    ck.require(R, len(pend) == 1, "anchor|pending", "could not identify the pending-trivia vector (sources of append: %s)" % sorted(pend))
    if len(pend) != 1:
        return
    pl = pend.pop()
    sinks = 0
    for b, t in f.calls():
        c = callee(t) or ""
        short = c.split("::")[-1]
        if not t[5]:
            continue
        recv = base_local(t[5][0])
        if loss and recv == pl and short in ("clear", "truncate", "pop", "drain", "remove", "swap_remove", "split_off", "retain"):
            ck.bad(R, "loss|%s|%s" % (f.short, short), "pre-parser: pending trivia is discarded by `%s` — comment/whitespace tokens collected so far are attached to no token" % short, f.where(t))
        if short in ("append", "extend") and len(t[5]) >= 2 and base_local(t[5][1]) == pl:
            sinks += 1
        if short == "insert" and ("HashMap" in c or "BTreeMap" in c) and any(base_local(a) == pl for a in t[5][1:]):
            ck.bad(R, "overwrite|%s|insert" % f.short, "pre-parser: the pending trivia is stored with `insert`, which replaces whatever trivia that token already had in the map (a token that received trailing trivia at an earlier line break loses it); the other sinks extend the entry" , f.where(t))
    # a flush at a line break must empty the pending list whether or not the token already has an entry: handing the
    # list to a closure that a lazy entry API runs only for a vacant entry leaves it pending, and the trivia then
    # become *leading* trivia of the next token (the printers read only the trailing side of the braces they write)
    LAZY = ("or_insert_with", "or_insert_with_key", "get_or_insert_with", "and_modify", "or_else", "unwrap_or_else", "map_or_else", "then")
    for b, st in (f.all_stmts() if lazy else ()):  # run by C14 only: every trivia token is still attached exactly once
        if st[KIND] == "a" and st[5][0] == "agg" and st[5][1][0] == "closure" and any(base_local(o) == pl for o in st[5][2]):
            dst = st[4][0]
            for b2, t2 in f.calls():
                if any(a[0] in ("cp", "mv") and a[1][0] == dst for a in t2[5]):
                    nm = (callee(t2) or "").split("::")[-1]
                    if nm in LAZY:
                        ck.bad(R, "conditional-flush|%s|%s" % (f.short, nm), "pre-parser: the pending trivia are moved into the map by a closure given to `%s`, which runs only when the token has no entry yet: for a token that already received trivia the list stays pending and is attached to the *next* token as leading trivia (a comment line before a `}` in column 0 is then on the side the printer does not read)" % nm, f.where(t2))
    ck.floor(R, "trivia_sinks", sinks, 3)
    ck.ok(R, "sinks|%s" % f.short, {"pending_local": pl, "append/extend sinks": sinks})
    # ---- the owner of a trivia entry is named by its position among the *syntax* tokens (an index into
    # token_indices: the parser and the printer look trivia up by that index), never by its raw token index
    from ..rules.chainwalk import map_field, taint as _taint
    di2 = DefIndex(f)
    seeds = []
    for b, t in f.calls():
        c = callee(t) or ""
        if c.split("::")[-1] == "len" and t[5] and t[6] is not None:
            fld = map_field(f, di2, t[5][0])
            if fld and fld.endswith("token_indices"):
                seeds.append(t[6][0])
    ck.require(R, bool(seeds), "anchor|syntax-token-count", "the pre-parser does not read token_indices.len() (the index space of the trivia maps)")
    if seeds:
        T = set()
        for sd in seeds:
            T |= _taint(f, [sd])
        nkeys = 0
        badk = None
        for b, t in f.calls():
            c = callee(t) or ""
            if c.split("::")[-1] in ("entry", "insert") and ("HashMap" in c or "BTreeMap" in c) and len(t[5]) >= 2:
                fld = map_field(f, di2, t[5][0])
                if fld and fld.endswith("trivia_map"):
                    nkeys += 1
                    k = t[5][1]
                    if not (k[0] in ("cp", "mv") and k[1][0] in T):
                        badk = (t, fld.split("::")[-1])
        ck.floor(R, "trivia_map_keys", nkeys, 3)
        if badk is None:
            ck.ok(R, "owner-index|%s" % f.short, {"keys": nkeys, "derive_from": "token_indices.len()"})
        else:
            ck.bad(R, "owner-index|%s" % f.short, "pre-parser: an entry of %s is filed under a key that does not derive from the number of syntax tokens seen so far (token_indices.len()): the maps are indexed by position among the syntax tokens, so trivia filed under a raw token index is attached to a later, non-neighbouring token or to none" % badk[1], f.where(badk[0]))
    # C13 asks that every token is recorded exactly once (partition); which side a comment hangs on is the formatter's
    # concern (C14: its printers read only the trailing trivia of the braces they write themselves)
    rule_partition(ck, facts, f, partition=loss, flag_fresh=not loss)


def _flag_verdict(ck, R, f, flags, stale):
    ck.floor(R, "per_token_flags", len(flags), 1)
    names = f.dbg_names()
    if stale is None:
        ck.ok(R, "flag-fresh|%s" % f.short, {"flags": sorted(names.get(l, "_%d" % l) for l in flags)})
    else:
        ck.bad(R, "flag-fresh|%s" % f.short, "pre-parser: an iteration that records a token leaves the per-token flag `%s` as the previous token set it (path conditions %s): after a line break followed by a comment the flag still says `line break`, so the comment is attached as leading trivia of the next token instead of trailing trivia of the previous one — and the printer does not print the leading trivia of the braces and commas it writes itself" % (names.get(stale[0], "_%d" % stale[0]), stale[1]), f.where())


def rule_partition(ck, facts, f, partition=True, flag_fresh=False):
    """every token is either trivia (recorded as pending), or a syntax token (its index recorded), or the end marker"""
    R = "C13.trivia"
    loops = natural_loops(f)
    ck.require(R, bool(loops), "anchor|preparse-loop", "the pre-parser's token loop was not found")
    if not loops:
        return
    h, body = max(loops, key=lambda l: len(l[1]))
    sx = SymEx(f, max_paths=400, max_steps=20000, facts=facts)
    try:
        paths = sx.run(h)
    except PathLimit:
        paths = sx.paths
    kinds = facts.adt("mimium_lang::compiler::parser::token::TokenKind")
    eof = None
    if kinds:
        for v in kinds["variants"]:
            if v["n"] == "Eof":
                eof = int(v["d"])
    ck.require(R, eof is not None, "anchor|eof-kind", "TokenKind::Eof not found")
    # per-token state flags of the loop: bool locals that are assigned constants inside the loop and tested inside it
    # (`last_was_linebreak`).  They describe the token just seen, so every iteration that records a token must
    # (re)assign them; a path that leaves one stale makes the next token's trivia attach to the wrong side.
    flags = set()
    for l, ty in enumerate(f.d["locals"]):
        if ty != "bool":
            continue
        consts = [b for b in body for st in f.stmts(b) if st[KIND] == "a" and st[4] == [l, []] and st[5][0] == "use" and st[5][1][0] == "c"]
        tested = any(f.term(b)[KIND] == "switch" and f.term(b)[4][0] in ("cp", "mv") and f.term(b)[4][1] == [l, []] for b in body) or any(st[KIND] == "a" and st[5][0] == "use" and st[5][1][0] in ("cp", "mv") and st[5][1][1] == [l, []] for b in body for st in f.stmts(b))
        if len(consts) >= 2 and tested:
            flags.add(l)
    stale = None
    n_iter = 0
    n_skip = 0
    bad = None
    for p in paths:
        if p.end != "loop" or p.end_block != h:
            continue
        n_iter += 1
        if any(e[0] == "call" and e[1].split("::")[-1] == "push" for e in p.events):
            for l in flags:
                v = p.env.get(l)
                if not (isinstance(v, tuple) and v and v[0] == "k"):
                    stale = (l, [(show(c)[:60], vv) for c, vv, pos in p.conds][-3:])
            continue
        n_skip += 1
        pinned = False
        for c, v, pos in p.conds:
            txt = show(c)
            if c[0] == "call" and c[1].split("::")[-1] in ("ne", "eq") and "Eof" in txt and ".kind" in txt:
                is_ne = c[1].split("::")[-1] == "ne"
                truth = (v != 0) if pos else None
                if truth is not None and truth != is_ne:
                    pinned = True
            if c[0] == "disc" and ".kind" in txt and pos and v == eof:
                pinned = True
        if not pinned:
            bad = [(show(c)[:80], v) for c, v, pos in p.conds][-2:]
    ck.floor(R, "preparse_iteration_paths", n_iter, 8)
    if flag_fresh:
        _flag_verdict(ck, R, f, flags, stale)
    if not partition:
        return
    if bad is None:
        ck.ok(R, "partition|%s" % f.short, {"iteration_paths": n_iter, "paths_recording_nothing": n_skip, "all_pinned_to": "TokenKind::Eof"})
    else:
        ck.bad(R, "partition|%s" % f.short, "pre-parser: an iteration records the token neither as trivia nor as a syntax token although its kind is not pinned to the end marker (last conditions: %s): such a token is in the token vector but no CST leaf and no trivia entry refers to it, and no error is reported for it" % bad, f.where())


def rule_token_extent(ck, facts):
    R = "C13.token-extent"
    ck.rule(R, "every Token::new in the tokenizer is (span.start, span.end - span.start) of one span, the zero-length end marker at source.len(), or part of a chain of consecutive tokens that tiles from an existing token's start")
    lang = facts.crate(roles.LANG)
    n = 0
    for f in lang.fns:
        if "::parser::tokenizer::" not in f.path or f.kind == "promoted":
            continue
        if not any((callee(t) or "").endswith("token::Token::new") for _, t in f.calls()):
            continue
        sx = SymEx(f, max_paths=64, facts=facts)
        try:
            paths = sx.run(0)
        except PathLimit:
            paths = sx.paths
        seen = set()
        chains_seen = set()

        def _norm_start(x):
            # Token::end(&Token::new(k, s, l))  ==  s + l
            y = x
            while isinstance(y, tuple) and y and y[0] in ("ref", "deref"):
                y = y[1]
            if isinstance(y, tuple) and y and y[0] == "call" and y[1].endswith("token::Token::end") and y[2]:
                z = y[2][0]
                while isinstance(z, tuple) and z and z[0] in ("ref", "deref"):
                    z = z[1]
                if isinstance(z, tuple) and z and z[0] == "call" and z[1].endswith("token::Token::new"):
                    return ("fld", ("bin", "add_ov", _norm_start(z[2][1]), z[2][2], "usize"), 0)
            return x

        for p in paths:
            toks = [e for e in p.events if e[0] == "call" and e[1].endswith("token::Token::new")]
            # a chain that re-tiles one token: the lengths must add up to that token's length.  Recognised argument:
            # [a, 1, b] where a and b are the two components of one pair, and that pair is produced in this family as
            # (len(head), len(tail)) of a split_once on a one-byte pattern
            if len(toks) >= 2:
                lens = [e[2][2] for e in toks]
                sig = repr(lens)
                if sig not in chains_seen:
                    chains_seen.add(sig)
                    ok = False
                    if len(lens) == 3 and lens[1] == ("k", 1, "usize") and lens[0][0] == "fld" and lens[2][0] == "fld" and lens[0][1] == lens[2][1] and (lens[0][2], lens[2][2]) == (0, 1):
                        fam = list(facts.family(roles.LANG, f.root))
                        # plus the helper functions of the same module the family calls (<= 2 calls away): the split
                        # may live in a named function
                        mod = f.root.rsplit("::", 1)[0]
                        seen_f = {g.path for g in fam}
                        frontier = list(fam)
                        for _lvl in range(2):
                            nxt = []
                            for g in frontier:
                                for _, t2 in g.calls():
                                    c2 = callee(t2) or ""
                                    if c2.startswith(mod + "::") and c2 not in seen_f:
                                        for h in facts.family(roles.LANG, c2):
                                            if h.path not in seen_f:
                                                seen_f.add(h.path)
                                                fam.append(h)
                                                nxt.append(h)
                            frontier = nxt
                        pair_ok = False
                        for g in fam:
                            for _, st in g.all_stmts():
                                if st[KIND] == "a" and st[5][0] == "agg" and st[5][1][0] == "tuple" and len(st[5][2]) == 2:
                                    dg = DefIndex(g)
                                    rs = [dg.resolve(o) for o in st[5][2]]
                                    if all(r[0] == "call" and (callee(r[1]) or "").split("::")[-1] == "len" and "str" in (callee(r[1]) or "") for r in rs):
                                        # the two strings are components 0 and 1 of the closure's parameter
                                        srcs = []
                                        for r in rs:
                                            a = r[1][5][0]
                                            rr = dg.resolve(a)
                                            for _k in range(4):  # through re-borrows `&*x`
                                                if rr[0] == "rv" and rr[1][5][0] in ("ref", "raw"):
                                                    a = ["cp", [rr[1][5][1][0], []]]
                                                    rr = dg.resolve(a)
                                                else:
                                                    break
                                            pl = rr[1] if rr[0] == "place" else (a[1] if a[0] in ("cp", "mv") else None)
                                            idx = [e2[1] for e2 in (pl[1] if pl else []) if isinstance(e2, list) and e2[0] == "f"]
                                            srcs.append(idx[-1] if idx else None)
                                        if srcs == [0, 1]:
                                            pair_ok = True
                        splits = any((callee(t) or "").split("::")[-1] == "split_once" for g in fam for _, t in g.calls())
                        ok = pair_ok and splits
                    if ok:
                        ck.ok(R, "chain-sum|%s" % f.short, {"lengths": [show(x)[-40:] for x in lens], "argument": "(len(head), 1, len(tail)) of split_once on a one-byte pattern"})
                    else:
                        ck.bad(R, "chain-sum|%s" % f.short, "%s replaces one token by a chain of %d tokens whose lengths (%s) are not the recognised re-tiling (len(head), 1, len(tail)) of a split of the token's text: they need not add up to the token's length, so a byte is left uncovered or covered twice" % (f.short, len(lens), "; ".join(show(x)[-60:] for x in lens)), f.where(toks[-1][3]))
            for i, e in enumerate(toks):
                kind, start, ln = e[2][0], _norm_start(e[2][1]), e[2][2]
                sig = (repr(start), repr(ln))
                if sig in seen:
                    continue
                seen.add(sig)
                n += 1
                shape = None
                # A: span-derived
                if ln[0] in ("bin", "fld"):
                    b = ln[1] if ln[0] == "fld" else ln
                    if b[0] == "bin" and b[1] in ("sub", "sub_ov"):
                        hi, lo = b[2], b[3]
                        if repr(lo) == repr(start) and hi[0] == "fld" and lo[0] == "fld" and repr(hi[1]) == repr(lo[1]):
                            shape = "span"
                # B: end marker
                if shape is None and ln == ("k", 0, "usize") and start[0] == "call" and start[1].endswith("::len"):
                    shape = "eof"
                # C: chain
                if shape is None and len(toks) >= 2:
                    if i == 0:
                        if start[0] == "fld" and "Token::start" in str(start[2]):
                            shape = "chain-head"
                    else:
                        ps, pl_ = _norm_start(toks[i - 1][2][1]), toks[i - 1][2][2]
                        # start == prev_start + prev_len
                        want = ("fld", ("bin", "add_ov", ps, pl_, "usize"), 0)
                        if start == want:
                            shape = "chain"
                key = "token|%s|%s" % (f.short, shape or "free")
                if shape:
                    ck.ok(R, key, {"fn": f.short, "shape": shape, "start": show(start), "len": show(ln)})
                else:
                    ck.bad(R, "token|%s|start=%s|len=%s" % (f.short, show(start)[:40], show(ln)[:40]), "%s builds a token with start=%s and length=%s: its extent is not that of one span, so the tokens no longer tile the text" % (f.short, show(start), show(ln)), f.where(e[3]))
    ck.floor(R, "token_constructions_checked", n, 5)


def rule_comment_lexer(ck, facts, tier="quick", R="C13.comment-lexer"):
    """the extent of a comment token: `//` to the end of the line, `/*` to the first `*/`"""
    from ..rules import lexmodel

    ck.rule(R, "the combinator expression the tokenizer builds for comments (extracted from the MIR of the function that builds it; every node is a call) is given its PEG meaning and evaluated — the model, not the program — on every string over {'/', '*', 'a', newline} up to a length bound: it must consume exactly `//` up to (not including) the next line break or the end, resp. `/*` up to and including the first `*/`, and fail otherwise. A scan that lets `*` swallow the following character misses a terminator preceded by an even run of stars (`/** x **/`), so the comment runs on into the code")
    lang = facts.crate(roles.LANG)
    cands = []
    for f in lang.fns:
        if "::parser::tokenizer::" not in f.path or f.kind != "fn" or f.d["argc"] != 0:
            continue
        sx = SymEx(f, max_paths=8, facts=facts)
        try:
            paths = sx.run(0)
        except PathLimit:
            paths = sx.paths
        rets = [p.env.get(0) for p in paths if p.end == "return"]
        if len(rets) != 1 or rets[0] is None:
            continue
        txt = repr(rets[0])
        if "SingleLineComment" in txt or "MultiLineComment" in txt:
            cands.append((f, rets[0]))
    ck.require(R, len(cands) == 1, "anchor|comment-parser", "expected one tokenizer function building the comment combinators, found %d" % len(cands))
    if len(cands) != 1:
        return
    f, expr = cands[0]
    try:
        tree = lexmodel.build(expr)
    except lexmodel.Unmodelled as e:
        ck.bad(R, "unmodelled|%s" % f.short.split("::")[-1], "%s builds its comment parser with %s, which the combinator model does not cover: the extent of comment tokens cannot be decided (failing closed)" % (f.short, e), f.where())
        return
    maxlen = 9 if tier == "thorough" else 7
    diff, n = lexmodel.check_comments(tree, maxlen=maxlen)
    ck.setcount("comment_lexer_strings", n)
    if diff is None:
        ck.floor(R, "comment_lexer_strings", n, 20000)
        ck.ok(R, "extent|%s" % f.short.split("::")[-1], {"strings": n, "alphabet": "/ * a \\n", "max_length": maxlen})
    else:
        s, m, sp = diff
        ck.bad(R, "extent|%s" % f.short.split("::")[-1], "%s: on the text %r the comment combinators consume %s but a comment token there is %s: comment tokens no longer end where the comment ends (the rest of the line / file is swallowed or the `/*` does not lex at all), so adding or editing a comment changes the program" % (f.short, s, "nothing (no match)" if m is None else "%d characters" % m, "no comment" if sp is None else "%d characters long" % sp), f.where())


def lexer_model(facts):
    """(function, PEG tree of the whole lexer) extracted from the expression handed to `.parse(source)`"""
    from ..rules import tokmodel

    lang = facts.crate(roles.LANG)
    out = []
    for f in lang.fns:
        if "::parser::tokenizer::" not in f.path or f.kind != "fn" or "::tests" in f.path:
            continue
        if not any((callee(t) or "").split("<")[0].endswith("::parse") for _, t in f.calls()):
            continue
        sx = SymEx(f, max_paths=32, facts=facts)
        try:
            paths = sx.run(0, stop_at_call=lambda nm, t: nm.split("<")[0].endswith("::parse"))
        except PathLimit:
            paths = sx.paths
        for p in paths:
            if p.end == "stopcall" and p.events[-1][2]:
                out.append((f, tokmodel.build(facts, p.events[-1][2][0])))
                break
    return out


def rule_lexer_model(ck, facts, tier="quick", clauses=("tiling", "no-progress", "munch", "layout"), R="C13.lexer-model"):
    """the whole tokenizer as a model: tiling, progress, maximal munch of literal tokens, blank-insertion stability"""
    from ..rules import tokmodel

    ck.rule(R, "the complete lexer (the combinator value handed to `.parse(source)`, with the parser-building functions it calls inlined from their MIR; leaves carry the token kind they produce) is given its PEG meaning and the model is evaluated on every string over a 14-character alphabet up to a length bound: (tiling) the token loop consumes every string completely in steps of at least one character and is followed by `end()`; (no-progress) no repetition has a body that can succeed without consuming (chumsky panics in debug builds and spins in release builds); (munch) every literal token spelled alone, and between blanks, is one token of its own kind (ordered choice: an earlier alternative that is a prefix shadows a later one); (layout) a blank inserted at a boundary between two tokens the model found leaves the non-blank tokens unchanged (digits and dots excepted: `t.0.1` is context-sensitive by design)")
    try:
        models = lexer_model(facts)
    except tokmodel.Unmodelled as e:
        ck.bad(R, "unmodelled|lexer", "the tokenizer is built with %s, which the combinator model does not cover: tiling of the text by tokens cannot be decided (failing closed)" % e)
        return
    ck.require(R, len(models) == 1, "anchor|lexer", "expected one tokenizer function handing a combinator value to `.parse`, found %d" % len(models))
    if len(models) != 1:
        return
    f, tree = models[0]
    fn = f.short.split("::")[-1]
    try:
        step, tail = tokmodel.lexer_parts(tree)
    except tokmodel.Unmodelled as e:
        ck.bad(R, "unmodelled|%s" % fn, "%s: %s (failing closed)" % (f.short, e), f.where())
        return
    lits = tokmodel.literals(tree)
    ck.floor(R, "literal_tokens", len(lits), 30)
    alphabet = " \na_01./*\"|>=~"
    maxlen = 5 if tier == "thorough" else 4
    try:
        res = tokmodel.check(tree, alphabet, maxlen)
    except tokmodel.Unmodelled as e:
        ck.bad(R, "unmodelled|%s" % fn, "%s: %s (failing closed)" % (f.short, e), f.where())
        return
    ck.setcount("lexer_model_strings", res["strings"])
    ck.floor(R, "lexer_model_strings", res["strings"], 40000)
    if "tiling" in clauses:
        k = "tiling|%s" % fn
        if tail is None or tail[0] != "end":
            ck.bad(R, k + "|end", "%s: the token loop is not followed by `end()`: a lexer that stops early would silently drop the rest of the text" % f.short, f.where())
        elif res["tiling"] is not None:
            s, pos = res["tiling"]
            ck.bad(R, k, "%s: on the text %r the token loop stops at offset %d of %d: the tokens do not tile the text (no alternative, not even the error fallback, accepts what follows)" % (f.short, s, pos, len(s)), f.where())
        else:
            ck.ok(R, k, {"strings": res["strings"], "alphabet": alphabet, "max_length": maxlen})
    if "no-progress" in clauses:
        k = "no-progress|%s" % fn
        nul = tokmodel.nullable_star_bodies(tree)
        if res["no_progress"] is not None or nul:
            w = res["no_progress"][0] if res["no_progress"] else nul[0][1]
            ck.bad(R, k, "%s: a repetition in the lexer has a body that succeeds without consuming input (witness text %r): chumsky's `repeated()` asserts progress in debug builds and loops forever in release builds — the tokenizer no longer terminates on every text" % (f.short, w), f.where())
        else:
            ck.ok(R, k)
    if "munch" in clauses:
        bad = None
        for text, kind in lits:
            for s, lo in ((text, 0), (" " + text + " ", 1)):
                toks, pos = tokmodel.tokenize(step, s)
                got = [(s[a:b], kd) for a, b, kd in toks if a >= lo and b <= lo + len(text)]
                if got != [(text, kind)] and bad is None:
                    bad = (text, kind, [(s[a:b], kd) for a, b, kd in toks])
        k = "munch|%s" % fn
        if bad:
            ck.bad(R, k, "%s: the token %r (%s) spelled alone is lexed as %r: an alternative tried earlier in the ordered choice matches a prefix of it, so the token can never be produced" % (f.short, bad[0], bad[1], bad[2]), f.where())
        else:
            ck.ok(R, k, {"literals": len(lits)})
    if "layout" in clauses:
        k = "layout|%s" % fn
        if res["layout"] is not None:
            s, s2, base, got = res["layout"]
            ck.bad(R, k, "%s: %r is lexed as %r but %r (a blank inserted between two of those tokens) as %r: whitespace between tokens changes the token sequence" % (f.short, s, base, s2, got), f.where())
        else:
            ck.ok(R, k)


def run(ck, facts, tier):
    pm = ParserModel(facts)
    ck.floor("C13.anchor", "cst_parser_bodies", len(pm.fns), 120)
    rule_comment_lexer(ck, facts, tier)
    rule_lexer_model(ck, facts, tier, clauses=("tiling", "no-progress"))
    rule_cursor(ck, facts, pm)
    rule_balance(ck, facts, pm)
    rule_wrap_from_marker(ck, facts)
    rule_root(ck, facts, pm)
    rule_trivia(ck, facts)
    rule_token_extent(ck, facts)
    ck.not_decided("the tokenizer's tiling of arbitrary text beyond the combinator model (chumsky's own span arithmetic, multi-byte characters)")
    ck.not_decided("validity of GreenTreeBuilder markers at run time (start_node_at moves a suffix of children)")
