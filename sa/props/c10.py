"""C10 — macro expansion respects lexical scope across stages (structural necessary conditions for hygiene)."""
from .. import roles
from ..cfg import DefIndex
from ..facts import KIND, callee
from ..symex import PathLimit, SymEx, show, vec_literal_hook
from . import c09, c17
from .c01_ops import str_of

LEVEL = "other"
EXPLANATION = (
    "Structural necessary conditions for hygiene, decided on MIR: (binders) every combinator call emitted by the staging "
    "translation that introduces a binder into generated code (let, let-tuple, letrec, lambda, feed) is examined: a binder "
    "name that flows unchanged from the source pattern is a capture site (today all are — known finding F20), a fresh name "
    "is accepted; (gensym) names invented by the translation are drawn from the counter-based gensym only; (scope) the name "
    "resolver's lexical scope stack is manipulated only through balanced push/pop, also around quotes and splices, so a "
    "local binder is never forgotten inside a splice. That consistently renamed programs agree in output is not decided."
)
STAGING = "::compiler::translate_staging::"
BINDER_COMBINATORS = ("code_let", "code_let_tuple", "code_letrec", "code_letrec_typed", "code_lam1_finish", "code_lam1_finish_typed", "code_lam_finish", "code_lam_finish_typed", "code_lam_finish_defaults", "code_lam_finish_defaults_typed", "code_feed")


def _is_const_name(e):
    """sym_to_string_literal("_".to_symbol()) and the like: the name is a string constant of the compiler"""
    while e[0] == "call" and len(e[2]) == 1:
        e = e[2][0]
    while e[0] in ("ref", "deref"):
        e = e[1]
    return e[0] == "k" and isinstance(e[1], str)


def rule_binders(ck, facts):
    R = "C10.binders"
    ck.rule(R, "for every emitted binder-introducing combinator call, the binder-name argument must flow from a gensym (fresh name); a name literal built directly from the source pattern's identifier is a capture site")
    lang = facts.crate(roles.LANG)
    em = c09.emitted_names(facts, lang)
    n = 0
    for name in BINDER_COMBINATORS:
        for f, t, ar in em.get(name, []):
            n += 1
            # does the function (or the helper that builds the name literal) call the gensym?
            fam = facts.family(roles.LANG, f.root)
            fresh = any((callee(tt) or "").endswith("fresh_desugar_name") for g in fam for _, tt in g.calls())
            root = f.root.split("::", 1)[1]
            # is the binder-name operand derived from the gensym result on this call?  resolve first data argument
            sx = SymEx(f, max_paths=64, max_steps=4000, facts=facts, call_hook=vec_literal_hook)
            try:
                paths = sx.run(0, stop_at_call=lambda nm, tt, t=t: tt is t)
            except PathLimit:
                paths = sx.paths
            src_named = None
            for p in paths:
                if p.end != "stopcall":
                    continue
                args = p.events[-1][2]
                # the binder name is the first element of the argument list literal (`vec![name, ..]`)
                lst = args[1] if len(args) > 1 else None
                if lst is not None and lst[0] == "agg" and lst[1] == "vec" and lst[2]:
                    binder = lst[2][0]
                    if _is_const_name(binder):
                        continue  # a literal such as "_" binds nothing the user can spell
                    txt = repr(binder)
                else:
                    txt = ""  # the list is not a literal here: cannot show the name is fresh
                if "fresh_desugar_name" in txt:
                    src_named = False if src_named is None else src_named
                else:
                    src_named = True
            key = "binder|%s|%s" % (name, root)
            if src_named is False:
                ck.ok(R, key, {"combinator": name, "fn": root, "binder": "fresh"})
            else:
                ck.bad(R, key, "%s emits `%s` with a binder name taken from the source pattern: the binder keeps its user-visible name in generated code, so it can capture (or be captured by) a variable of the same name in spliced or surrounding code" % (root, name), f.where(t))
    ck.floor(R, "binder_emission_sites", n, 5)


def run(ck, facts, tier):
    from ..rules import invented as _inv

    # a binder the compiler makes up under a spellable name can capture (or be captured by) a variable of the program
    _inv.run(ck, facts, "C16.invented-names")
    lang = facts.crate(roles.LANG)
    rule_binders(ck, facts)
    c09.rule_gensym(ck, facts, lang, R="C09.gensym")
    c09.rule_subst_order(ck, facts, lang)
    # the block a quoted `{ .. }` is rebuilt as is what ends the scope of the names bound in it
    c09.rule_decode(ck, facts, lang, c09.emitted_names(facts, lang), c09.registered(facts, lang))
    c17.rule_scope(ck, facts, R="C17.scope")
    # a binder is in force for its continuation (renaming a binder must not change which definition a later use means)
    c17.rule_context_bracket(ck, facts)
    c17.rule_lexical_first(ck, facts)
    # whether a definition is recursive (its own name is in scope in its body) is decided by a search predicate over
    # the body; it must look everywhere, quoted code included
    from ..rules import exprwalk
    from ..facts import callee as _callee

    near = set()
    for g in lang.fns:
        if g.short.endswith("recursecheck::convert_recurse") or g.root.endswith("recursecheck::convert_recurse"):
            for _, t in g.calls():
                near.add(_callee(t) or "")
    exprwalk.run(ck, facts, "C10.recursion-predicate", only=lambda f: f.path in near)
    exprwalk.run_gating(ck, facts, "C10.recursion-gating", only=lambda f: f.path in near)
    # binders of quoted code are rebuilt from their names at expansion time; blocks of generated code are scoped by the
    # MIR generator (shared with C16)
    from . import c16

    c16.rule_name_spelling(ck, facts)
    c16.rule_block_scope(ck, facts)
    # every walk over a `let` pattern reaches every sub-pattern (what a binder binds does not depend on its position)
    from ..rules import patcover

    patcover.run(ck, facts, "C09.pattern-cover", roles.LANG)
    patcover.run_match_patterns(ck, facts, "C09.pattern-cover", roles.LANG)
    ck.not_decided("that consistently renaming a binder inside a macro body leaves program outputs unchanged (behavioural)")
