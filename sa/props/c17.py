"""C17 — module privacy and name resolution."""
from .. import roles
from ..cfg import reachable
from ..facts import KIND, callee, place_fields
from ..rules import cover
from ..symex import PathLimit, SymEx

LEVEL = "other"
EXPLANATION = (
    "Structural necessary conditions for module privacy, decided on MIR: (register) in the program flattener every arm that "
    "records names as members of a module (module_context_map) also records their visibility (visibility_map); (routes) every "
    "resolver function that resolves a name through an alias chain, a wildcard import or a qualified path consults "
    "visibility_map and has a branch that reports PrivateMemberAccess or filters on the public flag; lookups that fail open "
    "(absent key = accessible) are listed; (scope) the resolver's lexical scope stack is touched only by its own push/pop/"
    "insert methods and push_scope/pop_scope are balanced on every path, so local bindings shadow imports everywhere. "
    "Uniqueness of resolution for concrete module trees is not decided."
)
PS = "mimium_lang::ast::program::ProgramStatement"
RESOLVER_MOD = "::mirgen::convert_qualified_names::"


# ---- the resolver's scope machinery by role (private names are free to change) -------------------------------------
_RR = {}


def resolver_roles(facts):
    """stack: `<Struct>::<field>` of the scope stack (the Vec<HashSet<Symbol>> field of the resolver's context struct);
    openers / closers: methods of that struct that push / pop it and take nothing but self; binders: methods that call an
    opener and insert into the stack (they open the scope that holds a binder); predicates: bool methods that only read
    it"""
    key = id(facts)
    if key in _RR:
        return _RR[key]
    lang = facts.crate(roles.LANG)
    stack, struct = None, None
    for pth, a in lang.adts.items():
        if RESOLVER_MOD not in pth and RESOLVER_MOD.strip(":") not in pth:
            continue
        for v in a["variants"]:
            for fname, fty in v["f"]:
                if fty.startswith("std::vec::Vec<") and "HashSet<" in fty and "Symbol" in fty:
                    stack, struct = "%s::%s" % (pth.split("::")[-1], fname), pth.split("::")[-1]
    out = {"stack": stack, "struct": struct, "openers": set(), "closers": set(), "binders": set(), "predicates": set(), "inserters": set()}
    if stack:
        meths = [f for f in lang.fns if RESOLVER_MOD in f.path and f.kind == "assoc" and struct in (f.d.get("self_ty") or "")]
        for f in meths:
            fam = facts.family(roles.LANG, f.root)
            touches = any(field_touch(g, stack) for g in fam)
            names = [(callee(t) or "") for g in fam for _, t in g.calls()]
            shorts = [n.split("::")[-1] for n in names]
            if touches and f.d.get("argc") == 1 and any(n.endswith("::push") and "Vec" in n for n in names) and "pop" not in shorts:
                out["openers"].add(f.path)
            elif touches and f.d.get("argc") == 1 and any(n.endswith("::pop") and "Vec" in n for n in names):
                out["closers"].add(f.path)
            elif touches and any(n.endswith("::insert") and "HashSet" in n for n in names):
                out["inserters"].add(f.path)
            elif touches and "bool" == (f.d.get("locals") or [""])[0]:
                out["predicates"].add(f.path)
        # binders: whatever puts names into the innermost scope — methods that reach into the top of the stack
        # (`last_mut`), and the resolver's helpers that call those for a pattern
        for f in meths:
            fam = facts.family(roles.LANG, f.root)
            if f.path in out["openers"] | out["closers"] | out["predicates"]:
                continue
            if any(field_touch(g, stack) for g in fam) and any((callee(t) or "").split("::")[-1] in ("last_mut", "insert") for g in fam for _, t in g.calls()):
                out["binders"].add(f.path)
        for f in lang.fns:
            if RESOLVER_MOD in f.path and f.kind == "fn" and "::test" not in f.path and f.path not in out["binders"]:
                names = {(callee(t) or "") for g in facts.family(roles.LANG, f.root) for _, t in g.calls()}
                # a helper whose only resolver calls are binders (it binds the names of a pattern)
                mine = {c for c in names if RESOLVER_MOD in c}
                if (mine & out["binders"]) and mine <= (out["binders"] | {f.path}):
                    out["binders"].add(f.path)
    _RR[key] = out
    return out


def field_touch(fn, field_suffix):
    """blocks in which fn reads/borrows a place whose projection ends in a field named *field_suffix"""
    out = []
    for b, blk in enumerate(fn.bb):
        if blk["c"]:
            continue
        for s in blk["s"]:
            if s[KIND] != "a":
                continue
            places = []
            rv = s[5]
            if rv[0] in ("ref", "raw", "disc"):
                places.append(rv[1])
            elif rv[0] == "use" and rv[1][0] in ("cp", "mv"):
                places.append(rv[1][1])
            places.append(s[4])
            for pl in places:
                for fl in place_fields(pl):
                    if fl and fl.endswith(field_suffix):
                        out.append((b, s))
    return out


def rule_register(ck, facts):
    R = "C17.register"
    ck.rule(R, "program flattener: an arm of the match on ProgramStatement that inserts names into module_context_map (names become members of a module) must also insert them into visibility_map")
    lang = facts.crate(roles.LANG)
    cands = [c for c in cover.find_matchers(facts, roles.LANG, PS, min_arms=6) if not roles.is_derived(c.fn) and "::ast::program::" in c.fn.path]
    ck.require(R, len(cands) >= 1, "anchor|flattener", "no function of ast::program matches on ProgramStatement with >= 6 arms")
    n = 0
    for cov in cands:
        f = cov.fn
        fam = facts.family(roles.LANG, f.root)
        for v in sorted(cov.primary_handled()):
            tb = cov.arm_target(v)
            region = reachable(f, tb, stop=[cov.primary.block])
            # closures created in the arm region belong to the arm
            clos = []
            for b in region:
                for s in f.stmts(b):
                    if s[KIND] == "a" and s[5][0] == "agg" and s[5][1][0] == "closure":
                        g = facts.fn(s[5][1][1])
                        if g is not None:
                            clos.append(g)
            ctx = [x for x in field_touch(f, "ModuleInfo::module_context_map") if x[0] in region]
            vis = [x for x in field_touch(f, "ModuleInfo::visibility_map") if x[0] in region]
            for g in clos:
                ctx += field_touch(g, "ModuleInfo::module_context_map")
                vis += field_touch(g, "ModuleInfo::visibility_map")
            if not ctx:
                continue
            n += 1
            if vis:
                ck.ok(R, "arm|%s" % v, {"arm": v, "module_context_map": len(ctx), "visibility_map": len(vis)})
            else:
                ck.bad(R, "arm|%s" % v, "flattener arm %s registers names as module members (module_context_map) but never records their visibility: such names are not private and are not mangled with the module path" % v, f.where(ctx[0][1]))
    ck.floor(R, "member_registering_arms", n, 2)



def rule_last_definition_wins(ck, facts, R="C17.register"):
    """a redefinition replaces the visibility and module context of the earlier definition"""
    from ..cfg import DefIndex

    ck.rule(R, "last-wins: a module may define a name twice and references bind to the later definition (the flattened let-chain shadows); the flattener's writes to the per-name tables of ModuleInfo (visibility_map, module_context_map) are therefore plain overwriting `insert`s — an `entry(..).or_insert*` / `try_insert`, which keeps the record of the first definition, lets the privacy check answer for another definition than the one the reference reaches")
    lang = facts.crate(roles.LANG)
    n = 0
    for f in lang.fns:
        if "::ast::program::" not in f.path or f.kind == "promoted" or "::test" in f.path:
            continue
        di = DefIndex(f)
        for b, t in f.calls():
            if not t[5] or t[5][0][0] not in ("cp", "mv"):
                continue
            r = di.resolve(t[5][0])
            if r[0] != "rv" or r[1][5][0] != "ref":
                continue
            flds = [x for x in place_fields(r[1][5][1]) if x and (x.endswith("ModuleInfo::visibility_map") or x.endswith("ModuleInfo::module_context_map"))]
            if not flds:
                continue
            m = (callee(t) or "").split("::")[-1]
            if m not in ("insert", "entry", "try_insert", "extend", "raw_entry_mut", "get_or_insert_with"):
                continue
            n += 1
            fld = flds[0].split("::")[-1]
            owner = f.root.split("::", 1)[1] if "::" in f.root else f.root
            key = "last-wins|%s|%s" % (owner, fld)
            if m in ("insert", "extend"):
                ck.ok(R, key, {"table": fld, "write": m})
            else:
                ck.bad(R, key, "%s records a name in %s through `%s`, which keeps what an earlier definition of the same name recorded: with `pub fn f` followed by a private `fn f` in one module every reference reaches the second definition while the privacy check still answers `public`" % (f.short, fld, m), f.where(t))
    ck.floor(R, "per_name_table_writes", n, 4)


def rule_routes(ck, facts):
    R = "C17.routes"
    ck.rule(R, "every resolver function that resolves through resolve_alias_chain / resolve_through_wildcards / resolve_qualified_path (or implements the wildcard search) reads visibility_map and either constructs Error::PrivateMemberAccess or branches on the public flag")
    lang = facts.crate(roles.LANG)
    fns = [f for f in lang.fns if RESOLVER_MOD in f.path and "::tests" not in f.path and f.kind in ("fn", "assoc")]
    ck.floor(R, "resolver_functions", len(fns), 10)
    routes = {"resolve_alias_chain": "alias", "resolve_qualified_path": "qualified"}
    n = 0
    for f in fns:
        names = [(callee(t) or "").split("::")[-1] for _, t in f.calls()]
        kinds = sorted({routes[x] for x in names if x in routes})
        is_wild_impl = f.short.endswith("resolve_through_wildcards")
        if is_wild_impl:
            kinds.append("wildcard")
        if not kinds:
            continue
        # only functions that produce a resolved variable (construct Expr::Var or return the mangled symbol)
        builds_var = any(s[KIND] == "a" and s[5][0] == "agg" and s[5][1][0] == "adt" and s[5][1][1] == roles.EXPR and s[5][1][3] == "Var" for _, s in f.all_stmts())
        if not builds_var and not is_wild_impl:
            continue
        n += 1
        vis = field_touch(f, "ModuleInfo::visibility_map")
        err = [s for _, s in f.all_stmts() if s[KIND] == "a" and s[5][0] == "agg" and s[5][1][0] == "adt" and s[5][1][3] == "PrivateMemberAccess"]
        key = "route|%s|%s" % (f.short.split("::")[-1], "+".join(kinds))
        if vis and (err or is_wild_impl):
            ck.ok(R, key, {"fn": f.short, "routes": kinds, "visibility_lookups": len(vis), "reports": "PrivateMemberAccess" if err else "filters on is_public"})
        else:
            ck.bad(R, key, "%s resolves names through %s without consulting visibility_map / reporting PrivateMemberAccess: a private member is reachable through that route" % (f.short, "+".join(kinds)), f.where())
    ck.floor(R, "resolution_routes", n, 3)
    # ---- which name is looked up: the privacy of the definition a reference *resolved to* is what matters, so the key
    # of every visibility lookup of a route function derives from the result of its resolver call (the mangled spelling
    # of the path as written has no entry when the path was resolved relative to the current module)
    from ..rules.chainwalk import map_field, taint as _taint
    from ..cfg import DefIndex as _DI
    m = 0
    for f in fns:
        res_calls = [t for _, t in f.calls() if (callee(t) or "").split("::")[-1] in routes and t[6] is not None]
        if not res_calls:
            continue
        di = _DI(f)
        T = set()
        for t in res_calls:
            T |= _taint(f, [t[6][0]])
        for b, t in f.calls():
            c = callee(t) or ""
            if c.split("::")[-1] != "get" or "HashMap" not in c or len(t[5]) < 2:
                continue
            fld = map_field(f, di, t[5][0])
            if not fld or not fld.endswith("visibility_map"):
                continue
            m += 1
            k = t[5][1]
            key = "vis-key|%s" % f.short.split("::")[-1]
            if k[0] in ("cp", "mv") and k[1][0] in T:
                ck.ok(R, key, {"fn": f.short, "key": "derived from the resolver's result"})
            else:
                ck.bad(R, key, "%s looks up the visibility of a name that does not come from its resolver call (%s): for a path resolved relative to the current module the spelling as written has no entry, the lookup finds nothing and the privacy check is skipped — `inner::secret()` inside `mod outer` reaches a private member of the nested module" % (f.short, ", ".join(sorted({(callee(x) or "").split("::")[-1] for x in res_calls}))), f.where(t))
    ck.floor(R, "visibility_lookups_in_routes", m, 2)
    # ---- the definition a reference finally leads to: a route that follows aliases (`use`, `pub use`) and hands out
    # the end of the chain must look up the visibility of *that* name too — the re-exporting alias is public by
    # construction, the member it points at need not be
    for f in fns:
        chain = [t for _, t in f.calls() if (callee(t) or "").split("::")[-1] == "resolve_alias_chain" and t[6] is not None]
        if not chain or f.short.endswith("resolve_alias_chain"):
            continue
        builds_var = any(s2[KIND] == "a" and s2[5][0] == "agg" and s2[5][1][0] == "adt" and s2[5][1][1] == roles.EXPR and s2[5][1][3] == "Var" for _, s2 in f.all_stmts())
        if not builds_var:
            continue
        di = _DI(f)
        T = set()
        for t in chain:
            T |= _taint(f, [t[6][0]])
        ok = False
        for b, t in f.calls():
            c = callee(t) or ""
            if c.split("::")[-1] == "get" and "HashMap" in c and len(t[5]) >= 2 and (map_field(f, di, t[5][0]) or "").endswith("visibility_map"):
                k = t[5][1]
                if k[0] in ("cp", "mv") and k[1][0] in T:
                    ok = True
        key = "final-target|%s" % f.short.split("::")[-1]
        if ok:
            ck.ok(R, key, {"fn": f.short})
        else:
            ck.bad(R, key, "%s follows the alias chain and hands out its end, but only looks up the visibility of the name before the chain: `mod internal { fn secret(){..} }  mod api { pub use internal::secret }  api::secret()` reaches the private function through the re-export" % f.short, f.where(chain[0]))
    # fail-open lookups: `if let Some(&is_public) = map.get(..) {..} else { accessible }`
    for f in fns:
        sx = None
    ck.note("fail-open lookups (absent key = accessible) exist in resolve_through_wildcards and convert_var by design; names never registered (finding F12) therefore bypass privacy")


def rule_scope(ck, facts, R="C17.scope"):
    ck.rule(R, "the resolver's scope stack (ResolveContext.local_bindings) is read/written only inside ResolveContext's own methods, and push_scope/pop_scope calls are balanced on every path of every resolver function")
    lang = facts.crate(roles.LANG)
    RR = resolver_roles(facts)
    ck.require(R, bool(RR["stack"]) and bool(RR["openers"]) and bool(RR["closers"]), "anchor|scope-stack", "the resolver's scope stack (a Vec<HashSet<Symbol>> field with methods that push and pop it) was not found")
    if not (RR["stack"] and RR["openers"] and RR["closers"]):
        return
    fns = [f for f in lang.fns if RESOLVER_MOD in f.path and "::tests" not in f.path and f.kind != "promoted"]
    n = 0
    for f in fns:
        t = field_touch(f, RR["stack"])
        if not t:
            continue
        root = facts.fn(f.root) or f
        is_method = RR["struct"] in (root.d.get("self_ty") or "")
        n += 1
        if is_method:
            ck.ok(R, "owner|%s" % root.short)
        else:
            ck.bad(R, "outsider|%s" % root.short, "%s manipulates the resolver's scope stack directly instead of through push_scope/pop_scope/add_binding: local bindings can be forgotten (imports capture local names) or leak across scopes" % f.short, f.where(t[0][1]))
    ck.floor(R, "scope_stack_users", n, 4)
    # balance
    m = 0
    for f in fns:
        names = {(callee(t) or "") for _, t in f.calls()}
        if not (names & RR["openers"]) and not (names & RR["closers"]):
            continue
        m += 1
        sx = SymEx(f, max_paths=800, max_steps=60000, facts=facts)
        try:
            paths = sx.run(0)
        except PathLimit as e:
            # fall back to per-arm analysis for the big match
            cov = cover.coverage(facts, f, roles.EXPR)
            paths = []
            if cov:
                for v in sorted(cov.primary_handled()):
                    sx2 = SymEx(f, payload_place=cov.primary.place, max_paths=400, max_steps=30000, facts=facts)
                    try:
                        paths += sx2.run(cov.arm_target(v))
                    except PathLimit:
                        ck.bad(R, "unanalysable|%s|%s" % (f.short, v), "too many paths to check scope balance in arm %s" % v, f.where())
            else:
                ck.bad(R, "unanalysable|%s" % f.short, "too many paths to check scope balance: %s" % e, f.where())
                continue
        bad = None
        for p in paths:
            if p.end not in ("return",):
                continue
            net = 0
            for e in p.events:
                if e[0] == "call":
                    if e[1] in RR["openers"]:
                        net += 1
                    elif e[1] in RR["closers"]:
                        net -= 1
                        if net < 0:
                            bad = "pops a scope it did not push"
            if net != 0 and not bad:
                bad = "leaves %+d scope(s) on the stack" % net
            if bad:
                break
        if not bad:
            from ..cfg import natural_loops

            for h, body in natural_loops(f):
                sx3 = SymEx(f, max_paths=400, max_steps=30000, facts=facts)
                try:
                    cyc = [p for p in sx3.run(h) if p.end == "loop" and p.end_block == h]
                except PathLimit:
                    cyc = []
                for p in cyc:
                    net = sum(1 if e[1] in RR["openers"] else -1 if e[1] in RR["closers"] else 0 for e in p.events if e[0] == "call")
                    if net != 0:
                        bad = "loop iteration changes the scope depth by %+d" % net
        if bad:
            ck.bad(R, "unbalanced|%s" % f.short, "%s: a path %s" % (f.short, bad), f.where())
        else:
            ck.ok(R, "balanced|%s" % f.short, {"fn": f.short, "paths": len(paths)})
    ck.floor(R, "functions_with_scopes", m, 1)


def rule_alias_export(ck, facts):
    R = "C17.alias-export"
    ck.rule(R, "in the program flattener, on every path a module-qualified key (result of mangle_qualified_name) inserted into use_alias_map is also inserted into visibility_map: a name made reachable through a module path always carries a visibility record")
    from ..symex import PathLimit, SymEx, show

    lang = facts.crate(roles.LANG)
    n = 0
    for f in lang.fns:
        if "::ast::program::" not in f.path or f.kind == "promoted":
            continue
        if not field_touch(f, "ModuleInfo::use_alias_map"):
            continue
        sx = SymEx(f, max_paths=200, max_steps=12000, facts=facts)
        try:
            paths = sx.run(0)
        except PathLimit:
            paths = sx.paths
        bad = None
        seen_any = False
        for p in paths:
            if p.end != "return":
                continue
            alias_keys, vis_keys = [], []
            for e in p.events:
                if e[0] != "call" or not e[1].endswith("::insert") or len(e[2]) < 2:
                    continue
                recv = repr(e[2][0])
                key = e[2][1]
                if "ModuleInfo::use_alias_map" in recv:
                    alias_keys.append(key)
                elif "ModuleInfo::visibility_map" in recv:
                    vis_keys.append(key)
            for k in alias_keys:
                if "mangle_qualified_name" in repr(k):
                    seen_any = True
                    if repr(k) not in [repr(v) for v in vis_keys]:
                        bad = show(k)
        root = f.root.split("::", 1)[1]
        if not seen_any and not bad:
            continue
        n += 1
        if bad:
            ck.bad(R, "alias|%s" % root, "%s registers the module-qualified alias %s in use_alias_map on a path that records no visibility for it: the name resolves from outside the module although it was imported privately (lookups fail open when no visibility record exists)" % (f.short, bad[:80]), f.where())
        else:
            ck.ok(R, "alias|%s" % root, {"fn": root})
    ck.floor(R, "qualified_alias_registrations", n, 1)


def rule_hierarchy_predicate(ck, facts):
    R = "C17.hierarchy"
    ck.rule(R, "the predicate that waives the private-access error for code inside the same module hierarchy is a prefix test that constrains lengths (slice::starts_with, or an explicit length comparison of the two paths): an enclosing module is not 'inside' its nested module")
    lang = facts.crate(roles.LANG)
    fns = [f for f in lang.fns if RESOLVER_MOD in f.path and f.kind == "assoc" and f.local_ty(0) == "bool" and f.d["argc"] == 2 and "[interner::Symbol]" in f.local_ty(2)]
    # role: called in a function that constructs PrivateMemberAccess
    users = set()
    for g in lang.fns:
        if RESOLVER_MOD not in g.path:
            continue
        if any(s[KIND] == "a" and s[5][0] == "agg" and s[5][1][0] == "adt" and s[5][1][3] == "PrivateMemberAccess" for _, s in g.all_stmts()):
            for _, t in g.calls():
                users.add(callee(t))
    preds = [f for f in fns if f.path in users]
    ck.require(R, len(preds) >= 1, "anchor|hierarchy-predicate", "no bool predicate over a module path used next to PrivateMemberAccess found")
    for f in preds:
        fam = facts.family(roles.LANG, f.path)
        names = [(callee(t) or "") for g in fam for _, t in g.calls()]
        has_starts_with = any(n.endswith("::starts_with") for n in names)
        # an explicit constraint relating the lengths of the two paths: a comparison both of whose operands are lengths
        from ..cfg import DefIndex

        len_cmp = False
        for g in fam:
            di = DefIndex(g)
            for _, s in g.all_stmts():
                if s[KIND] == "a" and s[5][0] == "bin" and s[5][1] in ("lt", "le", "gt", "ge", "eq") and s[5][4] == "usize":
                    both = 0
                    for o in (s[5][2], s[5][3]):
                        r = di.resolve(o)
                        if (r[0] == "call" and (callee(r[1]) or "").endswith("::len")) or (r[0] == "rv" and r[1][5][0] == "un" and r[1][5][1] == "ptrmeta"):
                            both += 1
                    if both == 2:
                        len_cmp = True
        key = "prefix-test|%s" % f.short.split("::")[-1]
        if has_starts_with or len_cmp:
            ck.ok(R, key, {"fn": f.short, "via": "starts_with" if has_starts_with else "explicit length comparison"})
        else:
            ck.bad(R, key, "%s decides 'same module hierarchy' without constraining the lengths of the two paths (element-wise comparison stops at the shorter one): code in an enclosing module is treated as being inside its nested modules and may read their private members" % f.short, f.where())


def _arg_deps(e, out):
    if isinstance(e, tuple):
        if len(e) == 2 and e[0] == "arg" and isinstance(e[1], int):
            out.add(e[1])
        for x in e:
            _arg_deps(x, out)


def rule_answer_consistency(ck, facts, R="C17.routes"):
    """a resolved reference is answered as (mangled name, module path): both describe the same definition"""
    lang = facts.crate(roles.LANG)
    n = 0
    for f in lang.fns:
        if f.kind != "fn" or "::test" in f.path or not ("::ast::program::" in f.path or RESOLVER_MOD in f.path):
            continue
        ret = (f.d.get("locals") or [""])[0]
        if not (ret.startswith("(") and "Symbol" in ret and "Vec<" in ret and ret.count(",") == 1):
            continue
        slices = {i for i in range(1, f.d.get("argc", 0) + 1) if "[" in f.d["locals"][i] and "Symbol" in f.d["locals"][i]}
        if len(slices) < 2:
            continue
        sx = SymEx(f, max_paths=64, max_steps=8000, facts=facts)
        try:
            paths = sx.run(0)
        except PathLimit:
            paths = sx.paths
        deps = []
        for p in paths:
            r0 = p.env.get(0)
            if p.end != "return" or not (r0 and r0[0] == "agg" and len(r0[2]) == 2):
                continue
            dm, dp = set(), set()
            _arg_deps(r0[2][0], dm)
            _arg_deps(r0[2][1], dp)
            deps.append((dm & slices, dp & slices))
        if not deps:
            continue
        n += 1
        # every optional input the name was built from (the module context of a relative resolution) is also in the
        # path that is handed back with it
        bad = [(dm, dp) for dm, dp in deps if dm - dp]
        key = "answer|%s" % f.short.split("::")[-1]
        if bad:
            dm, dp = bad[0]
            ck.bad(R, key, "%s answers with a mangled name that depends on arguments %s and a module path that depends on arguments %s: the name and the path no longer describe the same definition (the privacy waiver `same module hierarchy` is then decided on a path that is not where the definition lives)" % (f.short, sorted(dm), sorted(dp)), f.where())
        else:
            ck.ok(R, key, {"fn": f.short, "return_paths": len(deps)})
    ck.floor(R, "pair_answers", n, 1)


def rule_lexical_first(ck, facts, R="C17.routes"):
    """a name bound in an enclosing lexical scope refers to that binding, whatever the modules export"""
    lang = facts.crate(roles.LANG)
    RR = resolver_roles(facts)
    from ..cfg import dominators

    n = 0
    for f in lang.fns:
        if RESOLVER_MOD not in f.path or f.kind == "promoted" or "::test" in f.path:
            continue
        tests = [b for b, t in f.calls() if (callee(t) or "") in RR["predicates"]]
        if not tests:
            continue
        dom = dominators(f)
        vars_ = [(b, st) for b, st in f.all_stmts() if st[KIND] == "a" and st[5][0] == "agg" and st[5][1][0] == "adt" and st[5][1][1] == roles.EXPR and st[5][1][3] == "Var"]
        if not vars_:
            continue
        n += 1
        early = [(b, st) for b, st in vars_ if not any(tb in dom.get(b, ()) for tb in tests)]
        key = "lexical-first|%s" % f.short.split("::")[-1]
        if early:
            ck.bad(R, key, "%s can answer with a (module-qualified, aliased or imported) name before it has asked whether the name is bound in an enclosing lexical scope: a local binder whose name is also a member of the current module, an alias or an import no longer captures its own uses — renaming the binder changes what the program means" % f.short, f.where(early[0][1]))
        else:
            ck.ok(R, key, {"fn": f.short, "answers": len(vars_)})
    ck.floor(R, "routes_with_lexical_test", n, 1)


def rule_context_bracket(ck, facts, R="C17.context"):
    """the module context of a function definition applies to its body only"""
    ck.rule(R, "in the name resolver, the module context that a function definition installs (ResolveContext.current_module_context) is taken back before the continuation of the definition (the `then` part of LetRec) is resolved: a later top-level statement must not be resolved as if it were inside the preceding function's module; and the scope that holds the binder (opened by bind_*, closed by pop_scope) is still open when the continuation is resolved")
    lang = facts.crate(roles.LANG)
    RR = resolver_roles(facts)
    # the resolver's walk over expressions: the function of the resolver module with the most Expr arms
    cands = []
    for g in lang.fns:
        if RESOLVER_MOD in g.path and g.kind == "fn" and "::test" not in g.path:
            cv = cover.coverage(facts, g, roles.EXPR)
            scoped = any((callee(t) or "") in RR["closers"] for h in facts.family(roles.LANG, g.root) for _, t in h.calls())
            if cv is not None and cv.primary is not None and len(cv.primary_handled()) >= 10 and "LetRec" in cv.primary_handled() and scoped:
                cands.append((len(cv.primary_handled()), g))
    fs = [max(cands, key=lambda x: x[0])[1]] if cands else []
    ck.require(R, len(fs) == 1, "anchor|convert_expr", "the resolver's walk over expressions (a dispatch on Expr with a LetRec arm) was not found")
    if len(fs) != 1:
        return
    f = fs[0]
    cov = cover.coverage(facts, f, roles.EXPR)
    ck.require(R, cov is not None and "LetRec" in cov.primary_handled(), "anchor|LetRec", "convert_expr has no LetRec arm")
    if cov is None or "LetRec" not in cov.primary_handled():
        return
    adt = facts.adt(roles.EXPR)
    nfields = {v["n"]: len(v["f"]) for v in adt["variants"]}
    FIELD = "ResolveContext::current_module_context"
    n = 0
    for v in ("LetRec", "Let"):
        if v not in cov.primary_handled() or cov.arm_target(v) is None:
            continue
        cont = nfields.get(v, 0) - 1  # the continuation is the last payload field
        sx = SymEx(f, payload_place=cov.primary.place, max_paths=200, max_steps=20000, facts=facts)
        try:
            paths = sx.run(cov.arm_target(v))
        except PathLimit:
            paths = sx.paths
        touched = False
        bad = None
        scope_bad = None
        scope_seen = False
        for p in paths:
            if p.end != "return":
                continue
            saved = None
            inside = False
            # the binder's scope: opened by a bind_* call of the resolver, closed by pop_scope
            bound = False
            closed = False
            for e in p.events:
                if e[0] == "call":
                    if e[1] in RR["binders"]:
                        bound = True
                        closed = False
                    elif e[1] in RR["closers"] and bound:
                        closed = True
                    elif any(a == ("pay", v, cont) for a in e[2]) and bound:
                        scope_seen = True
                        if closed:
                            scope_bad = e[3]
            for e in p.events:
                if e[0] == "call" and e[1].endswith("mem::take") and FIELD in repr(e[2]):
                    saved = ("call", e[1], e[2])
                    inside = True
                    touched = True
                elif e[0] == "store" and FIELD in repr(e[1]):
                    touched = True
                    inside = not (saved is not None and e[2] == saved)
                elif e[0] == "call" and ("('pay', '%s', %d)" % (v, cont)) in repr(e[2]):
                    if inside:
                        bad = e[3]
        if scope_seen:
            k2 = "binder-scope|%s" % v
            if scope_bad is None:
                ck.ok(R, k2, {"arm": v, "continuation": "resolved while the binder's scope is open"})
            else:
                ck.bad(R, k2, "convert_expr (arm %s) closes the scope that holds the binder (pop_scope) before it resolves the continuation: every later reference to the bound name is resolved as if the definition did not exist, so a name that is also importable (`use m::*`, an alias, a module sibling) is silently rewritten to the imported one — renaming the binder changes the meaning" % v, f.where(scope_bad))
        if not touched:
            continue
        n += 1
        key = "bracket|%s" % v
        if bad is None:
            ck.ok(R, key, {"arm": v, "continuation": "resolved after the context was taken back"})
        else:
            ck.bad(R, key, "convert_expr (arm %s) resolves the continuation of the definition while the module context installed for the function body is still in force: a global `let` after `mod m { fn secret() .. }` is resolved as if inside `m` (`m::secret()` passes the privacy check, bare `secret()` resolves to m$secret)" % v, f.where(bad))
    ck.floor(R, "context_brackets", n, 1)
    # binders whose scope is opened inside a closure (the `Let` arm binds the pattern in the closure that resolves the
    # continuation): there the recursive resolution must lie between bind_* and pop_scope
    m = 0
    for g in facts.family(roles.LANG, f.root):
        if g.path == f.path or g.kind == "promoted":
            continue
        names = {(callee(t) or "") for _, t in g.calls()}
        if not (names & RR["binders"] and names & RR["closers"]):
            continue
        sx = SymEx(g, max_paths=64, max_steps=6000, facts=facts)
        try:
            paths = sx.run(0)
        except PathLimit:
            paths = sx.paths
        badc = None
        seen = False
        for p in paths:
            if p.end != "return":
                continue
            bound = closed = False
            for e in p.events:
                if e[0] != "call":
                    continue
                if e[1] in RR["binders"]:
                    bound, closed = True, False
                elif e[1] in RR["closers"] and bound:
                    closed = True
                elif e[1] == f.path and bound:
                    seen = True
                    if closed:
                        badc = e[3]
        if seen:
            m += 1
            k2 = "binder-scope|%s" % g.short.split("::")[-1]
            if badc is None:
                ck.ok(R, k2, {"closure": g.short, "continuation": "resolved while the binder's scope is open"})
            else:
                ck.bad(R, k2, "%s closes the scope that holds the bound names (pop_scope) before it resolves the expression they are bound for: references to them are resolved as if the binding did not exist" % g.short, g.where(badc))
    ck.setcount("binder_scope_closures", m)


def run(ck, facts, tier):
    from ..rules import patcover

    # local bindings shadow imported names: the resolver must know every variable a match arm binds
    patcover.run_match_patterns(ck, facts, "C17.binders", roles.LANG)
    rule_alias_export(ck, facts)
    rule_hierarchy_predicate(ck, facts)
    rule_register(ck, facts)
    rule_last_definition_wins(ck, facts)
    rule_routes(ck, facts)
    rule_scope(ck, facts)
    rule_lexical_first(ck, facts)
    rule_answer_consistency(ck, facts)
    rule_context_bracket(ck, facts)
    ck.not_decided("that every accepted reference resolves to the unique definition its path denotes, for concrete module trees")
