"""C20 — values and types survive the plugin FFI encoding (exhaustive over variants)."""
from .. import roles
from ..cfg import reachable
from ..facts import KIND, callee, const_int, const_str
from ..rules import cover
from ..symex import PathLimit, SymEx, show
from .c01_ops import str_of
from ..cfg import DefIndex

LEVEL = "other"
EXPLANATION = (
    "Variant-level round trip of the FFI encoding, decided exhaustively on MIR: for every interpreter::Value variant the "
    "encoder either returns Err or builds an FfiValue variant whose decoder arm rebuilds the same Value variant; scalar "
    "payloads are passed through unchanged and every payload field is used; for the hand-written serde of Type, the variant "
    "index and name passed to the serializer equal the position and name of the field-identifier enum the deserializer reads, "
    "and the deserializer arm for that identifier constructs the same Type variant. Byte-level behaviour of bincode (NaN "
    "payloads, -0.0) is not decided."
)
VALUE = "mimium_lang::interpreter::Value"
FFI = "mimium_lang::runtime::ffi_serde::FfiValue"


def _always_err(facts, path, depth=0):
    """a workspace function every normal return of which is `Err(..)`"""
    g = facts.fn(path)
    if g is None or depth > 2:
        return False
    sx = SymEx(g, max_paths=32, facts=facts)
    try:
        paths = sx.run(0)
    except PathLimit:
        return False
    rets = [p.env.get(0) for p in paths if p.end == "return"]
    return bool(rets) and all(r is not None and ((r[0] == "agg" and r[1].endswith("Result::Err")) or (r[0] == "call" and _always_err(facts, r[1], depth + 1))) for r in rets)


def result_variants(facts, f, enum_self, target_enum):
    """variant of enum_self -> set of ('ok', TargetVariant, payload_exprs) / ('err',) / ('plain', TargetVariant, ...)"""
    cov = cover.coverage(facts, f, enum_self)
    if cov is None:
        return None, None
    out = {}
    for v in cov.names:
        tb = cov.arm_target(v)
        if tb is None:
            out[v] = {("missing",)}
            continue
        sx = SymEx(f, payload_place=cov.primary.place, max_paths=64, facts=facts)
        try:
            paths = sx.run(tb)
        except PathLimit:
            out[v] = {("unanalysable",)}
            continue
        res = set()
        for p in paths:
            if p.end != "return":
                continue
            r = p.env.get(0)
            if r is None:
                continue
            if r[0] == "agg" and r[1].endswith("Result::Err"):
                res.add(("err",))
                continue
            if r[0] == "agg" and r[1].endswith("Result::Ok") and r[2]:
                r = r[2][0]
            if r[0] == "agg" and r[1].startswith(target_enum + "::"):
                res.add(("ok", r[1].rsplit("::", 1)[1], r[2]))
            elif r[0] == "call" and "from_residual" in r[1]:
                res.add(("err",))  # `?` propagation of a nested failure
            elif r[0] == "call" and _always_err(facts, r[1]):
                res.add(("err",))  # a helper of the workspace that builds the refusal
            else:
                res.add(("other", show(r)[:80]))
        out[v] = res
    return cov, out


def rule_value_roundtrip(ck, facts):
    R = "C20.value"
    ck.rule(R, "for every Value variant V: to_ffi_value returns Err, or Ok(FfiValue::W(..)) with to_value(W) = V; scalar payloads pass unchanged; every payload field of V is used; an aggregate of nested Values can return Err (nested failures are propagated, not dropped)")
    lang = facts.crate(roles.LANG)
    enc = [f for f in lang.fns if f.short.endswith("Value::to_ffi_value") or (f.short.endswith("::to_ffi_value") and "ffi_serde" in f.path and f.kind == "assoc")]
    dec = [f for f in lang.fns if f.short.endswith("FfiValue::to_value") or (f.short.endswith("::to_value") and "ffi_serde" in f.path and f.kind == "assoc")]
    ck.require(R, len(enc) == 1 and len(dec) == 1, "anchor|codec", "to_ffi_value / to_value not found (%d/%d)" % (len(enc), len(dec)))
    if len(enc) != 1 or len(dec) != 1:
        return
    ecov, e = result_variants(facts, enc[0], VALUE, FFI)
    dcov, d = result_variants(facts, dec[0], FFI, VALUE)
    ck.require(R, e is not None and d is not None, "anchor|matches", "the codec functions do not match on Value / FfiValue")
    if not e or not d:
        return
    vadt = facts.adt(VALUE)
    ck.floor(R, "value_variants", len(vadt["variants"]), 12)
    ck.require(R, not ecov.catchall, "encoder|no-catchall", "to_ffi_value has a catch-all arm over Value (%s): new variants would be silently mapped" % sorted(ecov.catchall), enc[0].where())
    ck.require(R, not dcov.catchall, "decoder|no-catchall", "to_value has a catch-all arm over FfiValue (%s)" % sorted(dcov.catchall), dec[0].where())
    nfields = {v["n"]: len(v["f"]) for v in vadt["variants"]}
    for v in [x["n"] for x in vadt["variants"]]:
        res = e.get(v, {("missing",)})
        oks = [r for r in res if r[0] == "ok"]
        if not oks:
            if res and all(r[0] == "err" for r in res):
                ck.ok(R, "refused|%s" % v, {"variant": v, "encoder": "Err"})
            else:
                ck.bad(R, "encode|%s" % v, "Value::%s is neither encoded nor refused by to_ffi_value (%s)" % (v, sorted(map(str, res))), enc[0].where())
            continue
        for _, w, payload in oks:
            back = d.get(w, {("missing",)})
            backs = {r[1] for r in back if r[0] == "ok"}
            if backs == {v}:
                ck.ok(R, "roundtrip|%s" % v, {"variant": v, "ffi": w, "decodes_to": v})
            else:
                ck.bad(R, "roundtrip|%s" % v, "Value::%s is encoded as FfiValue::%s, which decodes to %s: the value is silently altered instead of being refused" % (v, w, sorted(backs) or sorted(map(str, back))), enc[0].where())
            # payload use
            used = set()
            txt = repr(payload)
            for i in range(nfields.get(v, 0)):
                if "('pay', '%s', %d)" % (v, i) in txt:
                    used.add(i)
            if len(used) == nfields.get(v, 0) or v.startswith("Error"):
                ck.ok(R, "payload|%s" % v)
            else:
                ck.bad(R, "payload|%s" % v, "to_ffi_value drops payload field(s) %s of Value::%s" % (sorted(set(range(nfields[v])) - used), v), enc[0].where())
            # scalars unchanged
            for i, pe in enumerate(payload):
                x = pe
                while x[0] in ("deref", "ref"):
                    x = x[1]
                if x[0] in ("bin", "un", "cast"):
                    ck.bad(R, "scalar|%s|%d" % (v, i), "to_ffi_value transforms payload %d of Value::%s (%s) instead of passing it through" % (i, v, show(pe)), enc[0].where())
    # nested values: an aggregate whose payload holds Values must be able to fail (a nested value that cannot cross the
    # boundary makes the whole value non-transferable; swallowing the nested Err shortens the aggregate silently)
    for vv in vadt["variants"]:
        v = vv["n"]
        nested = any("interpreter::Value" in fld[1] for fld in vv["f"])
        if not nested:
            continue
        res = e.get(v, set())
        if not any(r[0] == "ok" for r in res):
            continue
        key = "nested-failure|%s" % v
        if any(r[0] == "err" for r in res):
            ck.ok(R, key, {"variant": v, "nested": "Err is propagated"})
        else:
            ck.bad(R, key, "to_ffi_value encodes Value::%s, whose payload holds nested Values, but has no path that returns Err from that arm: a nested value that cannot cross the boundary (closure, store, external function ...) is dropped and the shortened aggregate is sent instead of an error" % v, enc[0].where())
    # decoder side: scalar payloads unchanged
    for w, res in d.items():
        for r in res:
            if r[0] == "ok":
                for i, pe in enumerate(r[2]):
                    x = pe
                    while x[0] in ("deref", "ref"):
                        x = x[1]
                    if x[0] in ("bin", "un", "cast"):
                        ck.bad(R, "scalar-dec|%s|%d" % (w, i), "to_value transforms payload %d of FfiValue::%s (%s)" % (i, w, show(pe)), dec[0].where())


def rule_type_serde(ck, facts, R="C20.type-serde", ENUM=None, self_suffix="types::Type", module_mark="types::serde_impl", label="Type", floor=12):
    ENUM = ENUM or roles.TYPE
    ck.rule(R, "hand-written serde of %s: the (index, name) constants given to serialize_*_variant equal the ordinal and name of the matching field-identifier variant read by the deserializer, whose arm constructs the same %s variant; indices are unique" % (label, label))
    lang = facts.crate(roles.LANG)
    ser = [f for f in lang.fns if f.d.get("trait", "").endswith("Serialize") and f.d.get("self_ty", "").endswith(self_suffix) and f.short.endswith("::serialize") and module_mark in f.path]
    ck.require(R, len(ser) == 1, "anchor|%s::serialize" % label, "impl Serialize for %s not found" % label)
    if len(ser) != 1:
        return
    f = ser[0]
    cov = cover.coverage(facts, f, ENUM)
    ck.require(R, cov is not None and not cov.catchall, "serialize|no-catchall", "%s::serialize has a catch-all arm" % label, f.where())
    if cov is None:
        return
    di = DefIndex(f)
    table = {}
    for v in cov.names:
        tb = cov.arm_target(v)
        if tb is None:
            continue
        region = reachable(f, tb, stop=[cov.primary.block])
        found = None
        for b in sorted(region):
            t = f.term(b)
            if t[KIND] == "call" and (callee(t) or "").split("::")[-1] in ("serialize_struct_variant", "serialize_unit_variant", "serialize_tuple_variant", "serialize_newtype_variant"):
                args = t[5]
                idx = None
                name = None
                strs = []
                for a in args:
                    if const_int(a) is not None and idx is None and a[2] == "u32":
                        idx = const_int(a)
                    s = str_of(f, di, a)
                    if s is not None:
                        strs.append(s)
                if len(strs) >= 2:
                    name = strs[1]
                found = (idx, name)
                break
        if found:
            table[v] = found
    # the field-identifier enum of the deserializer
    fields = [a for p, a in lang.adts.items() if p.endswith("::Field") and module_mark in p and len(a["variants"]) >= 8]
    ck.require(R, len(fields) == 1, "anchor|Field", "field-identifier enum of %s's deserializer not found" % label)
    ck.floor(R, "serialised_%s_variants" % label.lower(), len(table), floor)
    if len(fields) != 1:
        return
    order = [v["n"] for v in fields[0]["variants"]]
    seen_idx = {}
    for v, (idx, name) in sorted(table.items()):
        if name != v:
            ck.bad(R, "name|%s" % v, "%s::%s is serialised under the variant name %r" % (label, v, name), f.where())
        else:
            ck.ok(R, "name|%s" % v)
        if idx is None or idx >= len(order) or order[idx] != v:
            ck.bad(R, "index|%s" % v, "%s::%s is serialised with variant index %s but the deserializer's identifier #%s is %s: it decodes as another variant" % (label, v, idx, idx, order[idx] if idx is not None and idx < len(order) else "out of range"), f.where())
        else:
            ck.ok(R, "index|%s" % v, {"variant": v, "index": idx})
        if idx in seen_idx:
            ck.bad(R, "index-dup|%s" % idx, "variant index %s is used for both %s and %s" % (idx, seen_idx[idx], v), f.where())
        seen_idx[idx] = v
    # deserializer arms: Field::X constructs Type::X
    vis = [g for g in lang.fns if module_mark in g.path and g.short.endswith("::visit_enum")]
    ck.require(R, len(vis) >= 1, "anchor|visit_enum", "visit_enum of %s's deserializer not found" % label)
    n_dec = 0
    for g in vis:
        fcov = cover.coverage(facts, g, fields[0]["p"])
        if fcov is None:
            continue
        for v in fcov.names:
            tb = fcov.arm_target(v)
            if tb is None:
                continue
            n_dec += 1
            region = reachable(g, tb, stop=[fcov.primary.block])
            built = set()
            for b in region:
                for s in g.stmts(b):
                    if s[KIND] == "a" and s[5][0] == "agg" and s[5][1][0] == "adt" and s[5][1][1] == ENUM:
                        built.add(s[5][1][3])
            if built == {v}:
                ck.ok(R, "decode|%s" % v, {"identifier": v, "constructs": v})
            else:
                ck.bad(R, "decode|%s" % v, "deserializer arm for identifier %s constructs %s::%s" % (v, label, sorted(built)), g.where())
    ck.floor(R, "decoder_arms_checked_%s" % label.lower(), n_dec, max(1, floor - 3))
    # field order of struct-like payloads: positional formats (bincode) decode the helper struct's fields in declaration
    # order, so that order must be the order of the serializer's serialize_field calls
    from ..facts import callee_full
    helpers = {}
    for g in vis:
        fcov = cover.coverage(facts, g, fields[0]["p"])
        if fcov is None:
            continue
        for v in fcov.names:
            tb = fcov.arm_target(v)
            if tb is None:
                continue
            for b in reachable(g, tb, stop=[fcov.primary.block]):
                t = g.term(b)
                if t[KIND] == "call" and (callee(t) or "").split("::")[-1] in ("newtype_variant", "struct_variant", "tuple_variant"):
                    full = callee_full(t) or ""
                    m = full.rsplit("newtype_variant::<", 1)
                    if len(m) == 2:
                        ty = m[1].rstrip(">")
                        for pth, a in lang.adts.items():
                            if pth.split("::")[-1] == ty.split("::")[-1] and module_mark in pth and pth.split("::")[-1].endswith("Fields") and len(a["variants"]) == 1:
                                helpers[v] = [x[0] for x in a["variants"][0]["f"]]
    for v in sorted(helpers):
        tb = cov.arm_target(v)
        if tb is None:
            continue
        sx = SymEx(f, payload_place=cov.primary.place, max_paths=64, facts=facts)
        try:
            paths = sx.run(tb)
        except PathLimit:
            paths = sx.paths
        order = None
        for p in paths:
            if p.end != "return":
                continue
            names = []
            for ev in p.events:
                if ev[0] == "call" and ev[1].split("::")[-1] == "serialize_field":
                    for a in ev[2]:
                        x = a
                        while isinstance(x, tuple) and x and x[0] in ("ref", "deref"):
                            x = x[1]
                        if isinstance(x, tuple) and x and x[0] == "k" and isinstance(x[1], str):
                            names.append(x[1])
                            break
            if len(names) > len(order or []):
                order = names
        key = "field-order|%s" % v
        if order is None:
            continue
        if order == helpers[v]:
            ck.ok(R, key, {"variant": v, "fields": order})
        else:
            ck.bad(R, key, "%s::%s is serialised with its fields in the order %s but the deserializer's helper struct declares %s: a positional format (bincode) decodes them swapped without any error (e.g. a function type comes back with argument and result exchanged)" % (label, v, order, helpers[v]), f.where())
    # refused variants = those whose arm returns Err
    refused = [v for v in cov.names if v not in table]
    ck.note("%s variants refused by the serializer: %s" % (label, sorted(refused)))


def _container(ty):
    t = ty.replace("std::vec::", "").replace("std::collections::", "").replace("alloc::vec::", "")
    for k in ("Vec<", "BTreeMap<", "HashMap<", "BTreeSet<", "HashSet<", "VecDeque<", "Box<", "Option<"):
        if t.startswith(k):
            return k[:-1]
    return "scalar"


def rule_container_shape(ck, facts):
    """an aggregate crosses the boundary as the same kind of collection it is on this side"""
    R = "C20.value"
    lang = facts.crate(roles.LANG)
    enc = [f for f in lang.fns if f.short.endswith("Value::to_ffi_value") or (f.short.endswith("::to_ffi_value") and "ffi_serde" in f.path and f.kind == "assoc")]
    if len(enc) != 1:
        return
    ecov, e = result_variants(facts, enc[0], VALUE, FFI)
    vadt, fadt = facts.adt(VALUE), facts.adt(FFI)
    if not e or not vadt or not fadt:
        return
    vf = {v["n"]: v["f"] for v in vadt["variants"]}
    ff = {v["n"]: v["f"] for v in fadt["variants"]}
    n = 0
    for v, res in sorted(e.items()):
        for r in res:
            if r[0] != "ok":
                continue
            w = r[1]
            a, b = vf.get(v, []), ff.get(w, [])
            if len(a) != 1 or len(b) != 1:
                continue
            ca, cb = _container(a[0][1]), _container(b[0][1])
            if ca not in ("Vec", "VecDeque") :
                continue
            n += 1
            key = "container|%s" % v
            if cb == ca:
                ck.ok(R, key, {"value": a[0][1][:60], "ffi": b[0][1][:60]})
            else:
                ck.bad(R, key, "Value::%s holds a %s (an ordered sequence, duplicates allowed) but its FFI form FfiValue::%s holds a %s: the order of the elements, and entries with equal keys, are lost on the way — the value that arrives differs from the one that was sent although no error is reported" % (v, ca, w, cb), enc[0].where())
    ck.floor(R, "sequence_payloads", n, 3)


def rule_result_length_gate(ck, facts):
    """the host side of the plugin bridge accepts every non-empty result buffer"""
    from ..cfg import DefIndex

    R = "C20.value"
    lang = facts.crate(roles.LANG)
    n = 0
    for f in lang.fns:
        if "plugin::loader" not in f.path or f.kind == "promoted" or "::test" in f.path:
            continue
        raws = [t for _, t in f.calls() if (callee(t) or "").split("::")[-1] in ("from_raw_parts", "from_raw_parts_mut") and len(t[5]) >= 2]
        if not raws:
            continue
        di = DefIndex(f)

        def src_local(op):
            """the variable an operand is a plain copy of (one step: the length lives in an address-taken local that
            the callee fills in, so its only visible definition is its initialiser)"""
            if op[0] not in ("cp", "mv") or op[1][1]:
                return None
            d = di.single_def(op[1][0])
            if d is not None and d[1] is not None and d[2][5][0] == "use" and d[2][5][1][0] in ("cp", "mv") and not d[2][5][1][1][1]:
                return d[2][5][1][1][0]
            return op[1][0]

        lens = {src_local(t[5][1]) for t in raws} - {None}
        for b, st in f.all_stmts():
            if st[KIND] != "a" or st[5][0] != "bin" or st[5][1] not in ("lt", "le", "gt", "ge", "eq", "ne"):
                continue
            ops = st[5][2:4]
            if not any(src_local(o) in lens for o in ops):
                continue
            n += 1
            cs = [o for o in ops if o[0] == "c"]
            cr = [di.resolve(o) for o in ops if o[0] in ("cp", "mv")]
            nonzero = [o for o in cs if len(o) > 3 and str(o[3]) not in ("0",)] + [r for r in cr if r[0] == "call" and (callee(r[1]) or "").split("::")[-1] in ("size_of", "size_of_val", "align_of")]
            key = "length-gate|%s" % (f.root.split("::", 1)[1] if "::" in f.root else f.root)
            if nonzero or (st[5][1] not in ("eq", "ne") and not cs):
                ck.bad(R, key, "%s compares the length of the result buffer a plugin handed back with something other than 0 before decoding it: the shortest valid encodings (a unit value is a 4-byte tag) are turned into an error value on the host although the plugin answered correctly" % f.short, f.where(st))
            else:
                ck.ok(R, key)
    ck.floor(R, "bridge_length_tests", n, 1)



BINCODE_ENC = ("serialize", "serialize_into", "serialized_size")
BINCODE_DEC = ("deserialize", "deserialize_from", "deserialize_seed", "deserialize_from_custom", "deserialize_in_place")
# option methods of bincode's `Options` that change which byte strings an encoder writes / a decoder accepts
BINCODE_OPTS = {
    "with_limit": ("limit", "bounded"), "with_no_limit": ("limit", "none"),
    "with_fixint_encoding": ("int", "fixint"), "with_varint_encoding": ("int", "varint"),
    "with_big_endian": ("endian", "big"), "with_little_endian": ("endian", "little"), "with_native_endian": ("endian", "native"),
    "allow_trailing_bytes": ("trailing", "allow"), "reject_trailing_bytes": ("trailing", "reject"),
}


def rule_codec_symmetry(ck, facts):
    """every encoder and every decoder of the bridge runs bincode under the same configuration"""
    R = "C20.codec"
    ck.rule(R, "the functions of the language crate that call bincode to encode and those that call it to decode use the same wire configuration (integer encoding, byte order, size limit): the free functions `bincode::serialize/deserialize` are the legacy configuration (fixed-width integers, little endian, no limit); an option chain is followed through the workspace helpers that build it. A limit or another integer encoding on one side only refuses, or misreads, what the other side wrote")
    lang = facts.crate(roles.LANG)

    def last(t):
        return (callee(t) or "").split("::")[-1].split("<")[0]

    def is_bincode(t):
        c = callee(t) or ""
        d = (t[4].get("def") or "") if isinstance(t[4], dict) else ""
        return "bincode" in c or "bincode" in d

    def opts_of(f, depth=0, seen=None):
        """option settings applied in f, its closures and the workspace helpers it calls (<= 2 calls deep)"""
        seen = seen if seen is not None else set()
        out = {}
        chain = False
        for g in facts.family(roles.LANG, f.root):
            for _, t in g.calls():
                n = last(t)
                if is_bincode(t) and n in BINCODE_OPTS:
                    k, v = BINCODE_OPTS[n]
                    out[k] = v
                    chain = True
                elif is_bincode(t) and n in ("new", "options", "config") and "Options" in (callee(t) or "") + str(t[4].get("full") or ""):
                    chain = True
                elif is_bincode(t) and n in ("options",):
                    chain = True
                else:
                    h = facts.fn(callee(t) or "")
                    if h is not None and depth < 2 and h.path not in seen and h.crate == roles.LANG and "bincode" in " ".join(str(x) for x in h.d["locals"][:1]):
                        seen.add(h.path)
                        o2, c2 = opts_of(h, depth + 1, seen)
                        out.update(o2)
                        chain = chain or c2
        return out, chain

    sides = {"encode": [], "decode": []}
    for f in lang.fns:
        if f.kind == "promoted" or "::test" in f.path or "::tests::" in f.path:
            continue
        for _, t in f.calls():
            if not is_bincode(t):
                continue
            n = last(t)
            side = "encode" if n in BINCODE_ENC else "decode" if n in BINCODE_DEC else None
            if side is None:
                continue
            free = "::config::" not in (callee(t) or "") and "Options" not in (callee(t) or "") and (t[4].get("def") or "").count("::") <= 1
            if free:
                cfg = {"int": "fixint", "endian": "little", "limit": "none"}
            else:
                o, _ = opts_of(f)
                cfg = {"int": "varint", "endian": "little", "limit": "none"}  # DefaultOptions::new()
                cfg.update({k: v for k, v in o.items() if k != "trailing"})
            sides[side].append((f, t, cfg, free))
    ck.floor(R, "encoder_sites", len(sides["encode"]), 1)
    ck.floor(R, "decoder_sites", len(sides["decode"]), 1)
    ref = None
    for f, t, cfg, free in sides["encode"]:
        ref = ref or cfg
    if ref is None:
        return
    for side in ("encode", "decode"):
        for f, t, cfg, free in sides[side]:
            owner = f.root.split("::", 1)[1] if "::" in f.root else f.root
            key = "config|%s|%s" % (side, owner)
            diff = {k: (cfg.get(k), ref.get(k)) for k in ("int", "endian", "limit") if cfg.get(k) != ref.get(k)}
            if not diff:
                ck.ok(R, key, {"site": owner, "config": cfg, "free_function": free})
            else:
                ck.bad(R, key, "%s runs bincode with %s while the encoders of the bridge use %s: %s" % (
                    owner, ", ".join("%s=%s" % (k, v[0]) for k, v in sorted(diff.items())), ", ".join("%s=%s" % (k, v[1]) for k, v in sorted(diff.items())),
                    "a size limit on one side refuses every value whose encoding is longer although the other side produced it correctly (a long array, a long string)" if "limit" in diff else "the two sides do not agree on how integers / lengths are written"), f.where(t))


def rule_derived_complete(ck, facts):
    """derived serde impls of the types that cross the boundary write and read every field"""
    import re as _re

    R = "C20.type-serde"
    lang = facts.crate(roles.LANG)
    n = 0
    for f in lang.fns:
        m = _re.search(r"<impl .*Serialize for ([\w:]+)(<.*>)?>::serialize$", f.path)
        if not m or f.kind != "assoc" or "::_::<impl" not in f.path:
            continue
        tyname = m.group(1)
        adt = [(p, a) for p, a in lang.adts.items() if p.endswith("::" + tyname) or p == tyname]
        if len(adt) != 1:
            continue
        ap, a = adt[0]
        label = ap.split("::", 1)[1] if "::" in ap else ap
        calls = [(last_seg(callee(t)), t) for _, t in f.calls()]
        if a.get("kind") == "struct" or (len(a["variants"]) == 1 and any(c == "serialize_struct" for c, _ in calls)):
            nf = len(a["variants"][0]["f"])
            written = sum(1 for c, _ in calls if c == "serialize_field")
            if not any(c == "serialize_struct" for c, _ in calls):
                continue  # newtype / transparent forms: one payload, nothing to skip
            n += 1
            key = "derived-fields|%s" % label
            if written == nf:
                ck.ok(R, key, {"fields": nf})
            else:
                ck.bad(R, key, "the derived serializer of %s writes %d of its %d fields (a field marked `skip`): the decoder fills the missing field with its default, so the type that arrives is not equal to the one that was sent and no error is reported" % (label, written, nf), f.where())
        elif len(a["variants"]) > 1:
            idx = set()
            for c, t in calls:
                if c in ("serialize_unit_variant", "serialize_newtype_variant", "serialize_tuple_variant", "serialize_struct_variant") and len(t[5]) >= 3:
                    i = const_int(t[5][2])
                    if i is not None:
                        idx.add(i)
            if not idx:
                continue
            n += 1
            key = "derived-variants|%s" % label
            if len(idx) == len(a["variants"]):
                ck.ok(R, key, {"variants": len(idx)})
            else:
                ck.bad(R, key, "the derived serializer of %s has arms for %d of its %d variants (a variant marked `skip`): such a value is refused or decoded as another variant" % (label, len(idx), len(a["variants"])), f.where())
    ck.floor(R, "derived_serializers_checked", n, 12)


def last_seg(c):
    return (c or "").split("::")[-1].split("<")[0]


def run(ck, facts, tier):
    rule_value_roundtrip(ck, facts)
    rule_container_shape(ck, facts)
    rule_result_length_gate(ck, facts)
    rule_codec_symmetry(ck, facts)
    rule_derived_complete(ck, facts)
    rule_type_serde(ck, facts)
    rule_type_serde(ck, facts, R="C20.value-serde", ENUM=VALUE, self_suffix="interpreter::Value", module_mark="interpreter::serde_impl", label="Value", floor=9)
    ck.not_decided("byte-level behaviour of bincode (NaN payload bits, -0.0), and self-describing formats where `rename_all = lowercase` identifiers would not match the capitalised names")
