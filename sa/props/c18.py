"""C18 — generated Rust code behaves like the VM (coverage-or-refusal + sibling primitives + name normal form)."""
from .. import roles
from ..callgraph import CallGraph
from ..facts import KIND, callee
from ..rules import cover
from . import c01, prims

LEVEL = "other"
EXPLANATION = (
    "Coverage-or-refusal and sibling agreement of the Rust transpiler, decided on MIR: every mir::Instruction variant the MIR "
    "generator can construct has an explicit, non-diverging arm in the emitting pass (which returns Err for what it cannot "
    "express); pre-passes with a silent catch-all are listed with the variants they skip; the `delay` primitive of the runtime "
    "template embedded in every generated program (compiled on its own for this analysis) clamps, reads and advances exactly "
    "like the VM ring buffer; the uniqueness test for emitted function names is made on the same sanitised form that is emitted. "
    "That emitted sources compile, and their outputs, are not decided."
)


def rule_cover(ck, facts, cg):
    R = "C18.cover"
    ck.rule(R, "every producible mir::Instruction variant has an explicit, non-diverging arm in the Rust emitter (no catch-all); analysis pre-passes with `_ => {}` are listed")
    rl = roles.rust_lowering(facts)
    ck.require(R, rl is not None, "anchor|rust-emitter", "Rust emitter (match on mir::Instruction with >= 40 arms in rustgen) not found")
    if rl is None:
        return
    producers = roles.non_derived(facts)
    prod = cover.constructed_variants(producers, roles.MIR_INSTR)
    ck.floor(R, "mir_variants_constructed", len(prod), 55)
    if rl.catchall:
        ck.bad(R, "catchall|%s" % rl.fn.short, "the Rust emitter has a catch-all arm covering %s: such instructions would be silently dropped from the generated program" % sorted(rl.catchall)[:8], rl.fn.where())
    else:
        ck.ok(R, "no-catchall|%s" % rl.fn.short.split("::")[-1], {"arms": len(rl.primary_handled())})
    for v in sorted(prod):
        if v in rl.primary_handled() and not rl.arm_diverges(v):
            ck.ok(R, "arm|%s" % v)
        else:
            ck.bad(R, "arm|%s" % v, "mir::Instruction::%s can be constructed but the Rust emitter %s" % (v, "aborts on it" if v in rl.primary_handled() else "has no arm for it"), rl.fn.where())
    # pre-passes with silent catch-alls
    pre = [c for c in cover.find_matchers(facts, roles.LANG, roles.MIR_INSTR, min_arms=2) if "rustgen" in c.fn.path and c.fn.path != rl.fn.path and c.catchall]
    for c in pre:
        ck.note("rustgen pre-pass %s skips %d variants silently (analysis only)" % (c.fn.short, len(c.catchall)))
    ck.setcount("rustgen_prepasses_with_catchall", len(pre))


def rule_names(ck, facts):
    R = "C18.names"
    ck.rule(R, "where the generator decides whether an emitted function name needs disambiguation, the collision test applies the same sanitiser that produces the emitted name (names are compared in the form in which they are emitted)")
    lang = facts.crate(roles.LANG)
    n = 0
    for f in lang.fns:
        if "::compiler::rustgen::" not in f.path or f.kind not in ("assoc", "fn"):
            continue
        cs = [(callee(t) or "") for _, t in f.calls()]
        san = [c for c in cs if "sanitize" in c.split("::")[-1]]
        counts = [c for c in cs if c.endswith("::count")]
        if not san or not counts:
            continue
        n += 1
        fam = [g for g in facts.family(roles.LANG, f.path) if g.kind == "closure"]
        clos_san = [g for g in fam if any((callee(t) or "") in san for _, t in g.calls())]
        if clos_san:
            ck.ok(R, "collision-test|%s" % f.short.split("::")[-1], {"fn": f.short, "sanitiser": san[0].split("::")[-1]})
        else:
            ck.bad(R, "collision-test|%s" % f.short.split("::")[-1], "%s counts name collisions without sanitising the candidates with %s: two labels that differ only in characters the sanitiser rewrites get the same Rust name and the generated program does not compile" % (f.short, san[0].split("::")[-1]), f.where())
    ck.floor(R, "name_collision_tests", n, 1)


def run(ck, facts, tier):
    cg = CallGraph(facts, ["mimium_lang"])
    rule_cover(ck, facts, cg)
    ck.require("C18.prims", "mimium_rust_template" in facts.files, "anchor|template-facts", "the Rust runtime template did not compile stand-alone under the extractor (see template-build.log); its primitives cannot be compared")
    prims.rule_delay(ck, facts, "C18.prims", want=("vm", "rust"))
    prims.rule_array_index_rust(ck, facts, "C18.prims")
    rule_names(ck, facts)
    ck.not_decided("that every emitted source compiles with rustc and that its outputs equal the VM's (the operator text templates of the emitter are not decoded)")
