"""C18 — generated Rust code behaves like the VM (coverage-or-refusal + sibling primitives + name normal form)."""
from .. import roles
from ..callgraph import CallGraph
from ..cfg import DefIndex
from ..facts import KIND, callee
from ..rules import cover
from . import c01, prims

LEVEL = "other"
EXPLANATION = (
    "Coverage-or-refusal and sibling agreement of the Rust transpiler, decided on MIR: every mir::Instruction variant the MIR "
    "generator can construct has an explicit, non-diverging arm in the emitting pass (which returns Err for what it cannot "
    "express); pre-passes with a silent catch-all are listed with the variants they skip; the `delay` primitive of the runtime "
    "template embedded in every generated program (compiled on its own for this analysis) clamps, reads and advances exactly "
    "like the VM ring buffer; the uniqueness test for emitted function names is made on the same sanitised form that is emitted. "
    "That emitted sources compile, and their outputs, are not decided."
)


def rule_cover(ck, facts, cg):
    R = "C18.cover"
    ck.rule(R, "every producible mir::Instruction variant has an explicit, non-diverging arm in the Rust emitter (no catch-all); analysis pre-passes with `_ => {}` are listed")
    rl = roles.rust_lowering(facts)
    ck.require(R, rl is not None, "anchor|rust-emitter", "Rust emitter (match on mir::Instruction with >= 40 arms in rustgen) not found")
    if rl is None:
        return
    producers = roles.non_derived(facts)
    prod = cover.constructed_variants(producers, roles.MIR_INSTR)
    ck.floor(R, "mir_variants_constructed", len(prod), 55)
    if rl.catchall:
        ck.bad(R, "catchall|%s" % rl.fn.short, "the Rust emitter has a catch-all arm covering %s: such instructions would be silently dropped from the generated program" % sorted(rl.catchall)[:8], rl.fn.where())
    else:
        ck.ok(R, "no-catchall|%s" % rl.fn.short.split("::")[-1], {"arms": len(rl.primary_handled())})
    for v in sorted(prod):
        if v in rl.primary_handled() and not rl.arm_diverges(v):
            ck.ok(R, "arm|%s" % v)
        else:
            ck.bad(R, "arm|%s" % v, "mir::Instruction::%s can be constructed but the Rust emitter %s" % (v, "aborts on it" if v in rl.primary_handled() else "has no arm for it"), rl.fn.where())
    # pre-passes with silent catch-alls
    pre = [c for c in cover.find_matchers(facts, roles.LANG, roles.MIR_INSTR, min_arms=2) if "rustgen" in c.fn.path and c.fn.path != rl.fn.path and c.catchall]
    for c in pre:
        ck.note("rustgen pre-pass %s skips %d variants silently (analysis only)" % (c.fn.short, len(c.catchall)))
    ck.setcount("rustgen_prepasses_with_catchall", len(pre))


def rule_names(ck, facts):
    R = "C18.names"
    ck.rule(R, "where the generator decides whether an emitted function name needs disambiguation, the collision test applies the same sanitiser that produces the emitted name (names are compared in the form in which they are emitted)")
    lang = facts.crate(roles.LANG)
    n = 0
    for f in lang.fns:
        if "::compiler::rustgen::" not in f.path or f.kind not in ("assoc", "fn"):
            continue
        cs = [(callee(t) or "") for _, t in f.calls()]
        san = [c for c in cs if "sanitize" in c.split("::")[-1]]
        counts = [c for c in cs if c.endswith("::count")]
        if not san or not counts:
            continue
        n += 1
        fam = [g for g in facts.family(roles.LANG, f.path) if g.kind == "closure"]
        clos_san = [g for g in fam if any((callee(t) or "") in san for _, t in g.calls())]
        if clos_san:
            ck.ok(R, "collision-test|%s" % f.short.split("::")[-1], {"fn": f.short, "sanitiser": san[0].split("::")[-1]})
        else:
            ck.bad(R, "collision-test|%s" % f.short.split("::")[-1], "%s counts name collisions without sanitising the candidates with %s: two labels that differ only in characters the sanitiser rewrites get the same Rust name and the generated program does not compile" % (f.short, san[0].split("::")[-1]), f.where())
    ck.floor(R, "name_collision_tests", n, 1)


def rule_state_borrow(ck, facts):
    """the generated program holds `&mut` of the state storage in a local named `state`; operand expressions may read
    `self.memory`"""
    from ..cfg import DefIndex, reachable
    from ..rules.chainwalk import taint
    from ..rules.invented import decode_template

    R = "C18.borrow"
    ck.rule(R, "in an arm of the Rust generator that writes `let state = self.get_current_statestorage();` into the generated program, no later formatted line that mentions `state.` interpolates an operand expression (the result of one of the generator's `*_expr` helpers, which can expand to a read of `self.memory`): rustc rejects the generated program (E0502, `self` borrowed mutably and immutably). Operands are bound to locals of the generated program first")
    lang = facts.crate(roles.LANG)
    em = None
    for f in lang.fns:
        if "::compiler::rustgen" not in f.path or f.kind == "promoted":
            continue
        cov = cover.coverage(facts, f, roles.MIR_INSTR)
        if not cov or cov.primary is None or len(cov.primary_handled()) < 40:
            continue
        # the emitter is the dispatch whose family writes lines
        lines = sum(1 for g in facts.family(roles.LANG, f.root) for _, t in g.calls() if (callee(t) or "").endswith("::line") and "CodeWriter" in (callee(t) or ""))
        if em is None or lines > em[2]:
            em = (f, cov, lines)
    ck.require(R, em is not None and em[2] > 0, "anchor|rust-emitter", "the Rust generator's dispatch on mir::Instruction was not found")
    if em is not None:
        em = em[:2]
    if em is None:
        return
    f, cov = em
    n = 0
    for v in sorted(cov.primary_handled()):
        tb = cov.arm_target(v)
        if tb is None:
            continue
        region = set(reachable(f, tb, stop=[cov.primary.block]))
        members = [(f, region, None)]
        # operand expressions computed in the arm (results of the generator's `*_expr` helpers) and what they flow into
        pseeds = [t[6][0] for b, t in f.calls() if b in region and t[6] is not None and (callee(t) or "").split("::")[-1].endswith("_expr") and "rustgen" in (callee(t) or "")]
        PT = set()
        for sd in pseeds:
            PT |= taint(f, [sd])
        for b in region:
            for st in f.stmts(b):
                if st[KIND] == "a" and st[5][0] == "agg" and st[5][1][0] == "closure":
                    g = facts.fn(st[5][1][1])
                    if g is not None:
                        caps = {i for i, o in enumerate(st[5][2]) if o[0] in ("cp", "mv") and o[1][0] in PT}
                        members.append((g, None, caps))
        # the helper results captured by the closures of the arm are parameters (upvars) there: seed by type String
        # in closures, by helper calls in the arm itself
        arm_has_state = False
        bad = None
        for g, reg, caps in members:
            consts = []
            for b, blk in enumerate(g.bb):
                if blk["c"] or (reg is not None and b not in reg):
                    continue
                for st in blk["s"]:
                    if st[KIND] == "a" and st[5][0] == "use" and st[5][1][0] == "c" and st[5][1][1] == "s":
                        consts.append(st[5][1][2])
                t = blk["t"]
                if t[KIND] == "call":
                    consts.extend(a[2] for a in t[5] if a[0] == "c" and a[1] == "s")
            # string literals usually sit in promoted constants of g
            for pf in lang.fns:
                if pf.kind == "promoted" and pf.path.startswith(g.path + "::promoted["):
                    for _, st in pf.all_stmts():
                        if st[KIND] == "a" and st[5][0] == "use" and st[5][1][0] == "c" and st[5][1][1] == "s":
                            consts.append(st[5][1][2])
            if not any("let state = self.get_current_statestorage();" in c for c in consts if isinstance(c, str)):
                continue
            arm_has_state = True
            di = DefIndex(g)
            seeds = []
            for b, t in g.calls():
                if reg is not None and b not in reg:
                    continue
                c = callee(t) or ""
                if c.split("::")[-1].endswith("_expr") and "rustgen" in c and t[6] is not None:
                    seeds.append(t[6][0])
            T = set()
            for sd in seeds:
                T |= taint(g, [sd])
            if caps:
                # captured operand expressions: locals read from the tainted fields of the closure environment (_1)
                for _, st in g.all_stmts():
                    if st[KIND] != "a" or st[5][0] not in ("use", "ref"):
                        continue
                    src = st[5][1] if st[5][0] == "ref" else (st[5][1][1] if st[5][1][0] in ("cp", "mv") else None)
                    if src and src[0] == 1:
                        idx = [e[1] for e in src[1] if isinstance(e, list) and e[0] == "f"]
                        if idx and idx[0] in caps:
                            T |= taint(g, [st[4][0]])
            for b, t in g.calls():
                if reg is not None and b not in reg:
                    continue
                c = callee(t) or ""
                if not (c.split("::")[-1] == "new" and "fmt::Arguments" in c and len(t[5]) >= 2):
                    continue
                rr = di.resolve(t[5][0])
                for _k in range(4):
                    if rr[0] == "rv" and rr[1][5][0] in ("ref", "raw"):
                        rr = di.resolve(["cp", [rr[1][5][1][0], []]])
                    else:
                        break
                tmpl = decode_template(rr[1][3]) if rr[0] == "const" and rr[1][1] == "o" else None
                if not tmpl or "state." not in tmpl:
                    continue
                a1 = t[5][1]
                tainted = a1[0] in ("cp", "mv") and a1[1][0] in T
                if tainted:
                    bad = (g, t, tmpl)
        if not arm_has_state:
            continue
        n += 1
        key = "arm|%s" % v
        if bad is None:
            ck.ok(R, key)
        else:
            g, t, tmpl = bad
            ck.bad(R, key, "the Rust generator's arm for %s writes `%s` with an operand expression interpolated while the generated program holds `state` (= &mut of the state storage): when the operand reads `self.memory` (e.g. a tuple element as the operand, `mem(t.0)`) rustc rejects the generated program with E0502" % (v, tmpl.replace("{}", "…")[:80]), g.where(t))
    ck.floor(R, "arms_borrowing_state", n, 4)


def generated_lines(facts, scope="::compiler::rustgen"):
    """(function, term, text) for every piece of generated source the Rust generator writes: the decoded template of a
    `format!` and the string constants handed to a call"""
    from ..rules.invented import decode_template

    out = []
    for f in facts.crate(roles.LANG).fns:
        if scope not in f.path or f.kind == "promoted" or "::test" in f.path:
            continue
        di = DefIndex(f)
        for b, t in f.calls():
            c = callee(t) or ""
            if c.split("::")[-1] == "new" and "fmt::Arguments" in c and t[5]:
                rr = di.resolve(t[5][0])
                for _k in range(4):
                    if rr[0] == "rv" and rr[1][5][0] in ("ref", "raw"):
                        rr = di.resolve(["cp", [rr[1][5][1][0], []]])
                    else:
                        break
                tmpl = decode_template(rr[1][3]) if rr[0] == "const" and rr[1][1] == "o" else None
                if tmpl:
                    out.append((f, t, tmpl))
            else:
                for a in t[5]:
                    rr = di.resolve(a) if a[0] in ("cp", "mv") else ("const", a)
                    for _k in range(3):
                        if rr[0] == "rv" and rr[1][5][0] in ("ref", "raw"):
                            rr = di.resolve(["cp", [rr[1][5][1][0], []]])
                        else:
                            break
                    if rr[0] == "const" and len(rr[1]) > 2 and rr[1][1] == "s" and isinstance(rr[1][2], str) and len(rr[1][2]) > 3:
                        out.append((f, t, rr[1][2]))
    return out


def rule_word_cursor(ck, facts):
    """generated code that reads its arguments from a flat word array advances by what it read"""
    import re

    R = "C18.borrow"
    lines = generated_lines(facts)
    ck.floor(R, "generated_line_templates", len(lines), 100)
    reads = {}
    for f, t, txt in lines:
        for m in re.finditer(r"\b([A-Za-z_][A-Za-z0-9_]*)\.\.\1 \+ \{\}", txt):
            reads.setdefault((f.root, m.group(1)), []).append((f, t, txt))
    n = 0
    for (root, var), rs in sorted(reads.items()):
        n += 1
        adv = [(f, t, txt) for f, t, txt in lines if f.root == root and re.search(r"\b%s \+= " % re.escape(var), txt)]
        key = "word-cursor|%s|%s" % (root.split("::")[-1], var)
        const_adv = [(f, t, txt) for f, t, txt in adv if not re.search(r"\b%s \+= \{\}" % re.escape(var), txt)]
        if not adv:
            ck.bad(R, key, "%s writes code that reads `%s..%s + <width>` from a flat word array but never advances `%s`" % (root.split("::", 1)[1], var, var, var), rs[0][0].where(rs[0][1]))
        elif const_adv:
            f, t, txt = const_adv[0]
            ck.bad(R, key, "%s writes code that reads `%s..%s + <width>` words per argument but advances the cursor with the fixed text `%s`: after a multi-word argument (a tuple, a record) the next argument is read from inside it — the transpiled program and the VM disagree for calls through a function value" % (root.split("::", 1)[1], var, var, txt.strip()[:40]), f.where(t))
        else:
            ck.ok(R, key, {"cursor": var, "reads": len(rs), "advances": len(adv)})
    ck.floor(R, "generated_word_cursors", n, 1)



def rule_word_advance(ck, facts):
    """a walker that rebuilds a typed value from flat words moves its cursor by the width of what it read"""
    R = "C18.abi"
    ck.rule(R, "in the generator, every function that is handed a type and a `&mut usize` word cursor advances the cursor, on every path on which it does not pass the cursor on, by exactly one word or by exactly the type's word size (linear form over `word_size()`, followed through casts and `saturating_sub`): a path that reads at the cursor and advances by less leaves the next field of an enclosing tuple / record to be read from inside this one")
    lang = facts.crate(roles.LANG)
    n = 0
    for f in lang.fns:
        if f.kind not in ("fn", "assoc") or "::compiler::rustgen" not in f.path:
            continue
        argc = f.d["argc"]
        offs = [i for i in range(1, argc + 1) if f.local_ty(i).replace(" ", "") in ("&mutusize", "&mutu64")]
        if len(offs) != 1 or not any("TypeNodeId" in f.local_ty(i) for i in range(1, argc + 1)):
            continue
        off = offs[0]
        di = DefIndex(f)

        def is_off(pl):
            return pl[0] == off and pl[1] == ["*"]

        def form(op, depth=0):
            """linear form (a, b) = a*word_size + b of an operand, or None"""
            if depth > 8:
                return None
            if op[0] == "c":
                from ..facts import const_int
                k = const_int(op)
                return (0, k) if k is not None else None
            r = di.resolve(op)
            if r[0] == "const":
                return form(r[1], depth + 1)
            if r[0] == "call":
                c = (callee(r[1]) or "")
                last = c.split("::")[-1]
                if last == "word_size":
                    return (1, 0)
                if last in ("saturating_sub", "wrapping_sub") and len(r[1][5]) == 2:
                    x, y = form(r[1][5][0], depth + 1), form(r[1][5][1], depth + 1)
                    if x and y and y[0] == 0:
                        return (x[0], x[1] - y[1])
                if last in ("from", "into", "try_from", "unwrap", "clone") and r[1][5]:
                    return form(r[1][5][0], depth + 1)
                return None
            if r[0] == "rv":
                rv = r[1][5]
                if rv[0] == "cast":
                    return form(rv[-1] if isinstance(rv[-1], list) and rv[-1] and rv[-1][0] in ("cp", "mv", "c") else rv[2], depth + 1)
                if rv[0] == "bin" and rv[1] in ("add", "add_ov", "sub", "sub_ov"):
                    x, y = form(rv[2], depth + 1), form(rv[3], depth + 1)
                    if x and y:
                        sg = 1 if rv[1].startswith("add") else -1
                        return (x[0] + sg * y[0], x[1] + sg * y[1])
                if rv[0] == "use":
                    return form(rv[1], depth + 1)
            if r[0] == "place" and r[1][1] and r[1][1][-1] != "*" and r[1][1][-1][0] == "f" and r[1][1][-1][1] == 0:
                # tmp.0 of a checked add
                return form(["cp", [r[1][0], []]], depth + 1)
            return None

        # forward data flow: block -> set of (a, b, delegated, read, unknown)
        IN = {0: {(0, 0, False, False, False)}}
        work = [0]
        rets = set()
        steps = 0
        while work and steps < 20000:
            steps += 1
            b = work.pop()
            states = set(IN[b])
            for st in f.stmts(b):
                if st[KIND] != "a":
                    continue
                rv = st[5]
                dst = st[4]
                new = set()
                for (a, k, dg, rd, un) in states:
                    if is_off(dst):
                        # (*off) = tmp.0 / (*off) = x
                        src = rv[1] if rv[0] == "use" else None
                        fm = form(src) if src is not None else None
                        # the value stored is `(*off) + X`: find X
                        X = None
                        if src is not None:
                            r = di.resolve(src if not (src[0] in ("cp", "mv") and src[1][1]) else ["cp", [src[1][0], []]])
                            if r[0] == "rv" and r[1][5][0] == "bin" and r[1][5][1] in ("add", "add_ov"):
                                o1, o2 = r[1][5][2], r[1][5][3]
                                if o1[0] in ("cp", "mv") and is_off(o1[1]):
                                    X = form(o2)
                                elif o2[0] in ("cp", "mv") and is_off(o2[1]):
                                    X = form(o1)
                        if X is None:
                            new.add((a, k, dg, rd, True))
                        else:
                            new.add((a + X[0], k + X[1], dg, rd, un))
                        continue
                    if rv[0] == "ref" and is_off(rv[1]):
                        if rv[2]:
                            new.add((a, k, True, rd, un))
                        else:
                            new.add((a, k, dg, True, un))
                        continue
                    if rv[0] == "use" and rv[1][0] in ("cp", "mv") and is_off(rv[1][1]):
                        new.add((a, k, dg, True, un))
                        continue
                    if rv[0] == "agg" and any(o[0] in ("cp", "mv") and o[1][0] == off and not o[1][1] for o in rv[2]):
                        new.add((a, k, True, rd, un))  # captured by a closure that goes on reading
                        continue
                    new.add((a, k, dg, rd, un))
                states = new
            t = f.term(b)
            if t[KIND] == "call":
                for arg in t[5]:
                    if arg[0] in ("cp", "mv") and arg[1][0] == off and not arg[1][1]:
                        states = {(a, k, True, rd, un) for (a, k, dg, rd, un) in states}
            if t[KIND] == "return":
                rets |= states
                continue
            if len(states) > 64:
                states = {(0, 0, False, False, True)}
            for s2 in f.succs(b):
                if f.is_cleanup(s2):
                    continue
                old = IN.get(s2, set())
                if not states <= old:
                    IN[s2] = old | states
                    if len(IN[s2]) > 64:
                        IN[s2] = {(0, 0, False, False, True)}
                    work.append(s2)
        if not any(a != 0 for (a, k, dg, rd, un) in rets):
            continue  # a cursor that never moves by a word size counts operands, not words
        n += 1
        name = f.short.split("::")[-1]
        bad = sorted((a, k, rd) for (a, k, dg, rd, un) in rets if not dg and not un and not ((a, k) in ((0, 1), (1, 0)) or ((a, k) == (0, 0) and not rd)))
        unk = [x for x in rets if x[4] and not x[2]]
        key = "word-advance|%s" % name
        if bad:
            a, k, rd = bad[0]
            ck.bad(R, key, "%s has a path on which it reads at the word cursor and leaves it advanced by %s instead of by the width of the type (1 word, or word_size): whatever follows this value in an enclosing tuple or record — the next field, the next argument — is then read from inside it, so the generated program compiles and computes with the wrong words" % (f.short, ("%d*word_size%+d" % (a, k)) if a else ("%d" % k)), f.where())
        else:
            ck.ok(R, key, {"walker": name, "advances": sorted({("%d*ws%+d" % (a, k)) for (a, k, dg, rd, un) in rets if not dg and not un}), "paths_passing_the_cursor_on": sum(1 for x in rets if x[2]), "unresolved": len(unk)})
    ck.floor(R, "word_cursor_walkers", n, 2)



def rule_verbatim(ck, facts):
    """text taken from the program is not edited after it was written into a generated line"""
    from ..facts import const_str, const_int

    R = "C18.verbatim"
    ck.rule(R, "the generator writes string literals of the program into the lines it generates (an arm of its dispatch formats the text of a `String` instruction into a line); a later `str::replace` over generated text with a fixed pattern (`?`, `memory.`) therefore also rewrites the inside of such a literal — the transpiled program then holds another string than the VM. Replacements whose pattern is handed in (template markers) are listed")
    lang = facts.crate(roles.LANG)
    n = 0
    literal_arm = False
    for f in lang.fns:
        if "::compiler::rustgen" not in f.path or f.kind == "promoted":
            continue
        cov = cover.coverage(facts, f, roles.MIR_INSTR)
        if cov is not None and cov.primary is not None and "String" in cov.primary_handled() and not cov.arm_diverges("String"):
            literal_arm = True
    for f in lang.fns:
        if "::compiler::rustgen" not in f.path or f.kind == "promoted" or "::test" in f.path:
            continue
        for b, t in f.calls():
            c = callee(t) or ""
            if c.split("::")[-1].split("<")[0] not in ("replace", "replacen") or "str" not in c or len(t[5]) < 2:
                continue
            n += 1
            pat = const_str(t[5][1])
            if pat is None and t[5][1][0] == "c" and t[5][1][1] == "i" and len(t[5][1]) > 3 and t[5][1][2] == "char":
                pat = chr(int(t[5][1][3]))
            owner = f.short.split("::")[-1]
            if pat is None:
                ck.ok(R, "replace|%s|<pattern handed in>" % owner, {"fn": owner})
                continue
            key = "replace|%s|%s" % (owner, pat)
            # the repaired form: the replacement runs in a closure that a scanner of the generator feeds with the parts of
            # the line outside string literals (the scanner compares characters with the quote and calls its argument)
            scanned = False
            if f.kind == "closure":
                for g in lang.fns:
                    if "::compiler::rustgen" not in g.path or g.kind not in ("fn", "assoc"):
                        continue
                    quote = any(st[KIND] == "a" and any(isinstance(o, list) and o and o[0] == "c" and len(o) > 3 and o[1] == "i" and o[2] == "char" and str(o[3]) == "34" for o in (st[5][2:4] if st[5][0] == "bin" else [])) for _, st in g.all_stmts()) or any(
                        t2[KIND] == "switch" and any(str(v) == "34" for v, _ in t2[6]) and "char" in str(t2[5]) for t2 in (g.term(b2) for b2 in range(g.nblocks())))
                    calls_param = any(callee(t2) is None or (callee(t2) or "").split("::")[-1] in ("call", "call_mut", "call_once") for _, t2 in g.calls())
                    handed = any((callee(t2) or "") == g.path for h in facts.family(roles.LANG, f.root) for _, t2 in h.calls())
                    if quote and calls_param and handed:
                        scanned = True
            if scanned:
                ck.ok(R, key, {"fn": owner, "pattern": pat, "applied_to": "text outside string literals"})
            elif literal_arm:
                ck.bad(R, key, "%s rewrites every occurrence of %r in generated text, including occurrences inside a string literal of the program that was written into that text: `\"what?\"` becomes `\"what.unwrap()\"` in the transpiled program" % (f.short, pat), f.where(t))
            else:
                ck.ok(R, key, {"fn": owner, "pattern": pat, "literals_in_generated_text": False})
    ck.floor(R, "text_replacements", n, 1)



def rule_truthiness(ck, facts):
    """the generated program decides a branch the way the VM does: through the template's `truthy`"""
    import re

    R = "C18.prims"
    lines = generated_lines(facts)
    n = 0
    for f, t, txt in lines:
        if not re.search(r"\bif\b", txt) or "{}" not in txt:
            continue
        inline = re.search(r"word_to_f64\(\{\}\)\s*(<=|>=|<|>|!=|==)\s*0(\.0)?\b", txt)
        uses = "truthy({})" in txt
        if not inline and not uses:
            continue
        n += 1
        owner = f.root.split("::")[-1]
        key = "truthiness|%s|%s" % (owner, "inline" if inline else "truthy")
        if inline:
            ck.bad(R, key, "%s writes a branch test that compares the condition word with 0.0 itself (`%s`) instead of calling the runtime's `truthy`: the two agree on ordered values only — on a NaN condition `x <= 0.0` is false and the generated program takes the other branch than the VM (`!(x > 0.0)`)" % (f.short, inline.group(0)), f.where(t))
        else:
            ck.ok(R, key)
    ck.floor(R, "generated_truthiness_tests", n, 2)
    # the template's own definition: strictly greater than zero, like the VM's JmpIfNeg / And / Or / Not
    if "mimium_rust_template" in facts.files:
        tf = [g for g in facts.crate("mimium_rust_template").fns if g.short.split("::")[-1] == "truthy" or (g.local_ty(0) == "bool" and g.d["argc"] == 1 and g.kind == "fn" and any(st[KIND] == "a" and st[5][0] == "bin" and st[5][1] in ("gt", "ge", "lt", "le", "ne", "eq") and any(o[0] == "c" and o[1] == "f" for o in st[5][2:4]) for _, st in g.all_stmts()) and len(g.bb) <= 4)]
        tf = [g for g in tf if g.short.split("::")[-1] == "truthy"] or tf[:1]
        for g in tf[:1]:
            ops = [st[5][1] for _, st in g.all_stmts() if st[KIND] == "a" and st[5][0] == "bin" and any(o[0] == "c" and o[1] == "f" for o in st[5][2:4])]
            if ops == ["gt"]:
                ck.ok(R, "truthiness|template", {"test": "word_to_f64(value) > 0.0"})
            else:
                ck.bad(R, "truthiness|template", "the runtime template's truthiness test is %s against a float constant; the VM branches on `value > 0.0` (NaN and 0.0 are false)" % (ops or "not a single comparison"), g.where())



def rule_null_guard(ck, facts):
    """the runtime template answers the null array handle before it looks the handle up"""
    from ..cfg import dominators

    R = "C18.prims"
    if "mimium_rust_template" not in facts.files:
        return
    n = 0
    for f in facts.crate("mimium_rust_template").fns:
        if not f.short.endswith("::call_ext") or f.kind != "assoc":
            continue
        di = DefIndex(f)
        dom = dominators(f)
        zero_tests = set()
        for d in range(f.nblocks()):
            t = f.term(d)
            if f.is_cleanup(d) or t[KIND] != "switch" or t[4][0] not in ("cp", "mv"):
                continue
            r = di.resolve(t[4])
            if r[0] == "rv" and r[1][5][0] == "bin" and r[1][5][1] in ("eq", "ne") and any(o[0] == "c" and o[1] == "i" and str(o[3]) == "0" for o in r[1][5][2:4]):
                zero_tests.add(d)
        for b, t in f.calls():
            c = callee(t) or ""
            if c.split("::")[-1] not in ("get", "get_mut") or "ArrayStorage" not in c:
                continue
            n += 1
            guarded = any(d in zero_tests for d in dom.get(b, ()))
            key = "null-guard|%s" % ("line-independent#%d" % n)
            if guarded:
                ck.ok(R, "null-guard|lookup")
            else:
                ck.bad(R, "null-guard|unguarded-lookup", "an arm of the runtime template's `call_ext` looks an array handle up without first answering the null handle (0, the value of array-typed state before its first assignment): the VM answers it (`len` of the null array is 0) while the generated program returns `invalid array handle 0` and aborts on the first sample", f.where(t))
    ck.floor(R, "template_array_lookups", n, 3)


def run(ck, facts, tier):
    rule_state_borrow(ck, facts)
    rule_word_cursor(ck, facts)
    rule_word_advance(ck, facts)
    rule_verbatim(ck, facts)
    rule_truthiness(ck, facts)
    rule_null_guard(ck, facts)
    if "mimium_rust_template" in facts.files:
        from ..rules import saverestore

        saverestore.run(ck, facts, "C18.prims", "mimium_rust_template", floor=1, why="the generated program finds a function's state cells through `current_function_state`; the VM's equivalent is the call frame")
    if "mimium_rust_template" in facts.files:
        from ..rules import nullanswer

        nullanswer.run(ck, facts, "C18.prims", "mimium_rust_template", "::call_ext")
    cg = CallGraph(facts, ["mimium_lang"])
    rule_cover(ck, facts, cg)
    ck.require("C18.prims", "mimium_rust_template" in facts.files, "anchor|template-facts", "the Rust runtime template did not compile stand-alone under the extractor (see template-build.log); its primitives cannot be compared")
    prims.rule_delay(ck, facts, "C18.prims", want=("vm", "rust"))
    prims.rule_array_index_rust(ck, facts, "C18.prims")
    rule_names(ck, facts)
    ck.not_decided("that every emitted source compiles with rustc and that its outputs equal the VM's (the operator text templates of the emitter are not decoded)")
