"""C03 — programs accepted by the type checker run without crashes or memory errors."""
from .. import roles
from ..callgraph import CallGraph
from ..cfg import can_reach_return, dominators, natural_loops, reachable
from ..facts import KIND, callee, place_fields
from ..rules import belief, cover, guards
from . import c01, c01_bounds, c03_unsafe

LEVEL = "other"
EXPLANATION = (
    "Static necessary conditions for crash-freedom of accepted programs: (belief) every explicit abort on the compile+run "
    "path by which the code states that an input class is unhandled (todo!/unimplemented!, or unreachable!/panic!/expect "
    "delegating to an earlier stage) is in a dead match arm, behind a pass that eliminates the form, or audited; (dispatch) "
    "every path of the VM dispatch loop from an arm back to the loop header advances the program counter or returns; "
    "(cover, bounds) shared with C01: no producible instruction without a handler, no unchecked operand narrowing; "
    "(unsafe) every raw memory access of the VM is either dominated by a check or listed as an obligation discharged by "
    "C05's layout argument. Implicit panics (index/overflow) are censused, not decided; termination of user programs is not decided."
)


def compile_run_roots(cg):
    roots = []
    for p, f in cg.fns.items():
        if f.kind != "assoc" and f.kind != "fn":
            continue
        s = f.short
        if s.startswith("compiler::Context::emit_") and f.d["vis"] == "pub":
            roots.append(p)
        if s in ("runtime::vm::Machine::execute_main", "runtime::vm::Machine::execute_idx", "runtime::vm::Machine::execute_entry", "runtime::vm::Machine::new", "runtime::vm::Machine::new_resume", "runtime::vm::Machine::link_functions"):
            roots.append(p)
        if s.startswith("runtime::wasm::engine::") and f.d["vis"] == "pub" and ("run" in s.rsplit("::", 1)[1] or "load" in s.rsplit("::", 1)[1] or "execute" in s.rsplit("::", 1)[1]):
            roots.append(p)
    return sorted(set(roots))


def rule_dispatch(ck, facts):
    R = "C03.dispatch"
    ck.rule(R, "in the VM dispatch loop every cycle through the instruction fetch passes through the assignment that advances the program counter (or leaves the loop)")
    vd = roles.vm_dispatch(facts)
    ck.require(R, vd is not None, "anchor|vm-dispatch", "VM dispatch loop not found")
    if vd is None:
        return
    fn = vd.fn
    sw = vd.primary.block
    # the loop that contains the primary switch
    loops = [l for l in natural_loops(fn) if sw in l[1]]
    ck.require(R, bool(loops), "anchor|dispatch-loop", "the switch on bytecode::Instruction is not inside a loop")
    if not loops:
        return
    header, body = min(loops, key=lambda l: len(l[1]))
    # the pc: the local indexing the bytecode vector at the fetch; find locals assigned in the loop whose value is read
    # by the fetch (Index call argument) — role: "assigned in loop body, used as index into bytecodes before the switch"
    fetch_locals = set()
    for b in reachable(fn, header, stop=[sw]):
        t = fn.term(b)
        if t[KIND] == "call" and (callee(t) or "").endswith("::index"):
            for a in t[5]:
                if a[0] in ("cp", "mv") and not a[1][1]:
                    fetch_locals.add(a[1][0])
        for s in fn.stmts(b):
            if s[KIND] == "a" and s[5][0] == "use" and s[5][1][0] in ("cp", "mv") and not s[5][1][1][1] and s[4][0] in fetch_locals:
                fetch_locals.add(s[5][1][1][0])
    # expand through copies inside the fetch blocks
    changed = True
    while changed:
        changed = False
        for b in reachable(fn, header, stop=[sw]):
            for s in fn.stmts(b):
                if s[KIND] == "a" and not s[4][1] and s[4][0] in fetch_locals and s[5][0] == "use" and s[5][1][0] in ("cp", "mv") and not s[5][1][1][1]:
                    if s[5][1][1][0] not in fetch_locals:
                        fetch_locals.add(s[5][1][1][0])
                        changed = True
    pc_blocks = set()
    pc_local = None
    for b in body:
        for s in fn.stmts(b):
            if s[KIND] == "a" and not s[4][1] and s[4][0] in fetch_locals and b not in reachable(fn, header, stop=[sw]) | {header}:
                pc_blocks.add(b)
                pc_local = s[4][0]
    names = fn.dbg_names()
    ck.require(R, bool(pc_blocks), "anchor|pc-advance", "no assignment to the fetch index inside the dispatch loop found")
    if not pc_blocks:
        return
    ck.note("dispatch loop header bb%d, pc local _%s (%s), advanced in blocks %s" % (header, pc_local, names.get(pc_local), sorted(pc_blocks)))
    # for every arm: is there a path from the arm target back to the header avoiding all pc-advance blocks?
    n = 0
    for v in vd.names:
        tb = vd.arm_target(v)
        if tb is None:
            continue
        n += 1
        seen = reachable(fn, tb, avoid=pc_blocks, stop=[header])
        if header in seen and tb not in pc_blocks:
            # find the back edge used
            culprit = [b for b in seen if header in fn.succs(b)]
            where = fn.where(fn.term(culprit[0])) if culprit else fn.where()
            ck.bad(R, "arm|%s" % v, "dispatch arm %s can return to the instruction fetch without advancing the program counter (the VM would re-execute the same instruction forever)" % v, where)
        else:
            ck.ok(R, "arm|%s" % v, {"arm": v, "target_block": tb})
    ck.floor(R, "dispatch_arms_checked", n, 60)


TRAPPING = ("I32TruncF32S", "I32TruncF32U", "I32TruncF64S", "I32TruncF64U", "I64TruncF32S", "I64TruncF32U", "I64TruncF64S", "I64TruncF64U",
            "I32DivS", "I32DivU", "I32RemS", "I32RemU", "I64DivS", "I64DivU", "I64RemS", "I64RemU", "Unreachable")


def rule_traps(ck, facts):
    """value-dependent trapping instructions emitted by the wasm generator: a trap aborts dsp where the VM computes a value"""
    R = "C03.traps"
    ck.rule(R, "the WASM generator emits no instruction that traps depending on run-time values (non-saturating float->int truncation, integer division/remainder, unreachable) except in arms for MIR variants that are never constructed")
    lang = facts.crate(roles.LANG)
    producers = roles.non_derived(facts)
    prod = set(cover.constructed_variants(producers, roles.MIR_INSTR))
    n = 0
    total = 0
    for fn in lang.fns:
        if "::compiler::wasmgen" not in fn.path or roles.is_derived(fn):
            continue
        # promoted constants hold unit-like instruction values (&W::I64DivS); attribute them to the user of the promoted
        sites = []
        for b, blk in enumerate(fn.bb):
            if blk["c"]:
                continue
            for s in blk["s"]:
                if s[KIND] == "a" and s[5][0] == "agg" and s[5][1][0] == "adt" and "wasm_encoder" in s[5][1][1] and s[5][1][1].endswith("Instruction"):
                    total += 1
                    if s[5][1][3] in TRAPPING:
                        sites.append((b, s, s[5][1][3]))
        if not sites:
            continue
        if fn.kind == "promoted":
            parent = facts.fn(fn.path.rsplit("::", 1)[0])
            idx = int(fn.path.rsplit("[", 1)[1].rstrip("]"))
            users = []
            if parent is not None:
                for b, blk in enumerate(parent.bb):
                    if blk["c"]:
                        continue
                    for st in blk["s"]:
                        if st[KIND] == "a" and st[5][0] == "use" and st[5][1][0] == "c" and st[5][1][1] == "p" and st[5][1][3] == idx:
                            users.append((parent, b, st))
            targets = [(parent, b, st, sites[0][2]) for parent, b, st in users]
        else:
            targets = [(fn, b, s, name) for b, s, name in sites]
        for f, b, st, name in targets:
            n += 1
            cov = cover.coverage(facts, f, roles.MIR_INSTR)
            vs = belief.arm_variants_of_block(cov, b) if cov and len(cov.primary_handled()) > 1 else None
            if vs and all(v not in prod for v in vs):
                ck.ok(R, "trap|%s|%s|dead-arm" % (f.short, name), {"instruction": name, "fn": f.short, "arm": vs[:4], "at": f.where(st)})
            else:
                ck.bad(R, "trap|%s|%s|%s" % (_trap_owner(facts, f), name, "+".join(vs[:3]) if vs else "common"), "the WASM generator emits the trapping instruction %s in %s%s: for some run-time values dsp aborts with a wasm trap where the VM computes a value" % (name, f.short, (" (arm %s)" % ",".join(vs[:3])) if vs else ""), f.where(st))
    ck.floor(R, "wasm_instruction_constructions_scanned", total, 300)
    ck.setcount("trapping_instruction_sites", n)


def rule_limits(ck, facts):
    """size limits on type-level tuples/records that the type checker enforces must be the ones the MIR generator
    relies on: a comparison of a `len()` of a list of types with a small constant defines a boundary (largest size
    on the accepting side); boundaries that differ by one between the two modules are an off-by-one between
    'accepted' and 'handled'."""
    R = "C03.limits"
    ck.rule(R, "every comparison of the length of a list of types with a small constant in the type checker and in the MIR generator defines a boundary; boundaries of the two modules that are within 1 of each other must be equal")
    from ..cfg import DefIndex
    from ..facts import const_int, callee_full

    lang = facts.crate(roles.LANG)
    gates = []
    for f in lang.fns:
        mod = "typing" if "::compiler::typing" in f.path else "mirgen" if "::compiler::mirgen::Context" in f.path or f.short.startswith("compiler::mirgen::") and "::convert_" not in f.path and "::recursecheck" not in f.path and "::pattern_destructor" not in f.path else None
        if mod is None or f.kind == "promoted":
            continue
        di = None
        for b, s in f.all_stmts():
            if s[KIND] != "a" or s[5][0] != "bin" or s[5][1] not in ("gt", "ge", "lt", "le") or s[5][4] != "usize":
                continue
            a, c = s[5][2], s[5][3]
            op = s[5][1]
            k = const_int(c)
            x = a
            if k is None:
                k = const_int(a)
                x = c
                op = {"gt": "lt", "lt": "gt", "ge": "le", "le": "ge"}[op]
            if k is None or not (2 <= k <= 4096):
                continue
            di = di or DefIndex(f)
            r = di.resolve(x)
            is_len = False
            if r[0] == "call":
                cn = callee(r[1]) or ""
                full = callee_full(r[1]) or ""
                is_len = cn.endswith("::len") and any(t in full for t in ("TypeNodeId", "RecordTypeField"))
            if not is_len and x[0] in ("cp", "mv") and not x[1][1]:
                # a local named like a length (`tuple_len`, `arity`), possibly through one copy
                names = f.dbg_names()
                l = x[1][0]
                d = di.single_def(l)
                cand = [l] + ([d[2][5][1][1][0]] if d and d[1] is not None and d[2][5][0] == "use" and d[2][5][1][0] in ("cp", "mv") and not d[2][5][1][1][1] else [])
                is_len = any(any(w in names.get(c, "") for w in ("len", "arity")) for c in cand)
            if not is_len:
                continue
            boundary = k if op in ("gt", "le") else k - 1
            gates.append((mod, f, boundary, f.where(s), "%s %d" % (op, k)))
    ck.floor(R, "type_size_gates", len(gates), 4)
    ty = [g for g in gates if g[0] == "typing"]
    mg = [g for g in gates if g[0] == "mirgen"]
    reported = set()
    for m in mg:
        near = [t for t in ty if abs(t[2] - m[2]) <= 1]
        if not near:
            continue
        root = m[1].root.split("::", 1)[1]
        if all(t[2] == m[2] for t in near):
            ck.ok(R, "gate|%s|%d" % (root, m[2]), {"mirgen": "%s (%s)" % (root, m[4]), "typing": sorted({"%s" % t[4] for t in near})})
        else:
            t = [t for t in near if t[2] != m[2]][0]
            key = "gate|%s" % root
            if key in reported:
                continue
            reported.add(key)
            ck.bad(R, key, "%s handles lists of types up to length %d (`len %s`) while the type checker (%s, `len %s`) accepts up to %d: a program at the boundary is accepted by the type checker and then not handled by the generator" % (m[1].short, m[2], m[4], t[1].short.split("::")[-1], t[4], t[2]), m[3])


def _w_seq(facts, f):
    """the straight-line sequence of wasm instructions a generator helper emits: [(variant, operand exprs, term)]"""
    from ..symex import PathLimit, SymEx
    sx = SymEx(f, max_paths=4, facts=facts)
    try:
        paths = [p for p in sx.run(0) if p.end == "return"]
    except PathLimit:
        return None
    if len(paths) != 1:
        return None
    seq = []
    for e in paths[0].events:
        if e[0] == "call" and e[1].endswith("Function::instruction") and len(e[2]) >= 2:
            x = e[2][1]
            while isinstance(x, tuple) and x and x[0] in ("ref", "deref"):
                x = x[1]
            if not (x[0] == "agg" and "Instruction::" in x[1]):
                return None
            seq.append((x[1].rsplit("::", 1)[1], x[2], e[3]))
    return seq


def _ev(e, env):
    """evaluate a template expression over u32 with the leaves bound in env"""
    M = 0xFFFFFFFF
    k = e[0]
    if k == "k":
        return e[1] & M
    if k == "leaf":
        return env[e[1]] & M
    a, b = _ev(e[2], env), _ev(e[3], env)
    op = e[1]
    if op == "add":
        return (a + b) & M
    if op == "sub":
        return (a - b) & M
    if op == "shl":
        return (a << (b & 31)) & M
    if op == "shr_u":
        return a >> (b & 31)
    if op == "gt_u":
        return int(a > b)
    if op == "eq":
        return int(a == b)
    raise ValueError(op)


def _trap_owner(facts, f):
    from .c03_unsafe import _owner

    return _owner(facts, f)


def rule_alloc_grow(ck, facts):
    R = "C03.alloc-grow"
    ck.rule(R, "the run-time bump allocator emitted by the WASM generator grows the linear memory by at least the missing bytes before it commits the new allocation pointer: with end = pointer + size, the argument of memory.grow evaluated on the emitted instruction template satisfies pages * 65536 >= end - memory_bytes at the page boundaries, the growth is guarded by end > memory_bytes, a failed growth traps, and the committed pointer is end")
    lang = facts.crate(roles.LANG)
    # the run-time allocator template by role: the function of the WASM generator that emits `memory.grow` (the
    # instruction constant may live in a promoted body of that function)
    roots = {g.root for g in lang.fns if "::compiler::wasmgen" in g.path and any(s2[KIND] == "a" and s2[5][0] == "agg" and s2[5][1][0] == "adt" and "wasm_encoder" in s2[5][1][1] and s2[5][1][3] == "MemoryGrow" for _, s2 in g.all_stmts())}
    fs = [f for f in lang.fns if f.path in roots]
    ck.require(R, len(fs) == 1, "anchor|emit_runtime_alloc", "WasmGenerator::emit_runtime_alloc not found")
    if len(fs) != 1:
        return
    f = fs[0]
    seq = _w_seq(facts, f)
    if not seq:
        ck.bad(R, "unanalysable|emit_runtime_alloc", "the instruction template of %s is no longer a single straight-line sequence" % f.short, f.where())
        return
    BIN = {"I32Add": "add", "I32Sub": "sub", "I32Shl": "shl", "I32ShrU": "shr_u", "I32GtU": "gt_u", "I32Eq": "eq"}
    stack, locs, globs, ctl = [], {}, {}, []
    grow = None
    trap_conds = []
    commit = None
    try:
        for name, ops, t in seq:
            if name == "I32Const":
                o = ops[0]
                stack.append(("k", o[1]) if o[0] == "k" else ("leaf", "size"))
            elif name == "LocalGet":
                stack.append(locs.get(repr(ops[0]), ("leaf", "local?")))
            elif name == "LocalSet":
                locs[repr(ops[0])] = stack.pop()
            elif name == "LocalTee":
                locs[repr(ops[0])] = stack[-1]
            elif name == "GlobalGet":
                stack.append(globs.get(repr(ops[0]), ("leaf", "ptr")))
            elif name == "GlobalSet":
                globs[repr(ops[0])] = stack.pop()
                commit = (globs[repr(ops[0])], list(ctl))
            elif name == "MemorySize":
                stack.append(("leaf", "pages"))
            elif name in BIN:
                b = stack.pop()
                a = stack.pop()
                stack.append(("bin", BIN[name], a, b))
            elif name == "If":
                ctl.append(stack.pop())
            elif name == "End":
                ctl.pop()
            elif name == "MemoryGrow":
                grow = (stack.pop(), list(ctl), t)
                stack.append(("leaf", "grow_result"))
            elif name == "Unreachable":
                trap_conds.append(list(ctl))
            else:
                raise ValueError("instruction %s" % name)
    except (IndexError, ValueError) as e:
        ck.bad(R, "unanalysable|emit_runtime_alloc", "cannot interpret the allocator template: %s" % e, f.where())
        return
    ck.require(R, grow is not None, "grow|present", "emit_runtime_alloc no longer grows the memory", f.where())
    if grow is None:
        return
    garg, gctl, gt = grow
    ok = True
    bad_case = None
    for pages in (1, 65, 1000):
        for deficit in (1, 2, 65535, 65536, 65537, 131071, 131072, 1 << 20):
            for size in (8, 4096):
                end = pages * 65536 + deficit
                env = {"pages": pages, "size": size, "ptr": end - size}
                try:
                    guard = all(_ev(c, env) for c in gctl)
                    g = _ev(garg, env)
                except (KeyError, ValueError) as e:
                    ck.bad(R, "unanalysable|grow-arg", "memory.grow argument uses %s" % e, f.where(gt))
                    return
                if not guard or g * 65536 < deficit:
                    ok = False
                    bad_case = bad_case or (pages, deficit, g, guard)
    if ok:
        ck.ok(R, "grow|covers-deficit", {"cases": 48})
    else:
        ck.bad(R, "grow|covers-deficit", "%s: with %d pages of memory and an allocation ending %d bytes past it the template %s: the allocation pointer is then committed beyond the end of the linear memory and the next store traps (out-of-bounds memory access inside dsp)" % (f.short, bad_case[0], bad_case[1], ("grows by only %d page(s)" % bad_case[2]) if bad_case[3] else "does not grow at all"), f.where(gt))
    traps_on_fail = any(any(c[0] == "bin" and c[1] == "eq" and ("leaf", "grow_result") in (c[2], c[3]) for c in tc) for tc in trap_conds)
    ck.require(R, traps_on_fail, "grow|failure-traps", "a failed memory.grow (-1) is no longer turned into a trap before the pointer is committed", f.where())
    ck.require(R, commit is not None and not commit[1] and commit[0] == ("bin", "add", ("leaf", "ptr"), ("leaf", "size")), "commit|end", "the committed allocation pointer is not pointer + size on every path", f.where())


def rule_value_aborts(ck, facts):
    """run-time primitives (builtin machine functions, WASM host functions) that abort depending on argument *values*"""
    from ..rules import panics
    from ..rules.guards import Terms
    R = "C03.value-aborts"
    ck.rule(R, "a run-time primitive (VM builtin machine function, WASM host function) does not abort depending on the values it is given: a panic!/assert! in such a function is either in the default arm of a dispatch on a type tag (unreachable for type-checked programs) or reported; a panic guarded by a length / emptiness / parse-result test is a crash of an accepted program for some input")
    lang = facts.crate(roles.LANG)
    n = 0
    for f in lang.fns:
        if f.kind == "promoted" or "::test" in f.path:
            continue
        if not ("::plugin::builtin_functins::" in f.path or "runtime::wasm" in f.path):
            continue
        sites = [x for x in panics.sites_in(f) if x.cls in ("panic", "assert") and x.macro not in ("debug_assert", "debug_assert_eq", "debug_assert_ne")]
        if not sites:
            continue
        T = Terms(f)
        dom = dominators(f)
        for site in sites:
            blk = None
            for b, t in f.calls():
                if t is site.term:
                    blk = b
            if blk is None:
                continue
            n += 1
            # nearest dominating branches and what they test.  Value-dependent = the tested quantity is the length
            # of a heap object fetched from run-time storage (not of the argument list), or the outcome of indexing /
            # parsing a run-time string
            ds = sorted((d for d in dom.get(blk, ()) if d != blk and f.term(d)[KIND] == "switch"), key=lambda d: -len(dom[d]))
            kind = "invariant"
            argc = f.d.get("argc", 0)

            def heap_len(c, depth=0):
                if not isinstance(c, tuple) or depth > 12:
                    return False
                if c and c[0] in ("len", "call_is_empty"):
                    x = c[1]
                    if not (isinstance(x, tuple) and x and x[0] == "loc" and 1 <= x[1] <= argc):
                        return True
                if c and c[0] == "call" and len(c) > 2 and c[2] in ("get_length_array",):
                    return True
                return any(heap_len(y, depth + 1) for y in c if isinstance(y, tuple))

            for d in ds[:3]:
                op = f.term(d)[4]
                if op[0] not in ("cp", "mv"):
                    continue
                c = T.op(op)
                if heap_len(c):
                    kind = "length of a run-time object"
                    break
                r = T.di.resolve(op)
                if r[0] == "rv" and r[1][5][0] == "disc" and (r[1][5][2].startswith("std::option::Option") or r[1][5][2].startswith("std::result::Result")):
                    src = T.di.resolve(["cp", [r[1][5][1][0], []]])
                    if src[0] == "call" and (callee(src[1]) or "").split("::")[-1] in ("nth", "parse", "from_str", "char_indices", "find"):
                        kind = "string index / parse result"
                        break
            root = f.root.split("::", 1)[1]
            slug = panics.norm_snip(site.snippet)[:50]
            key = "abort|%s|%s|%s" % (root, kind, slug)
            if kind == "invariant":
                ck.ok(R, "site|%s|%s" % (root, slug))
            else:
                ck.bad(R, key, "%s aborts the process (%s: `%s`) under a %s test of its run-time arguments: a type-checked program that passes such a value crashes the audio process instead of getting a value or a diagnostic" % (f.short, site.macro, slug, kind), site.where())
    ck.floor(R, "abort_sites_in_runtime_primitives", n, 40)


def load_admission():
    import os
    import tomllib
    p = os.path.join(os.path.dirname(os.path.dirname(os.path.abspath(__file__))), "tables", "admission.toml")
    with open(p, "rb") as f:
        return [(g["error"], g["predicate"], g["why"]) for g in tomllib.load(f).get("guard", [])]


def rule_admission(ck, facts):
    from ..cfg import DefIndex
    R = "C03.admission"
    ck.rule(R, "each type-checker diagnostic that keeps unsafe programs out is raised under the deep type predicate its safety argument needs: the construction of the error is control-dependent on a call of that predicate (nearest dominating branches)")
    lang = facts.crate(roles.LANG)
    table = load_admission()
    ck.floor(R, "admission_guards", len(table), 2)
    for variant, pred, why in table:
        sites = []
        for f in lang.fns:
            if "::compiler::typing" not in f.path or f.kind == "promoted" or roles.is_derived(f):
                continue
            for b, st in f.all_stmts():
                if st[KIND] == "a" and st[5][0] == "agg" and st[5][1][0] == "adt" and st[5][1][3] == variant and st[5][1][1].endswith("::Error"):
                    sites.append((f, b, st))
        ck.require(R, len(sites) >= 1, "anchor|%s" % variant, "the type checker no longer raises %s anywhere: programs it kept out are now accepted (%s)" % (variant, why))
        for f, b, st in sites:
            dom = dominators(f)
            di = DefIndex(f)
            ds = sorted((d for d in dom.get(b, ()) if d != b and f.term(d)[KIND] == "switch"), key=lambda d: -len(dom[d]))
            preds = []
            for d in ds[:4]:
                op = f.term(d)[4]
                r = di.resolve(op) if op[0] in ("cp", "mv") else ("const", op)
                if r[0] == "call":
                    preds.append(callee(r[1]) or "?")
                elif r[0] == "rv" and r[1][5][0] == "disc":
                    preds.append("match")
            key = "guard|%s|%s" % (variant, f.short.split("::")[-1])
            if any(p.endswith(pred) for p in preds) or (pred == "match" and "match" in preds):
                ck.ok(R, key, {"error": variant, "controlled_by": pred})
            else:
                ck.bad(R, key, "%s raises %s under %s instead of %s: %s" % (f.short, variant, [p.split("::")[-1] for p in preds if p != "match"] or "no predicate", pred.split("::")[-1], why), f.where(st))



def rule_clamped_slice(ck, facts):
    """clamping an index into `0..=len-1` only helps when there is an element"""
    from ..cfg import DefIndex, dominators

    R = "C03.value-aborts"
    lang = facts.crate(roles.LANG)
    n = 0
    for f in lang.fns:
        if "::runtime::wasm" not in f.path or f.kind == "promoted" or "::test" in f.path:
            continue
        names = [(callee(t) or "").split("::")[-1] for _, t in f.calls()]
        if "clamp" not in names:
            continue
        di = DefIndex(f)
        dom = dominators(f)
        for b, t in f.calls():
            c = callee(t) or ""
            full = str(t[4].get("full") or "")
            if c.split("::")[-1] not in ("index", "index_mut") or "Range" not in (full + c):
                continue
            n += 1
            guarded = False
            for d in dom[b]:
                tt = f.term(d)
                if tt[KIND] != "switch" or tt[4][0] not in ("cp", "mv"):
                    continue
                r = di.resolve(tt[4])
                if r[0] == "rv" and r[1][5][0] == "bin" and r[1][5][1] in ("eq", "ne", "gt", "lt") and any(o[0] == "c" and o[1] == "i" and str(o[3]) == "0" for o in r[1][5][2:4]):
                    # the value compared with 0 is a length (not the handle)
                    for o in r[1][5][2:4]:
                        x = o
                        for _ in range(5):
                            if x[0] not in ("cp", "mv"):
                                break
                            rr = di.resolve(x)
                            if rr[0] == "call" and (callee(rr[1]) or "").split("::")[-1] in ("len", "get_length_array", "get_length", "length"):
                                guarded = True
                                break
                            if rr[0] == "rv" and rr[1][5][0] == "cast":
                                x = rr[1][5][2]
                                continue
                            if rr[0] == "rv" and rr[1][5][0] == "bin" and rr[1][5][1] in ("div", "mul"):
                                x = rr[1][5][2]
                                continue
                            break
                if r[0] == "call" and (callee(r[1]) or "").split("::")[-1] == "is_empty":
                    guarded = True
            key = "clamped-slice|%s" % f.short.split("::")[-1]
            if guarded:
                ck.ok(R, key)
            else:
                ck.bad(R, key, "%s brings an index into range with `clamp(0, len - 1)` and then slices the storage without having excluded the empty array: for a length of 0 the clamped index is 0 and the slice `[0..width]` of an empty vector panics inside the host call (an array that became empty at run time, the empty literal)" % f.short, f.where(t))
    ck.floor(R, "clamped_slices_in_host_functions", n, 2)


def run(ck, facts, tier):
    rule_clamped_slice(ck, facts)
    # an index the VM does not bring into range before it slices the array is a crash, not only a VM / WASM difference
    from . import prims as _prims

    _prims.rule_array_index(ck, facts, "C01.prims")
    from ..rules import scratchlocal as _sl

    _cov = roles.wasm_lowering(facts)
    if _cov is not None:
        _sl.run(ck, facts, "C05.scratch", roles.LANG, _cov)
    cg = CallGraph(facts, ["mimium_lang", "state_tree", "mimium_scheduler", "mimium_audiodriver"])
    R = "C03.belief"
    ck.rule(R, belief.__doc__.split("\n\n")[1].replace("\n", " "))
    roots = compile_run_roots(cg)
    ck.floor(R, "entry_points", len(roots), 6)
    ck.note("entry points: " + ", ".join(r.split("::", 1)[1] for r in roots))
    belief.run(ck, R, facts, cg, roots, "compile+run")
    rule_dispatch(ck, facts)
    anchors = c01.rule_cover(ck, facts, cg)
    if anchors:
        c01_bounds.run(ck, facts, cg, anchors, tier, "C01", literal=False)
    rule_traps(ck, facts)
    rule_limits(ck, facts)
    rule_admission(ck, facts)
    rule_alloc_grow(ck, facts)
    rule_value_aborts(ck, facts)
    from . import prims

    prims.rule_unit_merge(ck, facts, "C01.unit-merge")
    # the unchecked state accesses of the VM are safe only if the published layout is complete and the cursor
    # accounting is path-independent: the layout rules of C05 are part of this property's argument
    from . import c05, c12

    c05.rule_no_dropped_states(ck, facts)
    c05.rule_branch_accounting(ck, facts)
    c05.rule_cursor(ck, facts)
    c12.rule_predicate_recursion(ck, facts)
    c12.rule_release_order(ck, facts)
    c12.rule_vm_walker_offsets(ck, facts)  # a walker that skips an element releases a live box: use after free
    rule_type_substitution(ck, facts)
    guards.run(ck, facts, "C03.guarded-index", ["mimium_lang", "state_tree", "mimium_scheduler", "mimium_audiodriver"])
    from ..rules import errdrop, rewrite

    rewrite.run(ck, facts, "C04.rewrite-complete", belief.rewriting_passes(), eliminated_variants=belief.eliminated_variant_names())

    errdrop.run(ck, facts, "C03.error-drop")
    c03_unsafe.run(ck, facts, cg, tier)
    ck.not_decided("absence of index/overflow/division panics (compiler-inserted asserts are counted in the evidence only)")
    ck.not_decided("termination of user programs; 'dsp yields exactly the declared number of words' (run-time stack discipline)")


def rule_type_substitution(ck, facts):
    """monomorphisation rewrites the types carried by the instructions of the copy it specialises"""
    R = "C03.type-substitution"
    ck.rule(R, "the function that substitutes concrete types into the instructions of a specialised (monomorphised) copy has an explicit arm for every mir::Instruction variant whose payload carries a type (a TypeNodeId field, directly or in a list of typed operands): a variant that falls into the catch-all keeps the generic type, whose word size counts each type variable as one word — the specialised function then moves / returns fewer words than its callers expect (`invalid number of return value` panic on the VM)")
    lang = facts.crate(roles.LANG)
    cands = []
    for f in lang.fns:
        if "::compiler::mirgen" not in f.path or f.kind == "promoted" or "::test" in f.path:
            continue
        # role: a function over `&mut Instruction` that is handed substitution closures (dyn Fn(TypeNodeId) -> TypeNodeId)
        argc = f.d["argc"]
        tys = [f.local_ty(i) for i in range(1, argc + 1)]
        if any("mir::Instruction" in t and t.startswith("&mut") for t in tys) and any("Fn(" in t and "TypeNodeId" in t for t in tys):
            cov = cover.coverage(facts, f, roles.MIR_INSTR)
            if cov and cov.primary is not None:
                cands.append((f, cov))
    ck.require(R, len(cands) == 1, "anchor|substitution", "expected one instruction-level type substitution function in the MIR generator, found %d" % len(cands))
    if len(cands) != 1:
        return
    f, cov = cands[0]
    adt = facts.adt(roles.MIR_INSTR)
    typed = {v["n"] for v in adt["variants"] if any("TypeNodeId" in fld[1] for fld in v["f"])}
    ck.floor(R, "typed_instruction_variants", len(typed), 15)
    handled = cov.primary_handled()
    prod = None
    for v in sorted(typed):
        key = "arm|%s" % v
        if v in handled:
            ck.ok(R, key)
            continue
        if prod is None:
            prod = set(cover.constructed_variants([g for g in roles.non_derived(facts) if g.path != f.path], roles.MIR_INSTR))
        if v not in prod:
            ck.ok(R, key, {"variant": v, "discharge": "never constructed"})
            continue
        ck.bad(R, key, "%s has no arm for Instruction::%s, which carries a type: the monomorphised copy of a generic function keeps the generic type there — `fn dup(x:a)->(a,a)` called as `dup((1.0,2.0))` returns 2 words where the call site expects 4" % (f.short, v), f.where())
