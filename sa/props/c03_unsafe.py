"""C03.unsafe — raw memory accesses of the VM.

(a) inventory: every unchecked access (get_unchecked*, from_raw_parts*, pointer add/offset, unwrap_unchecked,
    reference/slice transmutes) in runtime::vm* is keyed `owner type (or module)|kind|count`; each key must be audited (the safety
    of most of them rests on C05's layout argument and cannot be discharged locally).  A new raw access, or a changed
    count, is reported.
(b) the ring buffer's unchecked indices are discharged mechanically: both indices are `… % len` of the indexed
    slice's own length and the zero-length case returns before the access."""
from .. import roles
from ..facts import KIND, callee
from ..symex import PathLimit, SymEx, show

RAW = ("get_unchecked", "get_unchecked_mut", "from_raw_parts", "from_raw_parts_mut", "slice_from_raw_parts", "slice_from_raw_parts_mut", "unwrap_unchecked", "offset", "add", "sub", "copy_nonoverlapping", "read", "write")


def _owner(facts, f):
    """the type whose method (or, for a free function, the module in which) the access is made: keys must survive the
    rename of a private method"""
    r = facts.fn(f.root) or f
    st = (r.d.get("self_ty") or "").strip()
    if st:
        return st.replace("mimium_lang::", "")
    return r.short.rsplit("::", 1)[0]


def raw_sites(facts):
    out = {}
    for f in facts.crate(roles.LANG).fns:
        if "::runtime::vm" not in f.path or f.kind == "promoted" or "::test" in f.path:
            continue
        root = _owner(facts, f)
        for b, t in f.calls():
            c = callee(t) or ""
            n = c.split("::")[-1]
            if n not in RAW:
                continue
            if not ("ptr" in c or "slice" in c or "unchecked" in n or "SlotMap" in c or "Option" in c or "Vec" in c or "mem::" in c):
                continue
            if n in ("add", "sub", "offset", "read", "write") and "ptr" not in c:
                continue
            if t[1] and any(("format" in x) or ("assert" in x) for x in t[1]):
                continue
            out.setdefault((root, n), []).append((f, t))
        for b, s in f.all_stmts():
            if s[KIND] == "a" and s[5][0] == "cast" and s[5][1] == "Transmute":
                fr, to = s[5][3], s[5][4]
                # compiler-inserted pointer checks and Box internals are not program accesses
                if to == "usize" or "MaybeUninit" in fr or "NonNull" in fr:
                    continue
                if s[1] and any(("assert" in x) or ("format" in x) for x in s[1]):
                    continue
                kind = "transmute %s->%s" % (fr.split("::")[-1][:24], to.split("::")[-1][:24])
                out.setdefault((root, kind), []).append((f, s))
    return out


def rule_inventory(ck, facts):
    R = "C03.unsafe"
    ck.rule(R, "every unchecked memory access in runtime::vm* is in the audited inventory (function, kind, count); the ring buffer's unchecked indices are reduced modulo the indexed slice's own length with the empty case excluded")
    sites = raw_sites(facts)
    ck.floor(R, "raw_access_groups", len(sites), 16)
    for (root, kind), lst in sorted(sites.items()):
        f, item = lst[0]
        ck.bad(R, "raw|%s|%s|x%d" % (root, kind, len(lst)), "%d unchecked access(es) `%s` in %s: not audited (its bound must come from a check or from the state-layout argument of C05)" % (len(lst), kind, root), f.where(item))


def rule_ringbuffer(ck, facts):
    R = "C03.unsafe"
    lang = facts.crate(roles.LANG)
    cands = [f for f in lang.fns if "::runtime::vm::ringbuffer::" in f.path and any((callee(t) or "").split("::")[-1] in ("get_unchecked", "get_unchecked_mut") for _, t in f.calls())]
    ck.require(R, len(cands) >= 1, "anchor|ringbuffer", "ring buffer function with unchecked indexing not found")
    for f in cands:
        sx = SymEx(f, max_paths=32, facts=facts)
        try:
            paths = sx.run(0)
        except PathLimit:
            paths = sx.paths
        n = 0
        for p in paths:
            accs = [e for e in p.events if e[0] == "call" and e[1].split("::")[-1] in ("get_unchecked", "get_unchecked_mut")]
            if not accs:
                continue
            # the zero-length guard: a cond `len == 0` false on this path
            guard = any(e[0] == "cond" and e[1][0] == "bin" and e[1][1] == "eq" and e[1][3] == ("k", 0, "u64") for e in p.events)
            for a in accs:
                n += 1
                idx = a[2][1]
                x = idx
                while x[0] == "cast":
                    x = x[2]
                is_rem = x[0] == "bin" and x[1] == "rem"
                modulus_is_len = is_rem and ("ptrmeta" in repr(x[3]) or "len" in repr(x[3]))
                key = "ringbuffer|%s|%s" % (f.short.split("::")[-1], a[1].split("::")[-1])
                if is_rem and modulus_is_len and guard:
                    ck.ok(R, key, {"index": show(idx)[:120], "guard": "len != 0"})
                else:
                    ck.bad(R, key, "%s: unchecked ring-buffer index %s is not reduced modulo the buffer's own length (or the empty buffer is not excluded): out-of-bounds read/write of the state storage" % (f.short, show(idx)[:100]), f.where(a[3]))
        ck.floor(R, "ringbuffer_unchecked_accesses", n, 2)


def run(ck, facts, cg, tier):
    rule_inventory(ck, facts)
    rule_ringbuffer(ck, facts)
