def run(ck, facts, cg, tier):
    pass
