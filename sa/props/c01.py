"""C01 — VM and WASM back ends produce identical audio.
Sibling-implementation cross-check of the two lowerings and the two runtimes."""
from .. import roles
from ..callgraph import CallGraph
from ..rules import cover
from . import c01_ops, c01_bounds, c01_tables, prims

LEVEL = "other"
EXPLANATION = (
    "Static cross-check of the two back ends over rustc MIR facts: (cover) every mir::Instruction variant the "
    "MIR generator can construct has a real, non-diverging handler in the bytecode lowering, in the WASM lowering "
    "and (one level down) every bytecode the lowering can construct has one in the VM dispatch loop; (ops) the "
    "per-operator templates of VM and WASM agree on an exhaustive f64 class domain; (bounds) every narrowing on an "
    "operand-encoding path and every bump allocator is range-checked; (tables) runtime contracts agree. Decides "
    "necessary conditions of agreement only; output equality of whole programs is not decided."
)


def module_prefix(fn):
    return fn.path.rsplit("::", 2)[0] + "::"


def family(cg, fn):
    """fn, its closures, and its transitive callers inside the same module (the lowering's driver functions)"""
    pre = module_prefix(fn)
    rev = cg.callers()
    fam = {fn.path}
    work = [fn.path]
    while work:
        p = work.pop()
        for q in rev.get(p, ()):
            if q.startswith(pre) and q not in fam:
                fam.add(q)
                work.append(q)
    # closures of all family members
    for p in list(fam):
        for q in cg.closures.get(p, ()):
            fam.add(q)
    return [cg.fns[p] for p in fam if p in cg.fns]


def handled_ok(facts, fns, enum):
    """variant -> True if some switch in fns has an explicit arm for it from which a normal return is reachable"""
    ok = {}
    for f in fns:
        cov = cover.coverage(facts, f, enum)
        if not cov:
            continue
        for v, lst in cov.explicit.items():
            for sw, tb in lst:
                if tb in cov._crr:
                    ok[v] = True
                else:
                    ok.setdefault(v, False)
    return ok


def rule_cover(ck, facts, cg):
    R = "C01.cover"
    ck.rule(
        R,
        "every mir::Instruction variant constructed outside derives has an explicit non-diverging arm in the bytecode "
        "lowering family and in the wasm lowering family; every bytecode::Instruction variant constructed by the "
        "bytecode generator has a non-diverging arm in the VM dispatch loop (catch-all or todo!/unimplemented! arm = violation)",
    )
    adt = facts.adt(roles.MIR_INSTR)
    ck.require(R, adt is not None, "anchor|mir::Instruction", "enum mir::Instruction not found")
    if adt is None:
        return
    ck.floor(R, "mir_instruction_variants", len(adt["variants"]), 70)
    bl = roles.bytecode_lowering(facts)
    wl = roles.wasm_lowering(facts)
    vd = roles.vm_dispatch(facts)
    ck.require(R, bl is not None, "anchor|bytecode-lowering", "no function switches on mir::Instruction (>=40 arms) while constructing bytecode instructions")
    ck.require(R, wl is not None, "anchor|wasm-lowering", "no function switches on mir::Instruction (>=40 arms) while constructing wasm_encoder instructions")
    ck.require(R, vd is not None, "anchor|vm-dispatch", "no function switches on bytecode::Instruction with >=50 arms")
    if not (bl and wl and vd):
        return
    ck.note("anchors: bytecode lowering=%s, wasm lowering=%s, vm dispatch=%s" % (bl.fn.short, wl.fn.short, vd.fn.short))
    producers = roles.non_derived(facts)
    prod = cover.constructed_variants(producers, roles.MIR_INSTR)
    ck.floor(R, "mir_variants_constructed", len(prod), 55)
    outside = sorted({s[0].short for v in prod.values() for s in v if "::compiler::mirgen" not in s[0].path})
    ck.setcount("mir_construction_sites", sum(len(v) for v in prod.values()))
    for name, low in (("bytecode", bl), ("wasm", wl)):
        fam = family(cg, low.fn)
        ok = handled_ok(facts, fam, roles.MIR_INSTR)
        ck.setcount("%s_family_functions" % name, len(fam))
        for v in sorted(prod):
            site = prod[v][0]
            if ok.get(v):
                ck.ok(R, "%s|%s" % (name, v), {"variant": v, "constructed_at": site[1], "lowering": low.fn.short})
            else:
                why = (
                    "falls into the catch-all arm" if v in low.catchall else "has only diverging arms (%s)" % ", ".join(m for m, _, _ in low.arm_aborts(v)[:2])
                    if v in low.primary_handled()
                    else "has no arm"
                )
                ck.bad(
                    R,
                    "%s|%s" % (name, v),
                    "mir::Instruction::%s can be constructed (%s in %s) but in the %s lowering %s it %s"
                    % (v, site[1], site[0].short, name, low.fn.short, why),
                    low.fn.where(),
                )
    # one level down: bytecode -> VM dispatch
    vadt = facts.adt(roles.VM_INSTR)
    ck.floor(R, "vm_instruction_variants", len(vadt["variants"]), 65)
    vprod = cover.constructed_variants([f for f in producers if f.path != vd.fn.path], roles.VM_INSTR)
    ck.floor(R, "vm_variants_constructed", len(vprod), 50)
    for v in sorted(vprod):
        if v in vd.primary_handled() and not vd.arm_diverges(v):
            ck.ok(R, "vm|%s" % v, {"bytecode": v, "constructed_at": vprod[v][0][1]})
        else:
            ab = vd.arm_aborts(v)
            ck.bad(
                R,
                "vm|%s" % v,
                "bytecode::Instruction::%s is constructed at %s but its arm in %s %s"
                % (v, vprod[v][0][1], vd.fn.short, "diverges (%s)" % ab[0][1] if ab else "is missing"),
                vd.fn.where(),
            )
    return bl, wl, vd, prod



def rule_jump_index(ck, facts):
    """a scrutinee below the smallest literal of an integer `match` takes the default arm on both back ends"""
    from ..cfg import DefIndex, reachable as _reach
    from ..facts import callee

    R = "C01.ops"
    cov = roles.vm_dispatch(facts)
    if cov is None or "JmpTable" not in cov.primary_handled():
        return
    f = cov.fn
    tb = cov.arm_target("JmpTable")
    region = _reach(f, tb, stop=[cov.primary.block])
    di = DefIndex(f)
    n = 0
    for b in sorted(region):
        for st in f.stmts(b):
            if st[3] != "a" or st[5][0] != "cast" or st[5][4] != "usize" or st[5][3] not in ("i64", "u64", "isize", "i32", "u32"):
                continue
            # the cast `(val - min) as usize`: its source is a signed 64-bit value
            src = [st[5][2]] if st[5][2][0] in ("cp", "mv") else []
            if not src:
                continue
            r = di.resolve(src[0])
            if r[0] == "place" and r[1][1]:
                r = di.resolve(["cp", [r[1][0], []]])

            def mentions_min(rr, depth=0):
                """does the value derive from the table's `min` field?"""
                from ..facts import place_fields

                if depth > 4:
                    return False
                ops = []
                if rr[0] == "rv":
                    rv = rr[1][5]
                    ops = [o for o in rv[1:] if isinstance(o, list) and o and o[0] in ("cp", "mv")]
                elif rr[0] == "call":
                    ops = [o for o in rr[1][5] if o[0] in ("cp", "mv")]
                elif rr[0] == "place":
                    return any((x or "").endswith("::min") for x in place_fields(rr[1])) or mentions_min(di.resolve(["cp", [rr[1][0], []]]), depth + 1)
                for o in ops:
                    from ..facts import place_fields as _pf
                    if any((x or "").endswith("::min") for x in _pf(o[1])):
                        return True
                    if mentions_min(di.resolve(o if not o[1][1] else ["cp", [o[1][0], []]]), depth + 1):
                        return True
                return False

            if not mentions_min(r):
                continue
            n += 1
            key = "jump-index|%s" % f.short.split("::")[-1]
            if r[0] == "rv" and r[1][5][0] == "bin" and r[1][5][1] in ("sub", "sub_ov", "sub_wrap"):
                ck.ok(R, key, {"index": "(value - min) as usize", "below_min": "wraps to a huge index = default arm"})
            else:
                what = (callee(r[1]) or "?").split("::")[-1] if r[0] == "call" else r[0]
                ck.bad(R, key, "the VM's jump-table index is not the plain wrapped difference `(value - min) as usize` (it goes through `%s`): WASM compares the difference as an unsigned number, so a scrutinee below the smallest literal takes the default arm there, while here its distance from the minimum selects a literal arm" % what, f.where(st))
    ck.floor(R, "jump_table_index_casts", n, 1)


def run(ck, facts, tier):
    from ..rules import scratchlocal as _sl

    _cov = roles.wasm_lowering(facts)
    if _cov is not None:
        _sl.run(ck, facts, "C05.scratch", roles.LANG, _cov)
    cg = CallGraph(facts, ["mimium_lang"])
    ck.floor("C01.cover", "mimium_lang_bodies", len(cg.fns), 3400)
    anchors = rule_cover(ck, facts, cg)
    if anchors:
        c01_ops.run(ck, facts, cg, anchors, tier)
        rule_jump_index(ck, facts)
        c01_bounds.run(ck, facts, cg, anchors, tier, "C01")
        c01_tables.run(ck, facts, cg, anchors, tier)
    prims.rule_delay(ck, facts, "C01.prims", want=("vm", "wasm"))
    prims.rule_array_index(ck, facts, "C01.prims")
    prims.rule_null_array(ck, facts, "C01.prims")
    prims.rule_site_table(ck, facts, "C05.site-table")
    prims.rule_scheduler_heap(ck, facts, "C01.prims")
    prims.rule_unit_merge(ck, facts, "C01.unit-merge")
    prims.rule_default_rate(ck, facts, "C01.defaults")
    prims.rule_closure_state(ck, facts, "C01.prims")
    # the WASM host's state-cursor discipline (whose cursor a closure return resets) decides which cell a later
    # `self`/`mem` of the caller reads: a VM/WASM difference
    from . import c05

    c05.rule_cursor(ck, facts)
    from . import c03

    c03.rule_type_substitution(ck, facts)  # a stale generic type has a different word size on the two back ends
    from . import c11

    c11.rule_closure_lifetime(ck, facts)
    # with the scheduler: both runtimes convert, accept and fire a scheduled time alike
    c11.rule_time_conversion(ck, facts)
    c11.rule_guards(ck, facts)
    c11.rule_protocol(ck, facts)
    ck.not_decided("equality of outputs for a given program; register allocation, control-flow lowering and memory models are not compared")
    ck.not_decided("anything about wasmtime's execution of the emitted module")
