"""Sibling cross-check of the stateful primitives `delay` and `mem`, which exist three times: the VM ring buffer,
the WASM host functions, and the runtime template embedded in generated Rust.  Extracted per implementation, with
the ring modulus L (the right operand of the `%` operations) as the unit:
   clamp bounds of the delay time   (expected: 0.0 .. (L-1) as f64, then truncated to an integer)
   read index                        (w + L - d) % L
   next write index                  (w + 1) % L
and compared as normalised expression strings."""
from ..facts import KIND, callee
from ..symex import PathLimit, SymEx, show


def _strip(e):
    while isinstance(e, tuple) and e and e[0] in ("ref", "deref"):
        e = e[1]
    return e


def _replace(e, target, sym):
    if e == target:
        return sym
    if not isinstance(e, tuple):
        return e
    return tuple(_replace(x, target, sym) if isinstance(x, tuple) else x for x in e)


def _norm(e, L, leaves):
    """normal form: strip refs/overflow-checked wrappers and integer width casts; name the leaves"""
    e = _strip(e)
    if e == L:
        return "L"
    for name, val in leaves.items():
        if e == val:
            return name
    k = e[0]
    if k == "k":
        return repr(float(e[1])) if isinstance(e[1], float) else str(e[1])
    if k == "fld" and e[2] == 0 and _strip(e[1])[0] == "bin" and _strip(e[1])[1].endswith("_ov"):
        b = _strip(e[1])
        return "(%s %s %s)" % (_norm(b[2], L, leaves), b[1][:-3], _norm(b[3], L, leaves))
    if k == "bin":
        return "(%s %s %s)" % (_norm(e[2], L, leaves), e[1], _norm(e[3], L, leaves))
    if k == "cast":
        inner = _norm(e[2], L, leaves)
        if e[1] == "IntToInt":
            return inner
        return "%s(%s)" % ({"IntToFloat": "f64", "FloatToInt": "int"}.get(e[1], e[1]), inner)
    if k == "call":
        n = e[1].split("::")[-1]
        if n in ("saturating_sub", "wrapping_sub", "checked_sub"):
            return "(%s sub %s)" % (_norm(e[2][0], L, leaves), _norm(e[2][1], L, leaves))
        if n in ("saturating_add", "wrapping_add"):
            return "(%s add %s)" % (_norm(e[2][0], L, leaves), _norm(e[2][1], L, leaves))
        if n in ("from_bits", "word_to_f64", "to_bits", "f64_to_word"):
            return _norm(e[2][0], L, leaves)
        if n == "clamp":
            return "clamp(%s, %s, %s)" % tuple(_norm(a, L, leaves) for a in e[2])
        return "%s(..)" % n
    return "?" + show(e)[:30]


class DelayTemplate:
    def __init__(self, fn):
        self.fn = fn
        self.clamp = None
        self.read = None
        self.next_write = None
        self.order = None
        self.problems = []


def extract_delay(facts, fn):
    dt = DelayTemplate(fn)
    sx = SymEx(fn, max_paths=64, max_steps=6000, facts=facts)
    try:
        paths = sx.run(0)
    except PathLimit:
        paths = sx.paths
    best = None
    for p in paths:
        if p.end != "return":
            continue
        clamps = [e for e in p.events if e[0] == "call" and e[1].endswith("::clamp")]
        if clamps and (best is None or len(p.events) > len(best.events)):
            best = p
    if best is None:
        dt.problems.append("no path calls f64::clamp")
        return dt
    p = best
    # all rem operations of the path: (x rem M)
    rems = []

    def walk(e, d=0):
        if not isinstance(e, tuple) or d > 30:
            return
        if e and e[0] == "bin" and e[1] == "rem":
            rems.append(e)
        for x in e:
            if isinstance(x, tuple):
                walk(x, d + 1)

    for l, v in p.env.items():
        walk(v)
    for ev in p.events:
        if ev[0] == "store":
            walk(ev[2])
        if ev[0] == "call":
            walk(ev[2])
    mods = {}
    for r in rems:
        mods[repr(_strip(r[3]))] = _strip(r[3])
    if len(mods) != 1:
        dt.problems.append("expected one ring modulus, found %d" % len(mods))
        if not mods:
            return dt
    L = list(mods.values())[0]
    cl = [e for e in p.events if e[0] == "call" and e[1].endswith("::clamp")][0]
    time_leaf = _strip(cl[2][0])
    leaves = {"t": time_leaf}
    dt.clamp = (_norm(cl[2][1], L, leaves), _norm(cl[2][2], L, leaves))
    # delay_samples = int(clamp(..)); write idx w = X % L where X is a loaded value
    d_expr = None
    w_expr = None
    for r in rems:
        a = _strip(r[2])
        txt = repr(a)
        if "clamp" not in txt and "'rem'" not in txt:
            w_expr = r
    if w_expr is None:
        dt.problems.append("write index (x % L) not found")
        return dt
    leaves["w"] = w_expr
    for r in rems:
        txt = repr(r)
        if "clamp" in txt:
            # replace int(clamp(..)) by d
            dt.read = _norm(r, L, dict(leaves, d=_find_int_of_clamp(r)))
        elif r is not w_expr and repr(w_expr) in txt:
            dt.next_write = _norm(r, L, leaves)
    # order of the two ring accesses on the path: the access whose index is the read index (it mentions the clamped
    # time) and the access whose index is the write index (w itself, not w + 1).  References into the ring cannot be
    # held across the mutable access (borrow checker), so the order of the accessor calls is the order of the load and
    # the store.
    ACC = ("get_unchecked", "get_unchecked_mut", "index", "index_mut", "get", "get_mut")
    rd = wr = None
    wtxt = repr(w_expr)
    for i, ev in enumerate(p.events):
        if ev[0] != "call" or ev[1].split("::")[-1] not in ACC or len(ev[2]) < 2:
            continue
        itxt = repr(ev[2][1])
        if "clamp" in itxt:
            rd = i if rd is None else rd
        elif wtxt in itxt and not _is_succ(ev[2][1], w_expr):
            wr = i if wr is None else wr
    if rd is None or wr is None:
        dt.problems.append("ring accesses not found (read access: %s, write access: %s)" % (rd is not None, wr is not None))
    else:
        dt.order = "the delayed sample is read, then the input is written" if rd < wr else "the input is written, then the delayed sample is read"
    return dt


def _is_succ(e, w):
    """e is (w + 1) % L or contains it: the next write position, not the current one"""
    if not isinstance(e, tuple):
        return False
    if e and e[0] == "bin" and e[1] == "rem" and e is not w and repr(w) in repr(e[2]) and _strip(e[2]) != _strip(w[2]):
        return True
    return any(_is_succ(x, w) for x in e if isinstance(x, tuple))


def _find_int_of_clamp(e, d=0):
    if not isinstance(e, tuple) or d > 30:
        return None
    if e and e[0] == "cast" and e[1] == "FloatToInt" and "clamp" in repr(e[2]):
        return e
    for x in e:
        if isinstance(x, tuple):
            r = _find_int_of_clamp(x, d + 1)
            if r is not None:
                return r
    return None


def delay_impls(facts):
    """role: functions that call f64::clamp and perform `%` on a ring length, in the VM ring buffer module, the wasm
    host module and the Rust runtime template"""
    out = {}
    lang = facts.crate("mimium_lang")
    for f in lang.fns:
        if f.kind == "promoted" or "::tests" in f.path:
            continue
        if not any((callee(t) or "").endswith("::clamp") and "f64" in (callee(t) or "") for _, t in f.calls()):
            continue
        has_rem = any(s[KIND] == "a" and s[5][0] == "bin" and s[5][1] == "rem" for _, s in f.all_stmts())
        if not has_rem:
            continue
        if "::runtime::vm" in f.path:
            out["vm"] = f
        elif "::runtime::wasm" in f.path and "delay" in f.path:
            out["wasm"] = f
    if "mimium_rust_template" in facts.files:
        for f in facts.crate("mimium_rust_template").fns:
            if f.kind == "promoted":
                continue
            if any((callee(t) or "").endswith("::clamp") for _, t in f.calls()) and any(s[KIND] == "a" and s[5][0] == "bin" and s[5][1] == "rem" for _, s in f.all_stmts()):
                out["rust"] = f
    return out


def rule_delay(ck, facts, R, want=("vm", "wasm")):
    ck.rule(R, "the implementations of `delay` (%s) clamp the delay time to the same bounds relative to the ring length L (0.0 .. f64(L-1)), compute the same read index ((w + L - d) %% L) and the same next write index ((w + 1) %% L), and access the ring in the same order (read the delayed sample, then write the input: the two differ when the delay is 0 samples)" % ", ".join(want))
    impls = delay_impls(facts)
    for w in want:
        ck.require(R, w in impls, "anchor|delay-%s" % w, "delay implementation `%s` not found (functions that clamp a time and index a ring with %%)" % w)
    tmpl = {}
    for w in want:
        if w not in impls:
            continue
        dt = extract_delay(facts, impls[w])
        if dt.problems:
            ck.bad(R, "unanalysable|delay-%s" % w, "delay template of %s could not be extracted: %s" % (impls[w].short, "; ".join(dt.problems)), impls[w].where())
            continue
        tmpl[w] = dt
    if len(tmpl) < 2:
        return
    ref_name = want[0]
    if ref_name not in tmpl:
        return
    ref = tmpl[ref_name]
    for w, dt in tmpl.items():
        if w == ref_name:
            continue
        for what, a, b in (("clamp", ref.clamp, dt.clamp), ("read-index", ref.read, dt.read), ("next-write", ref.next_write, dt.next_write), ("access-order", ref.order, dt.order)):
            key = "delay|%s-vs-%s|%s" % (ref_name, w, what)
            if a == b and a is not None:
                ck.ok(R, key, {"what": what, ref_name: a, w: b})
            else:
                ck.bad(R, key, "`delay` disagrees between %s and %s on %s: %s computes %s, %s computes %s (L = ring length, t = delay time, w = write index, d = delay in samples): for some delay times the two read different samples" % (impls[ref_name].short, impls[w].short, what, ref_name, a, w, b), "%s ; %s" % (impls[ref_name].where(), impls[w].where()))


# --------------------------------------------------------------------------------------------------
# array index normalisation: VM GetArrayElem/SetArrayElem arm  vs  WASM (numeric conversion emitted by the
# generator, then the clamp of the host function)
import math as _math


def _sat(x):
    if _math.isnan(x):
        return 0
    if x >= 9.223372036854775807e18:
        return 2**63 - 1
    if x <= -9.223372036854775808e18:
        return -(2**63)
    return int(x)


def _vm_index_eval(expr, conds, x, n):
    """evaluate the VM's index template (path conditions + value) for index value x and array length n"""

    def ev(e):
        e = _strip(e)
        k = e[0]
        if k == "k":
            return e[1]
        if k == "cast":
            v = ev(e[2])
            if e[1] == "FloatToInt":
                return _sat(v)
            return v
        if k == "call":
            nme = e[1].split("::")[-1]
            if nme in ("get_as", "to_value"):
                return x
            if nme == "get_length_array" or nme == "len":
                return n
            if nme == "is_finite":
                v = ev(e[2][0])
                return not (_math.isnan(v) or _math.isinf(v))
            if nme == "clamp":
                v, lo, hi = (ev(a) for a in e[2])
                return max(lo, min(hi, v))
            if nme == "saturating_sub":
                a, b = ev(e[2][0]), ev(e[2][1])
                return max(0, a - b)
            if nme in ("min", "max") and len(e[2]) == 2:
                a, b = ev(e[2][0]), ev(e[2][1])
                return min(a, b) if nme == "min" else max(a, b)
            raise ValueError("call %s" % nme)
        if k == "bin":
            a, b = ev(e[2]), ev(e[3])
            return {"eq": a == b, "ne": a != b, "lt": a < b, "le": a <= b, "gt": a > b, "ge": a >= b, "sub": a - b, "add": a + b}[e[1]]
        if k == "fld" and e[2] == 0 and _strip(e[1])[0] == "bin":
            b = _strip(e[1])
            a, c = ev(b[2]), ev(b[3])
            return a - c if b[1].startswith("sub") else a + c
        raise ValueError("expr %s" % k)

    for c, v, pos in conds:
        try:
            cv = int(ev(c))
        except (ValueError, KeyError):
            continue
        if pos and cv != v:
            return None
        if (not pos) and cv in v:
            return None
    return ev(expr)


def rule_array_index(ck, facts, R):
    from .. import roles
    from ..rules import cover

    ck.rule(R + " (array index)", "the element index used by the VM's GetArrayElem/SetArrayElem arms for an f64 index value equals the one the WASM path computes (numeric conversion emitted by the generator followed by the clamp of the host function), on NaN, ±inf, negative, fractional and huge indices")
    vd = roles.vm_dispatch(facts)
    lang = facts.crate("mimium_lang")
    if vd is None:
        return
    # WASM conversion: the helper that loads a value "as numeric i64"
    conv = [f for f in lang.fns if "::compiler::wasmgen" in f.path and f.short.endswith("emit_value_load_as_numeric_i64")]
    conv_instrs = set()
    for f in conv:
        for g in facts.family("mimium_lang", f.path):
            for b, s in g.all_stmts():
                if s[KIND] == "a" and s[5][0] == "agg" and s[5][1][0] == "adt" and "wasm_encoder" in s[5][1][1] and s[5][1][3].startswith(("I64Trunc", "I32Trunc")):
                    conv_instrs.add(s[5][1][3])
    ck.require(R, len(conv) == 1 and conv_instrs, "anchor|numeric-index-conversion", "the WASM generator's numeric index conversion helper was not found")
    produced = set(cover.constructed_variants([f for f in roles.non_derived(facts) if f.path != vd.fn.path], roles.VM_INSTR))
    for arm, host_suffix in (("GetArrayElem", "array_get_elem_host"), ("SetArrayElem", "array_set_elem_host")):
        if arm not in produced:
            ck.note("array index: VM instruction %s is never constructed by the bytecode generator (dormant arm, not compared)" % arm)
            continue
        host = [f for f in lang.fns if f.short.endswith("runtime::wasm::" + host_suffix)]
        if arm not in vd.primary_handled() or len(host) != 1:
            ck.bad(R, "anchor|array-index|%s" % arm, "VM arm %s or host function %s not found" % (arm, host_suffix))
            continue
        # VM template
        sx = SymEx(vd.fn, payload_place=vd.primary.place, max_paths=64, facts=facts)
        try:
            paths = sx.run(vd.arm_target(arm), stop_blocks=[vd.primary.block])
        except PathLimit:
            paths = sx.paths
        cand = [l for l, nme in vd.fn.dbg_names().items() if nme == "index_int"]
        vm_t = [(p.conds, p.env[l]) for p in paths for l in cand if l in p.env and p.end in ("stop", "loop")]
        # host clamp
        sxh = SymEx(host[0], max_paths=200, max_steps=12000, facts=facts)
        try:
            hp = sxh.run(0)
        except PathLimit:
            hp = sxh.paths
        clamps = set()
        for p in hp:
            for e in p.events:
                if e[0] == "call" and e[1].endswith("::clamp"):
                    lo = _strip(e[2][1])
                    clamps.add((repr(_strip(e[2][0]))[:40], lo[1] if lo[0] == "k" else None, "sub" in repr(e[2][2]) or "max_idx" in repr(e[2][2])))
        if not vm_t or len(clamps) != 1:
            ck.bad(R, "unanalysable|array-index|%s" % arm, "array index templates could not be extracted (vm paths %d, host clamps %d)" % (len(vm_t), len(clamps)), vd.fn.where())
            continue
        _, lo, upper_is_len_minus_1 = list(clamps)[0]
        sat = all("Sat" in c for c in conv_instrs)

        def wasm_idx(x, n):
            if sat:
                i = _sat(x)
            else:
                if _math.isnan(x) or abs(x) >= 9.3e18:
                    return "trap"
                i = int(x)
            hi = n - 1 if upper_is_len_minus_1 else n
            return max(lo if lo is not None else 0, min(hi, i))

        bad = None
        pts = 0
        for n in (1, 3, 8):
            for x in (float("nan"), float("inf"), float("-inf"), -1.0, -0.5, 0.0, 0.5, 1.0, 2.7, 7.0, 8.0, 1e30, -1e30):
                pts += 1
                vals = [v for v in (_vm_index_eval(e, c, x, n) for c, e in vm_t) if v is not None]
                if not vals:
                    continue
                w = wasm_idx(x, n)
                if vals[0] != w:
                    bad = bad or (x, n, vals[0], w)
        key = "array-index|%s" % arm
        if bad:
            ck.bad(R, key, "array index %r into an array of %d elements selects element %s on the VM (%s arm) and element %s on WASM (%s then the host's clamp): the two back ends read/write different elements" % (bad[0], bad[1], bad[2], arm, bad[3], "+".join(sorted(conv_instrs))), vd.fn.where())
        else:
            ck.ok(R, key, {"arm": arm, "points": pts, "wasm_conversion": sorted(conv_instrs)})


def rule_null_array(ck, facts, R):
    """the WASM host treats the uninitialised-array sentinel handle as an empty array (reads give zeros); the VM must
    special-case the same handle value or the two back ends differ (one panics on the handle lookup)"""
    from .. import roles

    ck.rule(R + " (null array handle)", "array element reads special-case the uninitialised-array sentinel handle on both back ends or on neither")
    vd = roles.vm_dispatch(facts)
    lang = facts.crate("mimium_lang")
    host = [f for f in lang.fns if f.short.endswith("runtime::wasm::array_get_elem_host")]
    if vd is None or len(host) != 1 or "GetArrayElem" not in vd.primary_handled():
        ck.bad(R, "anchor|null-array", "VM GetArrayElem arm or WASM array_get_elem_host not found")
        return

    def sentinel_tests(fn, start, payload, stop):
        sx = SymEx(fn, payload_place=payload, max_paths=200, max_steps=12000, facts=facts)
        try:
            paths = sx.run(start, stop_blocks=stop)
        except PathLimit:
            paths = sx.paths
        tests = set()
        for p in paths:
            for c, v, pos in p.conds:
                c = _strip(c)
                if c[0] == "bin" and c[1] in ("eq", "ne"):
                    a, b = _strip(c[2]), _strip(c[3])
                    for x, k in ((a, b), (b, a)):
                        if k[0] == "k" and isinstance(k[1], int) and not isinstance(k[1], bool) and ("i64" in str(k[2]) or "u64" in str(k[2])):
                            tests.add((show(x)[:60], k[1]))
        return tests

    vm = sentinel_tests(vd.fn, vd.arm_target("GetArrayElem"), vd.primary.place, [vd.primary.block])
    # only tests on the array handle operand (payload 1 of GetArrayElem / argument 3 of the host function)
    vm_handle = {t for t in vm if "GetArrayElem.1" in t[0]}
    wh = sentinel_tests(host[0], 0, None, [])
    wasm_handle = {t for t in wh if t[0].strip().startswith("arg3") or t[0] == "arg3"}
    if bool(vm_handle) == bool(wasm_handle):
        ck.ok(R, "null-array|GetArrayElem", {"vm": sorted(vm_handle), "wasm": sorted(wasm_handle)})
    else:
        ck.bad(R, "null-array|GetArrayElem", "reading an element of the uninitialised/empty array handle: %s special-cases the handle value %s (yields zeros) while %s does not (the handle lookup aborts): indexing an empty array gives a value on one back end and a panic on the other" % (("WASM", sorted(wasm_handle), "the VM") if wasm_handle else ("the VM", sorted(vm_handle), "WASM")), vd.fn.where())


# --------------------------------------------------------------------------------------------------
# per-site side tables: the bytecode generator appends one entry per emitted instruction (FuncProto::delay_sizes:
# the ring length of each `delay` site; the instruction itself has no room for it); the VM must select the entry of
# *this* site.  WASM takes the length from the MIR instruction operand of the site.
def _field_refs(f, field_suffix, mutable=None):
    """(block, stmt) of `_x = &[mut] <place ending in field>`"""
    from ..facts import place_fields
    out = []
    for b, s in f.all_stmts():
        if s[KIND] == "a" and s[5][0] == "ref" and (mutable is None or bool(s[5][2]) == mutable):
            fl = place_fields(s[5][1])
            if fl and fl[-1] and fl[-1].endswith(field_suffix):
                out.append((b, s))
    return out


def _origin_field(di, op, depth=16, chain=None):
    """follow copies, re-borrows and receiver-position calls (deref, last, unwrap, ...) of an operand back to the first
    place that names a struct field / enum payload; returns that field name or None.  `chain` collects the calls
    followed (callee name, remaining operands)."""
    from ..facts import place_fields
    for _ in range(depth):
        rr = di.resolve(op)
        if rr[0] == "call" and chain is not None:
            chain.append(((callee(rr[1]) or "").split("::")[-1], rr[1][5][1:]))
        if rr[0] == "place":
            fl = [x for x in place_fields(rr[1]) if x and "::" in x]
            if fl:
                return fl[-1]
            op = ["cp", [rr[1][0], []]]
            continue
        if rr[0] == "call":
            if not rr[1][5]:
                return None
            op = rr[1][5][0]
            continue
        if rr[0] == "rv":
            rv = rr[1][5]
            if rv[0] in ("ref", "raw"):
                fl = [x for x in place_fields(rv[1]) if x and "::" in x]
                if fl:
                    return fl[-1]
                op = ["cp", [rv[1][0], []]]
                continue
            if rv[0] in ("cast", "un"):
                op = rv[2]
                continue
            if rv[0] == "use":
                op = rv[1]
                continue
        return None
    return None


def rule_site_table(ck, facts, R):
    from .. import roles
    from ..cfg import DefIndex
    from ..facts import place_fields
    ck.rule(R, "a per-site side table of the function prototype (one entry appended by the bytecode generator per emitted instruction: delay_sizes) is read by the VM at a position that identifies the executing site: an instruction operand, or a per-frame cursor that the VM advances; a cursor that is only ever reset selects the first site's entry for every site")
    lang = facts.crate(roles.LANG)
    TABLE = "FuncProto::delay_sizes"
    pushes = []
    for f in lang.fns:
        if "::compiler::bytecodegen" not in f.path or f.kind == "promoted":
            continue
        di = DefIndex(f)
        for b, t in f.calls():
            if (callee(t) or "").split("::")[-1] != "push" or not t[5]:
                continue
            r = di.resolve(t[5][0])
            if r[0] == "rv" and r[1][5][0] == "ref":
                fl = place_fields(r[1][5][1])
                if fl and fl[-1] and fl[-1].endswith(TABLE):
                    pushes.append((f, t))
    ck.require(R, len(pushes) >= 1, "anchor|site-table-push", "the bytecode generator no longer appends to FuncProto::delay_sizes (anchor lost)")
    if not pushes:
        return
    # the VM's reads of the table and where their index comes from
    readers = []
    for f in lang.fns:
        if "::runtime::vm" not in f.path or f.kind == "promoted" or "::test" in f.path:
            continue
        if _field_refs(f, TABLE):
            readers.append(f)
    ck.require(R, len(readers) >= 1, "anchor|site-table-read", "no VM function reads FuncProto::delay_sizes")
    CURSOR = None
    for f in readers:
        di = DefIndex(f)
        for b, t in f.calls():
            n = (callee(t) or "").split("::")[-1]
            if n not in ("get_unchecked", "index", "get") or len(t[5]) < 2:
                continue
            tf = _origin_field(di, t[5][0])
            if not (tf and tf.endswith(TABLE)):
                continue
            chain = []
            of = _origin_field(di, t[5][1], chain=chain)
            origin = None
            if of and "bytecode::Instruction::" in of:
                origin = ("operand", of)
            elif of and "::Machine::" in of and not any(n in ("last", "last_mut", "pop") for n, _ in chain) and [n for n, _ in chain if n in ("index", "get_unchecked", "get")]:
                # a table held by the machine, selected by (function, program counter): static per site if the
                # innermost index is the local that also fetches the instruction and the table is built by counting
                # the Delay instructions of each function's code
                idx_ops = [ops[0] for n, ops in chain if n in ("index", "get_unchecked", "get") and ops]
                pc_locals = set()
                for b3, t3 in f.calls():
                    if (callee(t3) or "").split("::")[-1] in ("index", "get_unchecked") and len(t3[5]) >= 2:
                        tf3 = _origin_field(di, t3[5][0])
                        if tf3 and tf3.endswith("FuncProto::bytecodes"):
                            r3 = di.resolve(t3[5][1])
                            if r3[0] == "multi":
                                pc_locals.add(r3[1])
                by_pc = any(di.resolve(o)[0] == "multi" and di.resolve(o)[1] in pc_locals for o in idx_ops)
                field = of.split("::")[-1]
                builders = []
                for g in lang.fns:
                    if "::runtime::vm" not in g.path or g.kind == "promoted" or "::test" in g.path:
                        continue
                    if any(st[KIND] == "a" and st[4][1] and (place_fields(st[4]) or [None])[-1] and place_fields(st[4])[-1].endswith("Machine::" + field) for _, st in g.all_stmts()):
                        fam = facts.family(roles.LANG, g.path)
                        reads_code = any(_field_refs(h, "FuncProto::bytecodes") for h in fam)
                        tests_delay = any(st[KIND] == "a" and st[5][0] == "disc" and st[5][2].endswith("bytecode::Instruction") for h in fam for _, st in h.all_stmts())
                        if reads_code and tests_delay:
                            builders.append(g.short)
                if by_pc and builders:
                    ck.ok(R, "table|delay_sizes", {"index": "%s[function][program counter]" % field, "built_by": builders, "how": "counts the Delay instructions preceding each code position"})
                    continue
                origin = ("cursor", of)
            elif of and "::Machine::" in of:
                origin = ("cursor", of)
            else:
                # a local of the dispatching function (one per activation) that the function itself advances
                rr = di.resolve(t[5][1])
                loc = rr[1] if rr[0] == "multi" else None
                if loc is not None and loc >= 0:
                    incs = []
                    for bb, i, st in di.defs.get(loc, []):
                        if i is None:
                            continue
                        rv = st[5]
                        r2 = di.resolve(rv[1]) if rv[0] == "use" else ("rv", st)
                        if r2[0] == "place" and r2[1][1] and r2[1][1][-1][0] == "f":
                            r2 = di.resolve(["cp", [r2[1][0], []]])
                        if r2[0] == "rv" and r2[1][5][0] == "bin" and r2[1][5][1] in ("add", "add_ov"):
                            ops = r2[1][5][2:4]
                            if any(o[0] in ("cp", "mv") and o[1][0] == loc for o in ops) and any(o[0] == "c" for o in ops):
                                incs.append(bb)
                    if incs:
                        from ..cfg import reachable
                        after = reachable(f, t[7]) if t[7] is not None else set()
                        if any(bb in after for bb in incs):
                            origin = ("local", "local _%d of %s, incremented after the read" % (loc, f.short))
            if origin is None:
                ck.bad(R, "index-origin|delay_sizes", "%s: cannot establish where the index into FuncProto::delay_sizes comes from" % f.short, f.where(t))
                continue
            if origin[0] == "operand":
                ck.ok(R, "table|delay_sizes", {"index": "instruction operand " + origin[1]})
                continue
            if origin[0] == "local":
                ck.ok(R, "table|delay_sizes", {"index": origin[1]})
                ck.note("delay_sizes is selected by the dynamic ordinal of the executed delay: not decided for functions whose delays sit in conditional blocks (the ordinal then differs from the static position)")
                continue
            CURSOR = origin[1]
            field = CURSOR.split("::")[-1]
            muts = {}
            for g in lang.fns:
                if "::runtime::vm" not in g.path or g.kind == "promoted" or "::test" in g.path:
                    continue
                refs = _field_refs(g, "Machine::" + field, mutable=True)
                if not refs:
                    continue
                locs = {s[4][0] for _, s in refs}
                dg = DefIndex(g)
                for b2, t2 in g.calls():
                    for a in t2[5]:
                        if a[0] in ("cp", "mv") and not a[1][1] and a[1][0] in locs:
                            muts.setdefault((callee(t2) or "").split("::")[-1], []).append((g, t2))
            advancing = sorted(n for n in muts if n not in ("push", "pop", "clear", "truncate", "len", "last", "is_empty"))
            if advancing:
                ck.ok(R, "table|delay_sizes", {"index": "cursor " + CURSOR, "advanced_through": advancing})
            else:
                ck.bad(R, "cursor-never-advances|delay_sizes", "%s indexes FuncProto::delay_sizes with the top of %s, which the VM only ever pushes (0) and pops (%s): every `delay` of a function runs with the ring length of the function's *first* delay, while its cell was sized (and WASM runs it) with its own length: wrong delay times on the VM, and reads/writes outside the cell when a later delay is shorter than the first" % (f.short, CURSOR, sorted(muts) or "no mutable access at all"), f.where(t))


# --------------------------------------------------------------------------------------------------
# the scheduler exists twice (VM audio worker, WASM handle); both keep BinaryHeap<Reverse<Task>> whose Ord looks at
# the deadline only, so the order of simultaneous tasks is whatever the heap's algorithms make of the operation
# sequence.  The two siblings must drive the heap with the same operations.
HEAP_INSERT = ("push", "extend", "append", "extend_one", "from", "from_iter", "extend_from_slice")
HEAP_REMOVE = ("pop", "drain", "into_sorted_vec", "into_vec", "into_iter", "retain", "drain_sorted", "into_iter_sorted", "clear")


def rule_scheduler_heap(ck, facts, R):
    ck.rule(R, "the VM scheduler worker and the WASM scheduler handle keep their tasks in a BinaryHeap ordered by deadline only; the order of tasks with equal deadlines is fixed by the heap operations used, so both implementations insert and remove with the same BinaryHeap operations")
    sc = facts.crate("mimium_scheduler")
    ck.require(R, sc is not None, "anchor|scheduler-crate", "crate mimium_scheduler not in the analysed workspace")
    if sc is None:
        return
    ops = {"vm": {}, "wasm": {}}
    for f in sc.fns:
        side = "wasm" if "wasm_handle::" in f.path else "vm" if "scheduler::" in f.path else None
        if side is None or f.kind == "promoted" or "::test" in f.path:
            continue
        for b, t in f.calls():
            c = callee(t) or ""
            if "BinaryHeap" not in c:
                continue
            n = c.split("::")[-1]
            ops[side].setdefault(n, []).append((f, t))
    for side in ("vm", "wasm"):
        ck.require(R, any(n in HEAP_INSERT for n in ops[side]) and any(n in HEAP_REMOVE for n in ops[side]), "anchor|scheduler-heap-%s" % side, "the %s scheduler no longer inserts into / removes from a BinaryHeap (anchor lost)" % side)
    for what, group in (("insert", HEAP_INSERT), ("remove", HEAP_REMOVE)):
        a = sorted(n for n in ops["vm"] if n in group)
        b = sorted(n for n in ops["wasm"] if n in group)
        if a == b:
            ck.ok(R, "scheduler-heap|%s" % what, {"vm": a, "wasm": b})
        else:
            odd = [n for n in a if n not in b] or [n for n in b if n not in a]
            side = "vm" if any(n in ops["vm"] and n not in ops["wasm"] for n in odd) else "wasm"
            f, t = ops[side][odd[0]][0]
            ck.bad(R, "scheduler-heap|%s" % what, "the VM scheduler uses BinaryHeap::{%s} and the WASM scheduler BinaryHeap::{%s} to %s tasks: tasks with equal deadlines leave the two heaps in different orders (the Ord of Task compares the deadline only), so simultaneous tasks with non-commuting effects produce different samples" % (", ".join(a), ", ".join(b), what), f.where(t))
    # unknown heap operations are reported rather than ignored
    for side in ("vm", "wasm"):
        for n in sorted(ops[side]):
            if n not in HEAP_INSERT and n not in HEAP_REMOVE and n not in ("new", "default", "peek", "len", "is_empty", "with_capacity", "peek_mut", "iter", "capacity", "reserve"):
                f, t = ops[side][n][0]
                ck.bad(R, "scheduler-heap|unclassified|%s|%s" % (side, n), "BinaryHeap::%s is used by the %s scheduler and is not classified as insertion / removal / neutral" % (n, side), f.where(t))



# --------------------------------------------------------------------------------------------------
# unit-valued merges: the MIR generator puts `Value::None` into Phi / PhiSwitch inputs when a branch or arm has no
# value (an `if` / `match` used for its effects).  The bytecode generator resolves operands by table lookup
# (`find` / `find_keep` end in `expect("value .. not found")`), and `Value::None` is never in the table.
def rule_unit_merge(ck, facts, R):
    from .. import roles
    from ..cfg import DefIndex, dominators
    from ..rules.chainwalk import taint
    ck.rule(R, "in the bytecode lowering of `if` and `match`, a Phi / PhiSwitch input is looked up in the register table only on a path that has established it is not `Value::None` (a dominating branch on the discriminant of a mir::Value): the MIR generator uses `Value::None` for branches and arms without a value")
    bl = roles.bytecode_lowering(facts)
    ck.require(R, bl is not None, "anchor|bytecode-lowering", "bytecode lowering not found")
    if bl is None:
        return
    lang = facts.crate(roles.LANG)
    # producer side: None values and merges exist
    mg = [g for g in lang.fns if "::compiler::mirgen::" in g.path and g.kind != "promoted"]
    n_none = sum(1 for g in mg for _, st in g.all_stmts() if st[KIND] == "a" and st[5][0] == "agg" and st[5][1][0] == "adt" and st[5][1][1].endswith("mir::Value") and st[5][1][3] == "None")
    ck.floor(R, "mirgen_none_values", n_none, 5)
    fam = facts.family(roles.LANG, bl.fn.root)
    # the register-table look-ups by signature: methods of the generator `fn(self, &Arc<mir::Value>) -> Reg`
    st_ = (bl.fn.d.get("self_ty") or "").strip()
    lookups = {g.path for g in lang.fns if g.kind == "assoc" and st_ and (g.d.get("self_ty") or "").strip() == st_ and g.d.get("argc") == 2 and "mir::Value" in g.local_ty(2) and g.local_ty(0) in ("u8", "u16", "u32")}
    n = 0
    for g in fam:
        di = DefIndex(g)
        sites = []
        for b, t in g.calls():
            c = callee(t) or ""
            if c not in lookups or len(t[5]) < 2:
                continue
            of = _origin_field(di, t[5][1])
            is_phi = bool(of and ("Instruction::Phi::" in of))
            is_elem = False
            if g.kind == "closure" and not is_phi:
                cur = t[5][1]
                r = None
                for _ in range(6):
                    r = di.resolve(cur)
                    if r[0] == "rv" and r[1][5][0] == "ref":
                        cur = ["cp", [r[1][5][1][0], []]]
                        continue
                    if r[0] == "place":
                        cur = ["cp", [r[1][0], []]]
                        continue
                    break
                is_elem = g.d.get("argc", 0) == 2 and "Arc<mir::Value>" in g.local_ty(2) and r is not None and r[0] == "arg" and r[1] == 2
            if is_phi or is_elem:
                sites.append((b, t, of or "element of the PhiSwitch inputs"))
        if not sites:
            continue
        dom = dominators(g)
        # locals derived from a discriminant of a mir::Value
        seeds = [st[4][0] for _, st in g.all_stmts() if st[KIND] == "a" and st[5][0] == "disc" and st[5][2].endswith("mir::Value")]
        T = taint(g, seeds) if seeds else set()
        for b, t, what in sites:
            n += 1
            guarded = False
            for d in dom.get(b, ()):
                if d == b:
                    continue
                td = g.term(d)
                if td[KIND] == "switch" and td[4][0] in ("cp", "mv") and td[4][1][0] in T:
                    guarded = True
            key = "unit-merge|%s|%s" % (g.short.split("::")[-1] if g.kind != "closure" else "Switch-inputs", what.split("::")[-2] + "." + what.split("::")[-1] if "::" in what else "input")
            if guarded:
                ck.ok(R, key)
            else:
                ck.bad(R, key, "%s looks a merge input (%s) up in the register table without first excluding `Value::None`: an `if` / `match` whose branch or arm has no value (`if (c) { f() }`, `_ => { x = x + 1.0 }`) makes the bytecode generator panic (`value none not found`) while the WASM generator compiles it" % (g.short, what), g.where(t))
    ck.floor(R, "merge_input_lookups", n, 3)


# --------------------------------------------------------------------------------------------------
# host defaults: the sample rate a program sees before the host has configured anything (globals are evaluated by
# `main`, which every front end runs before the driver is initialised)
def rule_default_rate(ck, facts, R):
    import re
    import struct

    ck.rule(R, "every constructor that gives a sample-rate field (sample_rate / samplerate / sr) of a runtime, driver or option struct a literal initial value uses the same value: `main` runs before the host configures the rate, so a global like `let sr = samplerate` sees the default of whichever back end evaluates it")
    pat = re.compile(r"^(sample_?rate|sr)$")
    vals = []
    for cn in ("mimium_lang", "mimium_audiodriver", "mimium_cli"):
        try:
            cr = facts.crate(cn)
        except KeyError:
            continue
        for f in cr.fns:
            if f.kind == "promoted" or "::test" in f.path:
                continue
            for _, st in f.all_stmts():
                if st[KIND] != "a" or st[5][0] != "agg" or st[5][1][0] != "adt":
                    continue
                adt = cr.adts.get(st[5][1][1])
                if adt is None or adt["enum"]:
                    continue
                names = [x[0] for x in adt["variants"][0]["f"]]
                if len(names) != len(st[5][2]):
                    continue
                for nm, op in zip(names, st[5][2]):
                    if not pat.match(nm):
                        continue
                    v = None
                    if op[0] == "c" and op[1] == "f" and str(op[-1]).isdigit():
                        v = struct.unpack("<d", struct.pack("<Q", int(op[-1])))[0]
                    elif op[0] == "c" and op[1] == "i":
                        v = float(int(op[-1]))
                    elif op[0] in ("cp", "mv"):
                        # SampleRate::from(48000) and similar one-argument wrappers of a literal
                        from ..cfg import DefIndex

                        r = DefIndex(f).resolve(op)
                        if r[0] == "call" and len(r[1][5]) == 1 and r[1][5][0][0] == "c" and r[1][5][0][1] == "i":
                            v = float(int(r[1][5][0][-1]))
                    if v is not None:
                        vals.append((v, f, st, "%s.%s" % (st[5][1][1].split("::")[-1], nm)))
    ck.floor(R, "literal_default_rates", len(vals), 4)
    if not vals:
        return
    from collections import Counter

    major = Counter(v for v, _, _, _ in vals).most_common(1)[0][0]
    for v, f, st, what in vals:
        key = "default-rate|%s|%s" % (what, f.short.split("::")[-1])
        if v == major:
            ck.ok(R, key, {"field": what, "in": f.short, "value": v})
        else:
            ck.bad(R, key, "%s initialises %s with %s where the other %d constructors use %s: a program that reads `samplerate` while its globals are evaluated (before the host sets the rate) computes different values on the two back ends" % (f.short, what, v, sum(1 for x in vals if x[0] == major), major), f.where(st))


# --------------------------------------------------------------------------------------------------
# closure state lifetime: the VM keeps a closure's state cells inside the closure object (fresh object, fresh state);
# the WASM host keeps them in a map keyed by the closure's linear-memory address and fills it lazily
def rule_closure_state(ck, facts, R):
    from ..cfg import reachable
    from ..facts import const_fn, const_str, place_fields
    from ..rules import cover
    from ..rules.chainwalk import map_field
    from ..cfg import DefIndex

    ck.rule(R, "the WASM host keys per-closure state by the closure's address and creates the entry lazily; addresses come from a bump allocator that is rewound after every tick, so they repeat: every arm of the WASM generator that creates a closure value (MIR MakeClosure / Closure) emits a call of the host import that forgets the entry of that address (chain derived on every run: host function removing from the state map -> its registered import name -> the generator's import slot -> the emitters reading that slot -> the arms). Without it a closure made inside dsp inherits the state of the closure that occupied the address in the previous tick, while the VM starts it from zero")
    lang = facts.crate("mimium_lang")
    # the lazily filled map
    lazy = None
    for f in lang.fns:
        if "::runtime::wasm" not in f.path or f.kind == "promoted" or "::test" in f.path:
            continue
        di = None
        for b, t in f.calls():
            c = callee(t) or ""
            if c.split("::")[-1] == "entry" and "HashMap" in c and t[5]:
                di = di or DefIndex(f)
                fld = map_field(f, di, t[5][0])
                if fld and fld.endswith("closure_states"):
                    lazy = (f, t, fld)
    ck.require(R, lazy is not None, "anchor|closure-state-map", "the lazily filled per-closure state map of the WASM host was not found")
    if lazy is None:
        return
    fld = lazy[2]
    removers = []
    for f in lang.fns:
        if "::runtime::wasm" not in f.path or f.kind == "promoted" or "::test" in f.path:
            continue
        di = None
        for b, t in f.calls():
            c = callee(t) or ""
            if c.split("::")[-1] in ("remove", "clear") and "HashMap" in c and t[5]:
                di = di or DefIndex(f)
                if map_field(f, di, t[5][0]) == fld:
                    removers.append(f)
    key = "closure-state|reset"
    if not removers:
        ck.bad(R, key, "%s creates the state of a closure lazily under its address and nothing ever removes an entry of %s: a closure created at an address that was used before (every tick re-uses the bump allocator's addresses) starts with the previous occupant's state — `fn dsp(){ let k=1.0  let f = | |{self+k}  f() }` counts 1,2,3,… on WASM and stays 1 on the VM" % (lazy[0].short, fld.split("::")[-1]), lazy[0].where(lazy[1]))
        return
    dis = {}

    def _str_of(di, cur):
        for _ in range(6):
            r = di.resolve(cur) if cur[0] != "c" else ("const", cur)
            if r[0] == "const":
                return const_str(r[1])
            if r[0] == "rv" and r[1][5][0] in ("ref", "raw"):
                cur = ["cp", [r[1][5][1][0], []]]
                continue
            return None
        return None

    # registered name of the remover
    names = {}
    for f in lang.fns:
        if "::runtime::wasm" not in f.path or f.kind == "promoted":
            continue
        for b, t in f.calls():
            if (callee(t) or "").split("::")[-1] != "func_wrap" or len(t[5]) < 4:
                continue
            nm = _str_of(dis.setdefault(f.path, DefIndex(f)), t[5][2])
            fn = const_fn(t[5][3])
            if nm and fn:
                names[fn] = nm
    rn = [names[r.path] for r in removers if r.path in names]
    ck.require(R, bool(rn), "anchor|reset-import-name", "the host function that forgets a closure's state (%s) is not registered as an import" % removers[0].short)
    if not rn:
        return
    # the generator's slot for that import
    slot = None
    for f in lang.fns:
        if "::compiler::wasmgen" not in f.path or f.kind == "promoted":
            continue
        for b, t in f.calls():
            if (callee(t) or "").split("::")[-1] not in ("add_import", "add_import_from"):
                continue
            if not any(_str_of(dis.setdefault(f.path, DefIndex(f)), a) in rn for a in t[5][1:]):
                continue
            if t[6] is not None:
                # stored into a field of the index table
                dl = t[6]
                fl = [x for x in place_fields(dl) if x]
                if fl:
                    slot = fl[-1]
                else:
                    for _, s in f.all_stmts():
                        if s[KIND] == "a" and s[5][0] == "use" and s[5][1][0] in ("cp", "mv") and s[5][1][1][0] == dl[0] and s[4][1]:
                            fl = [x for x in place_fields(s[4]) if x]
                            if fl:
                                slot = fl[-1]
    if slot is None:
        ck.bad(R, key, "the WASM generator never imports `%s`: the host can forget a closure's state but generated code never asks it to" % rn[0], removers[0].where())
        return
    emitters = set()
    for f in lang.fns:
        if "::compiler::wasmgen" not in f.path or f.kind == "promoted":
            continue
        for _, s in f.all_stmts():
            if s[KIND] == "a" and s[5][0] == "use" and s[5][1][0] in ("cp", "mv") and slot in [x for x in place_fields(s[5][1][1]) if x]:
                emitters.add(f.path)
        for _, t in f.calls():
            for a in t[5]:
                if a[0] in ("cp", "mv") and slot in [x for x in place_fields(a[1]) if x]:
                    emitters.add(f.path)
    ti = [f for f in lang.fns if f.short.endswith("WasmGenerator::translate_instruction")]
    ck.require(R, len(ti) == 1, "anchor|translate_instruction", "WasmGenerator::translate_instruction not found")
    if len(ti) != 1:
        return
    cov = cover.coverage(facts, ti[0], "mimium_lang::mir::Instruction")
    n = 0
    for v in ("MakeClosure", "Closure"):
        tb = cov.arm_target(v) if cov else None
        if tb is None:
            continue
        n += 1
        region = reachable(ti[0], tb, stop=[cov.primary.block])
        hit = any((callee(t) or "") in emitters for b, t in ti[0].calls() if b in region) or (ti[0].path in emitters and any(slot in [x for x in place_fields(a[1]) if x] for b, t in ti[0].calls() if b in region for a in t[5] if a[0] in ("cp", "mv")))
        k2 = "closure-state|reset-at|%s" % v
        if hit:
            ck.ok(R, k2, {"arm": v, "import": rn[0], "slot": slot.split("::")[-1]})
        else:
            ck.bad(R, k2, "the WASM generator's arm for %s allocates a closure and does not emit a call of `%s`: the host keeps the state of whatever closure used that address before" % (v, rn[0]), ti[0].where(ti[0].term(tb)))
    ck.floor(R, "closure_creating_arms", n, 2)


def rule_array_index_rust(ck, facts, R):
    """the generated Rust program's array index vs the VM's (the generated source is a value of the generator)"""
    from .. import roles
    from ..rules import rustexpr

    ck.rule(R + " (array index, generated Rust)", "the statement `let index = …;` that the Rust code generator writes into the generated program for array element access (a string constant of the generator, parsed and evaluated as a small Rust expression: if/else, casts with Rust's saturating float→int semantics, clamp, is_finite) selects the same element as the VM's GetArrayElem/SetArrayElem arms on NaN, ±inf, negative, fractional and huge indices")
    vd = roles.vm_dispatch(facts)
    lang = facts.crate("mimium_lang")
    if vd is None:
        return
    lines = {}
    for f in lang.fns:
        if "::compiler::rustgen" not in f.path or f.kind == "promoted":
            continue
        for g in [f]:
            for b, blk in enumerate(g.bb):
                if blk["c"]:
                    continue
                ops = []
                for st in blk["s"]:
                    if st[KIND] == "a" and st[5][0] == "use" and st[5][1][0] == "c":
                        ops.append(st[5][1])
                t = blk["t"]
                if t[KIND] == "call":
                    ops.extend(a for a in t[5] if a[0] == "c")
                for o in ops:
                    if o[1] == "s" and isinstance(o[2], str) and o[2].strip().startswith("let index ="):
                        lines.setdefault(o[2].strip(), g)
    # promoted constants hold most literals
    for f in lang.fns:
        if f.kind == "promoted" and "::compiler::rustgen" in f.path:
            for _, st in f.all_stmts():
                if st[KIND] == "a" and st[5][0] == "use" and st[5][1][0] == "c" and st[5][1][1] == "s" and st[5][1][2].strip().startswith("let index ="):
                    lines.setdefault(st[5][1][2].strip(), f)
    ck.require(R, len(lines) >= 1, "anchor|rust-array-index", "the Rust generator's `let index = …` line was not found among its string constants")
    if not lines:
        return
    vm_t = {}
    for arm in ("GetArrayElem", "SetArrayElem"):
        if arm not in vd.primary_handled():
            continue
        sx = SymEx(vd.fn, payload_place=vd.primary.place, max_paths=64, facts=facts)
        try:
            paths = sx.run(vd.arm_target(arm), stop_blocks=[vd.primary.block])
        except PathLimit:
            paths = sx.paths
        cand = [l for l, nme in vd.fn.dbg_names().items() if nme == "index_int"]
        tt = [(p.conds, p.env[l]) for p in paths for l in cand if l in p.env and p.end in ("stop", "loop")]
        if tt:
            vm_t[arm] = tt
    ck.require(R, "GetArrayElem" in vm_t, "anchor|vm-array-index", "the VM's index template (GetArrayElem arm) could not be extracted")
    if "GetArrayElem" not in vm_t:
        return
    for i, (line, g) in enumerate(sorted(lines.items())):
        key = "rust-array-index|%d" % i if len(lines) > 1 else "rust-array-index"
        body = line[len("let index ="):].strip().rstrip(";")
        try:
            tree = rustexpr.parse(body)
        except rustexpr.ParseError as e:
            ck.bad(R, key, "the generated `let index = …` expression could not be parsed by the Rust-expression model (%s): failing closed" % e, g.where())
            continue
        bad = None
        pts = 0
        for n in (1, 3, 8):
            for x in (float("nan"), float("inf"), float("-inf"), -1.0, -0.5, 0.0, 0.5, 1.0, 2.7, 7.0, 8.0, 1e30, -1e30):
                pts += 1
                vals = [v for v in (_vm_index_eval(e, c, x, n) for c, e in vm_t["GetArrayElem"]) if v is not None]
                if not vals:
                    continue
                try:
                    r = rustexpr.ev(tree, {"len": n, "index_value": x})
                except Exception as e:  # unknown identifier etc.
                    bad = bad or (x, n, vals[0], "unevaluable (%s)" % e)
                    continue
                if r != vals[0]:
                    bad = bad or (x, n, vals[0], r)
        if bad:
            ck.bad(R, key, "array index %r into an array of %d elements selects element %s on the VM and element %s in the generated Rust program (`%s`): the transpiled program reads/writes a different element" % (bad[0], bad[1], bad[2], bad[3], line[:110]), g.where())
        else:
            ck.ok(R, key, {"line": line[:120], "points": pts})
