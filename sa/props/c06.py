"""C06 — hot-swapping an unchanged program is inaudible (flow rules on the no-change path of both runtimes)."""
from .. import roles
from ..cfg import DefIndex, dominators, reachable
from ..facts import KIND, callee, place_fields
from ..symex import PathLimit, SymEx, show

LEVEL = "other"
EXPLANATION = (
    "Flow rules on the no-change path of the hot swap, decided on MIR: (VM) in the function that builds the resumed machine, on "
    "the branch where no migration plan exists the new state buffer is a length-preserving copy (clone/to_vec) of the old "
    "machine's buffer and no slice-length-precondition copy is used; (WASM) the old state is snapshotted before the engine is "
    "replaced, on the equal-layout branch the next state is a clone of that snapshot, set_global_state_data is called on every "
    "path that reports success, and every runtime method that forwards per-engine settings to `self.engine` is called after the "
    "replacement so that it reaches the new engine; (shared) equality short-cut of the planner (C08.apply). Sample equality and "
    "the effect of re-running `main` are not decided."
)
LANG = roles.LANG


def rule_vm(ck, facts):
    R = "C06.vm"
    ck.rule(R, "resumed machine, no-plan branch: new rawdata = clone/to_vec of the old machine's rawdata; the swap function uses no copy with a slice-length precondition (copy_from_slice / clone_from_slice) on state buffers; every field of the machine struct that the plain constructor initialises with a constant / fresh container gets the same initial value in the resume function (no interpreter register is inherited from the running machine)")
    lang = facts.crate(LANG)
    cands = [f for f in lang.fns if "::runtime::vm::" in f.path and f.kind == "assoc" and any((callee(t) or "").endswith("build_state_storage_patch_plan") for _, t in f.calls())]
    ck.require(R, len(cands) == 1, "anchor|resume", "expected one VM function calling build_state_storage_patch_plan, found %d" % len(cands))
    if len(cands) != 1:
        return
    f = cands[0]
    sx = SymEx(f, max_paths=64, max_steps=6000, facts=facts)
    try:
        paths = sx.run(0)
    except PathLimit:
        paths = sx.paths
    verdicts = []
    for p in paths:
        if p.end != "return":
            continue
        # which branch: disc(plan) cond
        plan_none = None
        for e in p.events:
            if e[0] == "cond" and e[1][0] == "disc" and "build_state_storage_patch_plan" in repr(e[1]):
                plan_none = (e[3] and e[2] == 0) or ((not e[3]) and 0 not in tuple(e[2]))
        stores = [e for e in p.events if e[0] == "store" and "StateStorage::rawdata" in repr(e[1])]
        if plan_none is None or not stores:
            continue
        val = stores[-1][2]
        if plan_none:
            ok = val[0] == "call" and val[1].split("::")[-1] in ("clone", "to_vec", "to_owned") and "StateStorage::rawdata" in repr(val[2]) and "('arg', 1)" in repr(val[2])
            verdicts.append(("none", ok, show(val)))
        else:
            ok = val[0] == "call" and val[1].endswith("apply_state_storage_patch_plan") and "('arg', 1)" in repr(val[2])
            verdicts.append(("plan", ok, show(val)))
    kinds = {k for k, _, _ in verdicts}
    ck.require(R, kinds == {"none", "plan"}, "anchor|branches", "could not find both the plan and the no-plan branch in %s (%s)" % (f.short, sorted(kinds)), f.where())
    for k, ok, txt in verdicts:
        key = "state-source|%s" % k
        if ok:
            ck.ok(R, key, {"branch": k, "new_rawdata": txt[:120]})
        else:
            ck.bad(R, key, "%s, %s branch: the new machine's state buffer is %s — not a length-preserving copy of the old machine's state%s" % (f.short, "no-plan" if k == "none" else "plan", txt[:140], "" if k == "none" else " through the migration plan"), f.where())
    pre = [t for _, t in f.calls() if (callee(t) or "").split("::")[-1] in ("copy_from_slice", "clone_from_slice", "copy_within")]
    if pre:
        ck.bad(R, "length-precondition|%s" % f.short, "%s copies state with %s, which panics unless both buffers already have the same length (the old machine's buffer is sized lazily on the first dsp call)" % (f.short, (callee(pre[0]) or "").split("::")[-1]), f.where(pre[0]))
    else:
        ck.ok(R, "length-precondition|none")


def _init_summary(f, di, op):
    r = di.resolve(op)
    if r[0] == "const":
        return "constant %s" % r[1][-1]
    if r[0] == "call":
        return "call %s" % (callee(r[1]) or "?")
    if r[0] == "arg":
        return "argument %d" % r[1]
    if r[0] == "rv":
        rv = r[1][5]
        if rv[0] == "agg":
            return "aggregate %s" % "::".join(str(x) for x in rv[1][1:] if isinstance(x, str))
        return "rvalue %s" % rv[0]
    if r[0] == "place":
        return "read of %s" % ("the old machine's " + (place_fields(r[1]) or ["?"])[-1].split("::")[-1] if r[1][0] == 1 else "a local place")
    return "other"


def rule_vm_fresh(ck, facts):
    """the resumed machine starts executing from scratch (link_functions, execute_main): its registers must be those
    of a freshly built machine"""
    R = "C06.vm"
    lang = facts.crate(LANG)
    res = [f for f in lang.fns if "::runtime::vm::" in f.path and f.kind == "assoc" and any((callee(t) or "").endswith("build_state_storage_patch_plan") for _, t in f.calls())]
    if len(res) != 1:
        return
    f = res[0]
    self_ty = f.d.get("self_ty", "")
    adt = None
    aggs = {}
    for g in lang.fns:
        if g.kind != "assoc" or g.d.get("self_ty", "") != self_ty or "::test" in g.path:
            continue
        for b, st in g.all_stmts():
            if st[KIND] == "a" and st[5][0] == "agg" and st[5][1][0] == "adt" and st[5][1][1].endswith("::" + self_ty.split("::")[-1]) and len(st[5][2]) > 3:
                aggs.setdefault(g.path, (g, st))
                adt = st[5][1][1]
    ck.require(R, f.path in aggs and len(aggs) >= 2, "anchor|constructors", "expected the resume function and a plain constructor to build the machine struct (found %d builders)" % len(aggs))
    if not (f.path in aggs and len(aggs) >= 2):
        return
    fields = [x[0] for x in lang.adts[adt]["variants"][0]["f"]]
    ref_fn, ref_st = [v for k, v in aggs.items() if k != f.path][0]
    dr, df = DefIndex(ref_fn), DefIndex(f)
    st = aggs[f.path][1]
    n = 0
    for i, name in enumerate(fields):
        a = _init_summary(ref_fn, dr, ref_st[5][2][i])
        b = _init_summary(f, df, st[5][2][i])
        if a.startswith("argument") and b.startswith("argument"):
            continue
        n += 1
        key = "fresh|%s" % name
        if a == b:
            ck.ok(R, key, {"field": name, "initial": a})
        else:
            ck.bad(R, key, "%s initialises the new machine's `%s` with %s where %s uses %s: the resumed machine runs link_functions/execute_main from scratch like a fresh one, so a register inherited from the running machine (its value in the middle of a tick) shifts where the first frame after the swap reads its inputs / frames" % (f.short, name, b, ref_fn.short, a), f.where(st))
    ck.floor(R, "machine_fields_compared", n, 12)
    # after the literal: scalar registers must not be copied over from the old machine either (carried storages are
    # cloned through a call)
    new_local = st[4][0]
    for b, s2 in f.all_stmts():
        if s2[KIND] != "a" or s2[4][0] != new_local or not s2[4][1] or s2[5][0] != "use" or s2[5][1][0] not in ("cp", "mv"):
            continue
        src = s2[5][1][1]
        if src[0] == 1 and src[1] and src[1][0] == "*":
            fl = (place_fields(s2[4]) or ["?"])[-1].split("::")[-1]
            ck.bad(R, "fresh|%s" % fl, "%s copies the scalar `%s` of the running machine into the resumed one (a register of the interpreter in the middle of a tick)" % (f.short, fl), f.where(s2))


def rule_vm_carried(ck, facts):
    """the storages that handles in the migrated state point into travel with it"""
    import os
    import tomllib

    R = "C06.vm"
    here = os.path.dirname(os.path.dirname(os.path.abspath(__file__)))
    with open(os.path.join(here, "tables", "carried.toml"), "rb") as fh:
        table = tomllib.load(fh).get("carried", [])
    lang = facts.crate(LANG)
    res = [f for f in lang.fns if "::runtime::vm::" in f.path and f.kind == "assoc" and any((callee(t) or "").endswith("build_state_storage_patch_plan") for _, t in f.calls())]
    if len(res) != 1:
        return
    f = res[0]
    di = DefIndex(f)
    from ..rules.chainwalk import taint
    # locals that derive from the running machine (argument 1)
    T = taint(f, [1])
    stored = {}
    for b, st in f.all_stmts():
        if st[KIND] != "a" or not st[4][1]:
            continue
        fl = [x for x in place_fields(st[4]) if x]
        if not fl:
            continue
        name = fl[-1].split("::")[-1]
        srcs = set()
        _collect(st[5], srcs)
        if srcs & T:
            stored.setdefault(name, st)
    n = 0
    for e in table:
        n += 1
        key = "carried|%s" % e["field"]
        if e["field"] in stored:
            ck.ok(R, key, {"field": e["field"], "why": e["reason"]})
        else:
            ck.bad(R, key, "%s no longer carries `%s` over from the running machine (%s): the state words are copied verbatim, so a handle kept in a `self`/`mem` cell now points into an empty table — the first dsp call after swapping an unchanged program panics (`Invalid ArrayIdx`) or reads another object" % (f.short, e["field"], e["reason"]), f.where())
    ck.floor(R, "carried_storages", n, 4)


def rule_vm_post_install(ck, facts):
    """what runs on the new machine after the migrated state was installed must not cut it back"""
    R = "C06.vm"
    lang = facts.crate(LANG)
    res = [f for f in lang.fns if "::runtime::vm::" in f.path and f.kind == "assoc" and any((callee(t) or "").endswith("build_state_storage_patch_plan") for _, t in f.calls())]
    if len(res) != 1:
        return
    f = res[0]
    install = [b for b, st in f.all_stmts() if st[KIND] == "a" and st[4][1] and any(x and x.endswith("StateStorage::rawdata") for x in place_fields(st[4]))]
    ck.require(R, bool(install), "anchor|install", "the store that installs the migrated state words in the new machine was not found in %s" % f.short)
    if not install:
        return
    after = set()
    for b in install:
        after |= set(reachable(f, b))
    self_ty = f.d.get("self_ty", "")
    n = 0
    for b, t in f.calls():
        if b not in after:
            continue
        g = facts.fn(callee(t) or "")
        if g is None or g.d.get("self_ty", "") != self_ty or g.path == f.path:
            continue
        di = DefIndex(g)
        for gb, gt in g.calls():
            c = callee(gt) or ""
            if c.split("::")[-1] != "resize" or not gt[5]:
                continue
            recv = gt[5][0]
            r = di.resolve(recv) if recv[0] in ("cp", "mv") else None
            txt = repr(r)
            if "global_states" not in txt and "rawdata" not in txt:
                continue
            n += 1
            size = gt[5][1] if len(gt[5]) > 1 else None
            grow_only = False
            cur = size
            for _ in range(6):
                if cur is None or cur[0] not in ("cp", "mv"):
                    break
                rr = di.resolve(cur)
                if rr[0] == "call":
                    cn = (callee(rr[1]) or "").split("::")[-1]
                    if cn == "max":
                        # one operand is the current length of the storage
                        for a in rr[1][5]:
                            ra = di.resolve(a) if a[0] in ("cp", "mv") else None
                            if ra and ra[0] == "call" and (callee(ra[1]) or "").split("::")[-1] == "len":
                                grow_only = True
                        break
                    cur = rr[1][5][0] if rr[1][5] else None
                    continue
                if rr[0] == "rv" and rr[1][5][0] in ("use", "cast"):
                    cur = rr[1][5][1] if rr[1][5][0] == "use" else rr[1][5][2]
                    continue
                break
            if not grow_only:
                # or guarded by `len < size`
                dom = dominators(g)
                for d in dom.get(gb, ()):
                    tt = g.term(d)
                    if d != gb and tt[KIND] == "switch" and tt[4][0] in ("cp", "mv"):
                        rd = di.resolve(tt[4])
                        if rd[0] == "rv" and rd[1][5][0] == "bin" and rd[1][5][1] in ("lt", "gt", "le", "ge"):
                            ops = [di.resolve(o) if o[0] in ("cp", "mv") else None for o in rd[1][5][2:4]]
                            if any(o and o[0] == "call" and (callee(o[1]) or "").split("::")[-1] == "len" for o in ops):
                                grow_only = True
            key = "post-install-resize|%s" % g.short.split("::")[-1]
            if grow_only:
                ck.ok(R, key, {"method": g.short, "resize": "grow-only"})
            else:
                ck.bad(R, key, "%s, which %s runs on the new machine after it installed the migrated state, resizes the global state storage to a size that does not take the storage's current length into account: the words of dsp that were just carried over are cut off (and come back as zeros at the next tick), so the swap of an unchanged program restarts them" % (g.short, f.short.split("::")[-1]), g.where(gt))
    ck.floor(R, "post_install_resizes", n, 1)


def _collect(x, out):
    if isinstance(x, list):
        if len(x) == 2 and isinstance(x[0], int) and isinstance(x[1], list):
            out.add(x[0])
            return
        for y in x:
            _collect(y, out)


def rule_wasm(ck, facts):
    R = "C06.wasm"
    ck.rule(R, "WASM try_hot_swap: old state snapshot precedes the engine replacement; equal-layout branch clones the snapshot; every success path calls set_global_state_data; methods forwarding settings to self.engine are called after the replacement; a setting that try_hot_swap re-applies from a field of the runtime (the cache) is recorded in that field by every method that writes it to the running engine")
    lang = facts.crate(LANG)
    cands = [f for f in lang.fns if f.short.endswith("::try_hot_swap") and "wasm" in f.path]
    ck.require(R, len(cands) == 1, "anchor|try_hot_swap", "WASM try_hot_swap not found")
    if len(cands) != 1:
        return
    f = cands[0]
    dom = dominators(f)
    blocks = {}
    for b, t in f.calls():
        c = callee(t) or ""
        blocks.setdefault(c.split("::")[-1], []).append((b, t, c))
    rep = blocks.get("replace", [])
    snap = blocks.get("get_global_state_data", [])
    setg = blocks.get("set_global_state_data", [])
    ck.require(R, len(rep) == 1 and snap and setg, "anchor|swap-steps", "replace / snapshot / set_global_state_data calls not found in try_hot_swap")
    if not (len(rep) == 1 and snap and setg):
        return
    rb = rep[0][0]
    if all(sb in dom[rb] for sb, _, _ in snap):
        ck.ok(R, "snapshot-before-replace")
    else:
        ck.bad(R, "snapshot-before-replace", "the old engine's state is read after the engine has been replaced: the snapshot is the new engine's (prewarmed) state, not the running one", f.where(snap[0][1]))
    # every `true` return passes set_global_state_data
    sx = SymEx(f, max_paths=200, max_steps=12000, facts=facts)
    try:
        paths = sx.run(0)
    except PathLimit:
        paths = sx.paths
    n_true = 0
    bad_true = 0
    eq_paths = []
    for p in paths:
        if p.end != "return":
            continue
        r = p.env.get(0)
        if r == ("k", True, "bool"):
            n_true += 1
            sets = [e for e in p.events if e[0] == "call" and e[1].endswith("set_global_state_data")]
            if not sets:
                bad_true += 1
            else:
                arg = sets[-1][2][1]
                eq_paths.append((p, arg))
    if n_true and not bad_true:
        ck.ok(R, "success-sets-state", {"success_paths": n_true})
    else:
        ck.bad(R, "success-sets-state", "try_hot_swap can report success without installing a state buffer in the new engine (%d of %d paths)" % (bad_true, n_true), f.where())
    # whenever the running engine had state, what is installed derives from it (verbatim or through the patches)
    lost = None
    n_some = 0
    for p, arg in eq_paths:
        some = any(c[0][0] == "disc" and "get_global_state_data" in repr(c[0]) and c[2] and c[1] == 1 for c in p.conds)
        if not some:
            continue
        n_some += 1
        carried = "get_global_state_data" in repr(arg) or any(
            e[0] == "call" and e[1].endswith("apply_patches") and "get_global_state_data" in repr(e[2]) for e in p.events
        )
        if not carried and lost is None:
            lost = (p, arg)
    if lost is None:
        ck.ok(R, "snapshot-carried", {"paths_with_old_state": n_some})
    else:
        ck.bad(R, "snapshot-carried", "try_hot_swap has a success path on which the running engine had state (the snapshot is `Some`) but the buffer installed in the new engine is %s: neither a copy of the snapshot nor the result of applying the patches to it — every cell restarts from the prewarmed state although nothing changed" % show(lost[1])[:120], f.where())
    ck.floor(R, "success_paths_with_old_state", n_some, 3)
    # equal-skeleton branch: next state = clone of the snapshot
    found = False
    for p, arg in eq_paths:
        conds = [e for e in p.events if e[0] == "cond" and e[1][0] == "call" and e[1][1].endswith("::eq") and "skeleton" in repr(e[1][2]).lower()]
        equal = any((c[3] and c[2] == 1) or ((not c[3]) and tuple(c[2]) == (0,)) for c in conds)
        if not equal:
            continue
        applied = any(e[0] == "call" and e[1].endswith("apply_patches") for e in p.events)
        if applied:
            continue
        found = True
        txt = repr(arg)
        if "clone" in txt and "get_global_state_data" in txt:
            ck.ok(R, "equal-layout-copies-snapshot", {"state": show(arg)[:140]})
        else:
            ck.bad(R, "equal-layout-copies-snapshot", "on the equal-layout branch the state installed in the new engine is %s, not a copy of the old engine's snapshot" % show(arg)[:160], f.where())
        break
    ck.require(R, found, "anchor|equal-layout-branch", "equal-layout branch of try_hot_swap not found")
    # forwarding methods after replace
    self_ty = f.d.get("self_ty", "")
    n = 0
    for b, t in f.calls():
        c = callee(t) or ""
        g = facts.fn(c)
        if g is None or g.d.get("self_ty", "") != self_ty or g.path == f.path:
            continue
        touches_engine = any(fl and fl.endswith("::engine") for _, s in g.all_stmts() if s[KIND] == "a" for pl in ([s[5][1]] if s[5][0] in ("ref", "raw") else []) + [s[4]] for fl in place_fields(pl))
        if not touches_engine:
            continue
        n += 1
        name = c.split("::")[-1]
        if rb in dom[b]:
            ck.ok(R, "after-replace|%s" % name, {"method": name})
        else:
            ck.bad(R, "after-replace|%s" % name, "try_hot_swap calls %s (which forwards a setting to self.engine) before the engine is replaced: the setting reaches the outgoing engine and the new engine keeps its default" % name, f.where(t))
    ck.floor(R, "engine_forwarding_calls", n, 1)
    rule_cached_settings(ck, facts, f, rb, dom, self_ty)


def _field_stores(g):
    out = set()
    for _, s in g.all_stmts():
        if s[KIND] == "a" and s[4][1]:
            fl = [x for x in place_fields(s[4]) if x]
            if fl:
                out.add(fl[-1])
    return out


def rule_cached_settings(ck, facts, f, rb, dom, self_ty):
    """a setting the swap re-applies to the new engine is taken from a field of the runtime (the cache); the cache is
    only as good as its writers: whoever forwards that setting to the engine must also record it"""
    R = "C06.wasm"
    di = DefIndex(f)
    pairs = []
    for b, t in f.calls():
        if rb not in dom[b]:
            continue
        c = callee(t) or ""
        g = facts.fn(c)
        if g is None or g.d.get("self_ty", "") != self_ty or g.path == f.path:
            continue
        for a in t[5][1:]:
            if a[0] not in ("cp", "mv"):
                continue
            r = di.resolve(a)
            pl = r[1] if r[0] == "place" else (a[1] if a[1][1] else None)
            if pl is None:
                continue
            fl = [x for x in place_fields(pl) if x and "::" in x]
            if fl and self_ty.split("::")[-1] in fl[-1]:
                cache = fl[-1]
                engine_fields = sorted(x for x in _field_stores(g) if x != cache and self_ty.split("::")[-1] + "::" not in x)
                if engine_fields:
                    pairs.append((cache, g, engine_fields))
    ck.floor(R, "settings_reapplied_from_cache", len(pairs), 1)
    lang = facts.crate(LANG)
    for cache, g, efs in pairs:
        writers = 0
        for h in lang.fns:
            if h.kind == "promoted" or "::test" in h.path or h.d.get("self_ty", "") != self_ty:
                continue
            st = _field_stores(h)
            hit = [e for e in efs if e in st]
            if not hit:
                continue
            writers += 1
            key = "cached-setting|%s|%s" % (cache.split("::")[-1], h.short.replace(LANG + "::", ""))
            if cache in st:
                ck.ok(R, key, {"writer": h.short, "engine_field": hit[0], "cache": cache})
            else:
                ck.bad(R, key, "%s writes %s of the running engine but not %s, the copy try_hot_swap re-applies to the new engine: after a swap the new engine gets the stale (default) value, so a program that reads the setting changes its output at the swap" % (h.short, hit[0].split("::", 2)[-1], cache.split("::", 2)[-1]), h.where())
        ck.floor(R, "writers_of_%s" % efs[0].split("::")[-1], writers, 1)
        # before anybody has called a setter the two copies are whatever their constructors say: the constant the
        # runtime's constructor puts into the cache must be the constant a fresh engine state starts with (a prewarmed
        # engine runs `main` with the engine's default; the swap then re-applies the cache's)
        def _ctor_const(field):
            adt, fname = field.rsplit("::", 1)
            adt = adt.rsplit("::", 1)[0]
            vals = []
            for h in lang.fns:
                if h.kind == "promoted" or "::test" in h.path:
                    continue
                for _, s2 in h.all_stmts():
                    if s2[KIND] == "a" and s2[5][0] == "agg" and s2[5][1][0] == "adt" and s2[5][1][1] == adt:
                        names = [x[0] for x in lang.adts[adt]["variants"][0]["f"]]
                        if fname in names and len(s2[5][2]) == len(names):
                            op = s2[5][2][names.index(fname)]
                            if op[0] == "c":
                                v = str(op[-1])
                                if op[1] == "f" and v.isdigit():
                                    import struct

                                    v = repr(struct.unpack("<d", struct.pack("<Q", int(v)))[0])
                                vals.append((v, h, s2))
            return vals
        cv, ev = _ctor_const(cache), _ctor_const(efs[0])
        ck.require(R, bool(cv) and bool(ev), "anchor|initial-%s" % cache.split("::")[-1], "constructors giving %s and %s their initial constants not found" % (cache, efs[0]))
        if cv and ev:
            key = "initial-setting|%s" % cache.split("::")[-1]
            if {v for v, _, _ in cv} == {v for v, _, _ in ev} and len({v for v, _, _ in cv}) == 1:
                ck.ok(R, key, {"cache_initial": cv[0][0], "engine_initial": ev[0][0]})
            else:
                ck.bad(R, key, "before any setter is called the runtime's cached %s is %s (%s) but a fresh engine state starts with %s (%s): globals evaluated by `main` on a fresh / prewarmed engine see one value, the swap then re-applies the other, and the VM's host default is the cache's — `let sr = samplerate` differs between back ends and changes at a swap" % (cache.split("::")[-1], cv[0][0], cv[0][1].short, ev[0][0], ev[0][1].short), ev[0][1].where(ev[0][2]))



def rule_wasm_install_whole(ck, facts):
    """what the swap installs into the new engine is the whole buffer it was given"""
    from ..facts import place_fields

    R = "C06.wasm"
    lang = facts.crate(roles.LANG)
    n = 0
    for f in lang.fns:
        if "::runtime::wasm" not in f.path or f.kind not in ("fn", "assoc") or "::test" in f.path:
            continue
        if not any(f.local_ty(i).replace(" ", "") in ("&[u64]", "&[runtime::RawVal]") for i in range(1, f.d["argc"] + 1)):
            continue
        touches = any(st[KIND] == "a" and any((x or "").endswith("global_state") or (x or "").endswith("StateStorage::data") or (x or "").endswith("::data") for pl in ([st[4]] + ([st[5][1]] if st[5][0] in ("ref",) else [])) for x in place_fields(pl)) for _, st in f.all_stmts())
        if not touches:
            continue
        n += 1
        partial = [t for _, t in f.calls() if (callee(t) or "").split("::")[-1].split("<")[0] in ("copy_from_slice", "clone_from_slice", "copy_within", "min", "truncate", "split_at_mut")]
        key = "install-whole|%s" % f.short.split("::")[-1]
        if partial:
            ck.bad(R, key, "%s writes the state words it is given into the storage the engine already has (`%s`) instead of installing them as the storage: the engine prepared for a swap has only run `main`, its storage is still empty (it is sized at the first dsp call), so nothing of the carried-over state reaches it and every cell restarts from zero" % (f.short, (callee(partial[0]) or "").split("::")[-1]), f.where(partial[0]))
        else:
            ck.ok(R, key, {"fn": f.short.split("::")[-1]})
    ck.floor(R, "state_installers", n, 1)


def run(ck, facts, tier):
    from . import c08

    rule_vm(ck, facts)
    rule_vm_fresh(ck, facts)
    rule_vm_carried(ck, facts)
    rule_vm_post_install(ck, facts)
    rule_wasm(ck, facts)
    rule_wasm_install_whole(ck, facts)
    c08.rule_apply(ck, facts)
    # only the converse clause is this property's: equal layouts keep the buffer (the forward clause is C07/C08's)
    c08.rule_fast_path(ck, facts, forward=False)
    # the CLI hands an unchanged program over with equal layouts and a whole-storage copy patch: the patch path and
    # the size of the buffer it reads from matter for this property too
    c08.rule_source_size(ck, facts)
    # "unchanged program" means compiled again from the same text: the order in which the compiler lays out state
    # cells must not depend on hash iteration order (equal-shaped cells compare equal, so a permuted layout is
    # copied verbatim and the cells continue with each other's state)
    from . import c15
    from ..callgraph import CallGraph

    cg = CallGraph(facts, ["mimium_lang", "state_tree"])
    roots = [p for p, f in cg.fns.items() if f.short.startswith("compiler::Context::emit_") and f.d["vis"] == "pub"]
    par = cg.reach(roots)
    c15.rule_hash_iteration(ck, facts, cg, par)
    ck.not_decided("sample-exact continuity across the swap; effects of re-running main (arrays, closures, delay write heads) — run-time histories")
