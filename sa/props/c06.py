"""C06 — hot-swapping an unchanged program is inaudible (flow rules on the no-change path of both runtimes)."""
from .. import roles
from ..cfg import DefIndex, dominators, reachable
from ..facts import KIND, callee, place_fields
from ..symex import PathLimit, SymEx, show

LEVEL = "other"
EXPLANATION = (
    "Flow rules on the no-change path of the hot swap, decided on MIR: (VM) in the function that builds the resumed machine, on "
    "the branch where no migration plan exists the new state buffer is a length-preserving copy (clone/to_vec) of the old "
    "machine's buffer and no slice-length-precondition copy is used; (WASM) the old state is snapshotted before the engine is "
    "replaced, on the equal-layout branch the next state is a clone of that snapshot, set_global_state_data is called on every "
    "path that reports success, and every runtime method that forwards per-engine settings to `self.engine` is called after the "
    "replacement so that it reaches the new engine; (shared) equality short-cut of the planner (C08.apply). Sample equality and "
    "the effect of re-running `main` are not decided."
)
LANG = roles.LANG


def rule_vm(ck, facts):
    R = "C06.vm"
    ck.rule(R, "resumed machine, no-plan branch: new rawdata = clone/to_vec of the old machine's rawdata; the swap function uses no copy with a slice-length precondition (copy_from_slice / clone_from_slice) on state buffers")
    lang = facts.crate(LANG)
    cands = [f for f in lang.fns if "::runtime::vm::" in f.path and f.kind == "assoc" and any((callee(t) or "").endswith("build_state_storage_patch_plan") for _, t in f.calls())]
    ck.require(R, len(cands) == 1, "anchor|resume", "expected one VM function calling build_state_storage_patch_plan, found %d" % len(cands))
    if len(cands) != 1:
        return
    f = cands[0]
    sx = SymEx(f, max_paths=64, max_steps=6000, facts=facts)
    try:
        paths = sx.run(0)
    except PathLimit:
        paths = sx.paths
    verdicts = []
    for p in paths:
        if p.end != "return":
            continue
        # which branch: disc(plan) cond
        plan_none = None
        for e in p.events:
            if e[0] == "cond" and e[1][0] == "disc" and "build_state_storage_patch_plan" in repr(e[1]):
                plan_none = (e[3] and e[2] == 0) or ((not e[3]) and 0 not in tuple(e[2]))
        stores = [e for e in p.events if e[0] == "store" and "StateStorage::rawdata" in repr(e[1])]
        if plan_none is None or not stores:
            continue
        val = stores[-1][2]
        if plan_none:
            ok = val[0] == "call" and val[1].split("::")[-1] in ("clone", "to_vec", "to_owned") and "StateStorage::rawdata" in repr(val[2]) and "('arg', 1)" in repr(val[2])
            verdicts.append(("none", ok, show(val)))
        else:
            ok = val[0] == "call" and val[1].endswith("apply_state_storage_patch_plan") and "('arg', 1)" in repr(val[2])
            verdicts.append(("plan", ok, show(val)))
    kinds = {k for k, _, _ in verdicts}
    ck.require(R, kinds == {"none", "plan"}, "anchor|branches", "could not find both the plan and the no-plan branch in %s (%s)" % (f.short, sorted(kinds)), f.where())
    for k, ok, txt in verdicts:
        key = "state-source|%s" % k
        if ok:
            ck.ok(R, key, {"branch": k, "new_rawdata": txt[:120]})
        else:
            ck.bad(R, key, "%s, %s branch: the new machine's state buffer is %s — not a length-preserving copy of the old machine's state%s" % (f.short, "no-plan" if k == "none" else "plan", txt[:140], "" if k == "none" else " through the migration plan"), f.where())
    pre = [t for _, t in f.calls() if (callee(t) or "").split("::")[-1] in ("copy_from_slice", "clone_from_slice", "copy_within")]
    if pre:
        ck.bad(R, "length-precondition|%s" % f.short, "%s copies state with %s, which panics unless both buffers already have the same length (the old machine's buffer is sized lazily on the first dsp call)" % (f.short, (callee(pre[0]) or "").split("::")[-1]), f.where(pre[0]))
    else:
        ck.ok(R, "length-precondition|none")


def rule_wasm(ck, facts):
    R = "C06.wasm"
    ck.rule(R, "WASM try_hot_swap: old state snapshot precedes the engine replacement; equal-layout branch clones the snapshot; every success path calls set_global_state_data; methods forwarding settings to self.engine are called after the replacement")
    lang = facts.crate(LANG)
    cands = [f for f in lang.fns if f.short.endswith("::try_hot_swap") and "wasm" in f.path]
    ck.require(R, len(cands) == 1, "anchor|try_hot_swap", "WASM try_hot_swap not found")
    if len(cands) != 1:
        return
    f = cands[0]
    dom = dominators(f)
    blocks = {}
    for b, t in f.calls():
        c = callee(t) or ""
        blocks.setdefault(c.split("::")[-1], []).append((b, t, c))
    rep = blocks.get("replace", [])
    snap = blocks.get("get_global_state_data", [])
    setg = blocks.get("set_global_state_data", [])
    ck.require(R, len(rep) == 1 and snap and setg, "anchor|swap-steps", "replace / snapshot / set_global_state_data calls not found in try_hot_swap")
    if not (len(rep) == 1 and snap and setg):
        return
    rb = rep[0][0]
    if all(sb in dom[rb] for sb, _, _ in snap):
        ck.ok(R, "snapshot-before-replace")
    else:
        ck.bad(R, "snapshot-before-replace", "the old engine's state is read after the engine has been replaced: the snapshot is the new engine's (prewarmed) state, not the running one", f.where(snap[0][1]))
    # every `true` return passes set_global_state_data
    sx = SymEx(f, max_paths=200, max_steps=12000, facts=facts)
    try:
        paths = sx.run(0)
    except PathLimit:
        paths = sx.paths
    n_true = 0
    bad_true = 0
    eq_paths = []
    for p in paths:
        if p.end != "return":
            continue
        r = p.env.get(0)
        if r == ("k", True, "bool"):
            n_true += 1
            sets = [e for e in p.events if e[0] == "call" and e[1].endswith("set_global_state_data")]
            if not sets:
                bad_true += 1
            else:
                arg = sets[-1][2][1]
                eq_paths.append((p, arg))
    if n_true and not bad_true:
        ck.ok(R, "success-sets-state", {"success_paths": n_true})
    else:
        ck.bad(R, "success-sets-state", "try_hot_swap can report success without installing a state buffer in the new engine (%d of %d paths)" % (bad_true, n_true), f.where())
    # equal-skeleton branch: next state = clone of the snapshot
    found = False
    for p, arg in eq_paths:
        conds = [e for e in p.events if e[0] == "cond" and e[1][0] == "call" and e[1][1].endswith("::eq") and "skeleton" in repr(e[1][2]).lower()]
        equal = any((c[3] and c[2] == 1) or ((not c[3]) and tuple(c[2]) == (0,)) for c in conds)
        if not equal:
            continue
        applied = any(e[0] == "call" and e[1].endswith("apply_patches") for e in p.events)
        if applied:
            continue
        found = True
        txt = repr(arg)
        if "clone" in txt and "get_global_state_data" in txt:
            ck.ok(R, "equal-layout-copies-snapshot", {"state": show(arg)[:140]})
        else:
            ck.bad(R, "equal-layout-copies-snapshot", "on the equal-layout branch the state installed in the new engine is %s, not a copy of the old engine's snapshot" % show(arg)[:160], f.where())
        break
    ck.require(R, found, "anchor|equal-layout-branch", "equal-layout branch of try_hot_swap not found")
    # forwarding methods after replace
    self_ty = f.d.get("self_ty", "")
    n = 0
    for b, t in f.calls():
        c = callee(t) or ""
        g = facts.fn(c)
        if g is None or g.d.get("self_ty", "") != self_ty or g.path == f.path:
            continue
        touches_engine = any(fl and fl.endswith("::engine") for _, s in g.all_stmts() if s[KIND] == "a" for pl in ([s[5][1]] if s[5][0] in ("ref", "raw") else []) + [s[4]] for fl in place_fields(pl))
        if not touches_engine:
            continue
        n += 1
        name = c.split("::")[-1]
        if rb in dom[b]:
            ck.ok(R, "after-replace|%s" % name, {"method": name})
        else:
            ck.bad(R, "after-replace|%s" % name, "try_hot_swap calls %s (which forwards a setting to self.engine) before the engine is replaced: the setting reaches the outgoing engine and the new engine keeps its default" % name, f.where(t))
    ck.floor(R, "engine_forwarding_calls", n, 1)


def run(ck, facts, tier):
    from . import c08

    rule_vm(ck, facts)
    rule_wasm(ck, facts)
    c08.rule_apply(ck, facts)
    # only the converse clause is this property's: equal layouts keep the buffer (the forward clause is C07/C08's)
    c08.rule_fast_path(ck, facts, forward=False)
    ck.not_decided("sample-exact continuity across the swap; effects of re-running main (arrays, closures, delay write heads) — run-time histories")
