"""C01.bounds / C03.bounds (E3) — bounded encodings.

 (a) every integer narrowing (or float->int) cast in the bytecode generator whose result is an operand encoding
     (u8/u16/i16/i8 targets: GlobalPos, Reg, ConstPos, Offset, TypeTableIndex) must be range-checked: the source is a
     constant in range, comes from a type that fits, is reduced (min/clamp/rem/mask) or a comparison of the source
     value dominates the cast;
 (b) the f64 -> f16 literal encoding must be guarded by *exact* round-trip equality;
 (c) every bump allocator over a fixed linear-memory region in the WASM generator (a field that is only ever
     advanced by `+=`) must be compared with the end of its region somewhere in the generator;
 (d) an `unwrap`/`expect` on the result of a checked narrowing (`try_from`, `try_into`) in the generator is an
     unchecked narrowing in disguise (it panics instead of refusing)."""
from ..cfg import DefIndex, dominators
from ..facts import KIND, callee, const_float, const_int, place_fields
from .. import roles

W = {"u8": 8, "i8": 8, "u16": 16, "i16": 16, "u32": 32, "i32": 32, "u64": 64, "i64": 64, "usize": 64, "isize": 64, "u128": 128, "i128": 128, "bool": 1, "char": 32}
ENC_TARGETS = ("u8", "i8", "u16", "i16")


def rng(ty):
    w = W[ty]
    if ty == "bool":
        return (0, 1)
    if ty.startswith("i"):
        return (-(1 << (w - 1)), (1 << (w - 1)) - 1)
    return (0, (1 << w) - 1)


def fits(src_ty, dst_ty):
    if src_ty not in W or dst_ty not in W:
        return False
    a, b = rng(src_ty), rng(dst_ty)
    return a[0] >= b[0] and a[1] <= b[1]


class Origin:
    def __init__(self, kind, desc, safe, aliases):
        self.kind = kind
        self.desc = desc
        self.safe = safe
        self.aliases = aliases  # locals holding (a widening of) the same value


def origin(fn, di, op, target, names):
    """follow copies and casts backwards from the cast operand"""
    aliases = set()
    cur = op
    for _ in range(16):
        if cur[0] == "c":
            v = const_int(cur)
            if v is not None:
                lo, hi = rng(target)
                return Origin("const", str(v), lo <= v <= hi, aliases)
            return Origin("const", "const", False, aliases)
        pl = cur[1]
        if pl[1]:
            flds = place_fields(pl)
            ty = None
            return Origin("place", (flds[-1].split("::")[-1] if flds and flds[-1] else "proj"), False, aliases)
        l = pl[0]
        aliases.add(l)
        if fits(fn.local_ty(l), target):
            return Origin("fits", fn.local_ty(l), True, aliases)
        ds = di.defs.get(l, [])
        if 1 <= l <= fn.d["argc"] and not ds:
            return Origin("arg", names.get(l, "arg%d" % l), False, aliases)
        if len(ds) != 1:
            return Origin("multi", names.get(l, "_%d" % l), False, aliases)
        b, i, s = ds[0]
        if i is None:
            c = (callee(s) or "<fnptr>")
            short = c.split("::")[-1]
            safe = False
            if short in ("min", "clamp") or short.startswith(("checked_", "saturating_")):
                # reduced against something; only constant bounds in range count
                for a in s[5]:
                    v = const_int(a)
                    if v is not None and rng(target)[0] <= v <= rng(target)[1]:
                        safe = True
            return Origin("call", short, safe, aliases)
        rv = s[5]
        if rv[0] == "use":
            cur = rv[1]
            continue
        if rv[0] == "cast":
            if fits(rv[3], target):
                return Origin("fits", rv[3], True, aliases)
            cur = rv[2]
            continue
        if rv[0] == "bin" and rv[1] in ("rem", "and"):
            v = const_int(rv[3])
            if v is not None and 0 <= v <= rng(target)[1] + (1 if rv[1] == "rem" else 0):
                return Origin("reduced", "%s %d" % (rv[1], v), True, aliases)
        if rv[0] == "bin":
            return Origin("arith", rv[1], False, aliases)
        if rv[0] == "un" and rv[1] == "ptrmeta":
            return Origin("len", "len", False, aliases)
        return Origin(rv[0], rv[0], False, aliases)
    return Origin("deep", "deep", False, aliases)


def has_dominating_compare(fn, dom, b, aliases, di):
    """a comparison of one of `aliases` (same value) whose result drives a switch in a block dominating b"""
    for d in dom.get(b, ()):
        if d == b:
            continue
        blk = fn.bb[d]
        t = blk["t"]
        if t[KIND] != "switch":
            continue
        for s in blk["s"]:
            if s[KIND] == "a" and s[5][0] == "bin" and s[5][1] in ("lt", "le", "gt", "ge"):
                for o in (s[5][2], s[5][3]):
                    if o[0] in ("cp", "mv") and not o[1][1]:
                        l = o[1][0]
                        if l in aliases:
                            return True
                        # one copy step
                        dd = di.single_def(l)
                        if dd and dd[1] is not None and dd[2][5][0] == "use":
                            oo = dd[2][5][1]
                            if oo[0] in ("cp", "mv") and not oo[1][1] and oo[1][0] in aliases:
                                return True
    return False


def narrowing_sites(fn):
    out = []
    for b, blk in enumerate(fn.bb):
        if blk["c"]:
            continue
        for s in blk["s"]:
            if s[KIND] == "a" and s[5][0] == "cast" and s[5][1] in ("IntToInt", "FloatToInt"):
                fr, to = s[5][3], s[5][4]
                if to in ENC_TARGETS and not fits(fr, to):
                    out.append((b, s))
    return out


def rule_casts(ck, facts, R, module_mark, label):
    lang = facts.crate(roles.LANG)
    total = 0
    guarded = 0
    groups = {}
    for fn in lang.fns:
        if module_mark not in fn.path or roles.is_derived(fn) or fn.kind == "promoted":
            continue
        sites = narrowing_sites(fn)
        if not sites:
            continue
        di = DefIndex(fn)
        dom = None
        names = fn.dbg_names()
        for b, s in sites:
            total += 1
            if s[1] and any(m.startswith("debug_assert") for m in s[1]):
                continue
            fr, to = s[5][3], s[5][4]
            org = origin(fn, di, s[5][2], to, names)
            ok = org.safe
            if not ok:
                dom = dom or dominators(fn)
                ok = has_dominating_compare(fn, dom, b, org.aliases, di)
                if ok:
                    org.kind = "guarded"
            if ok:
                guarded += 1
                ck.ok(R, "cast|%s|%s->%s|%s" % (fn.short, fr, to, org.kind), {"fn": fn.short, "cast": "%s as %s" % (fr, to), "why_safe": "%s %s" % (org.kind, org.desc), "at": fn.where(s)})
            else:
                # the enclosing named function (closures are keyed under their root so that closure renumbering
                # does not change keys)
                # keyed by the type whose code casts (methods) or the module (free functions), the cast and the kind
                # of its source; function names, closure numbers and the names of locals do not enter the key
                from .c03_unsafe import _owner

                root = _owner(facts, fn)
                key = "cast|%s|%s->%s|%s" % (root, fr, to, ("call:%s" % org.desc) if org.kind == "call" else org.kind)
                groups.setdefault(key, []).append((fn, s))
    for key, lst in sorted(groups.items()):
        fn, s = lst[0]
        k = "%s|x%d" % (key, len(lst))
        ck.bad(
            R,
            k,
            "%s: %d unchecked narrowing cast(s) `%s as %s` of %s into an operand encoding in %s (a value above %d is silently truncated)"
            % (label, len(lst), s[5][3], s[5][4], key.rsplit("|", 1)[1], fn.short, rng(s[5][4])[1]),
            ", ".join(f.where(x) for f, x in lst[:6]),
        )
    ck.setcount("%s_narrowing_casts" % label, total)
    ck.setcount("%s_narrowing_casts_guarded" % label, guarded)
    return total


def rule_literal_fidelity(ck, facts, R):
    """the lossy f64 -> half conversion used for inline float literals must accept only exact round trips"""
    lang = facts.crate(roles.LANG)
    cands = [
        f
        for f in lang.fns
        if f.d.get("trait", "").endswith("convert::TryFrom") and "f16" in " ".join(f.d["locals"]) and f.local_ty(1) == "f64"
    ]
    ck.require(R, len(cands) >= 1, "anchor|f64->f16 TryFrom", "no TryFrom<f64> impl producing a half float found (the literal-fidelity rule would be vacuous)")
    for f in cands:
        di = DefIndex(f)
        verdict = None
        for b, blk in enumerate(f.bb):
            t = blk["t"]
            if blk["c"] or t[KIND] != "switch":
                continue
            r = di.resolve(t[4])
            if r[0] == "rv" and r[1][5][0] == "bin":
                op = r[1][5][1]
                c = const_float(r[1][5][3])
                if op in ("lt", "le", "gt", "ge"):
                    verdict = ("tolerance", op, c, f.where(t))
                elif op in ("eq", "ne"):
                    # the comparison must be made at full width against the value that was passed in: a test of
                    # `value as f32` (or of any other narrowed copy) accepts every literal whose *rounded* value is
                    # representable
                    ops = r[1][5][2:4]
                    against_arg = any(o[0] in ("cp", "mv") and di.resolve(o) == ("arg", 1) for o in ops)
                    wide = r[1][5][4] == "f64" if len(r[1][5]) > 4 else all(o[0] != "c" and f.local_ty(o[1][0]) == "f64" for o in ops)
                    verdict = ("exact" if (against_arg and wide) else "narrowed", op, c, f.where(t))
        key = "literal-fidelity|%s" % f.short
        if verdict and verdict[0] == "exact":
            ck.ok(R, key, {"fn": f.short, "test": verdict[1]})
        elif verdict and verdict[0] == "narrowed":
            ck.bad(R, key, "%s tests the round trip on a narrowed copy of the literal (the equality does not compare the f64 argument itself at f64 width): a literal whose single-precision rounding happens to be representable is inlined with the rounded value, so it changes value on the VM only" % f.short, verdict[3])
        elif verdict:
            ck.bad(R, key, "%s accepts a lossy conversion: the round-trip error is tested with `%s %r` instead of exact equality, so an inline literal can change value on the VM only" % (f.short, verdict[1], verdict[2]), verdict[3])
        else:
            ck.bad(R, key, "%s: no round-trip test found guarding the Ok result" % f.short, f.where())


def rule_checked_unwrap(ck, facts, R, module_mark):
    """try_from(..).unwrap() on a narrowing inside the generator"""
    lang = facts.crate(roles.LANG)
    n = 0
    for fn in lang.fns:
        if module_mark not in fn.path or roles.is_derived(fn) or fn.kind == "promoted":
            continue
        di = None
        for b, t in fn.calls():
            c = callee(t) or ""
            if not (c.endswith("::unwrap") or c.endswith("::expect")):
                continue
            di = di or DefIndex(fn)
            r = di.resolve(t[5][0])
            if r[0] != "call":
                continue
            cc = callee(r[1]) or ""
            cd = r[1][4].get("def", "")
            if cd.endswith("TryFrom::try_from") or cd.endswith("TryInto::try_into"):
                n += 1
                root = fn.root.split("::", 1)[1]
                tgt = (r[1][4].get("a0") or "?")
                ck.bad(R, "checked-unwrap|%s|%s" % (root, tgt.split("::")[-1]), "%s unwraps a checked conversion to %s: an out-of-range value panics the compiler instead of being encoded another way or refused" % (fn.short, tgt), fn.where(t))
    ck.setcount("checked_conversion_unwraps", n)


def rule_bump_allocators(ck, facts, R):
    """fields of the wasm generator's memory layout that are only ever advanced must be compared with a limit"""
    lang = facts.crate(roles.LANG)
    writes = {}  # field -> [(fn, stmt, kind)]
    compares = {}
    reads = {}
    for fn in lang.fns:
        if "::compiler::wasmgen" not in fn.path or roles.is_derived(fn) or fn.kind == "promoted":
            continue
        di = None
        for b, s in fn.all_stmts():
            if s[KIND] != "a":
                continue
            flds = place_fields(s[4])
            if flds and flds[-1] and "MemoryLayout::" in flds[-1]:
                rv = s[5]
                di = di or DefIndex(fn)
                kind = "set"
                # x = move tmp ; tmp = add_ov(x, n).0  => advance
                src = rv
                if rv[0] == "use" and rv[1][0] in ("cp", "mv"):
                    p = rv[1][1]
                    d = di.single_def(p[0])
                    if d and d[1] is not None:
                        src = d[2][5]
                if src[0] == "bin" and src[1].startswith("add"):
                    kind = "advance"
                writes.setdefault(flds[-1], []).append((fn, s, kind))
            # reads used in comparisons
            rv = s[5]
            if rv[0] == "bin" and rv[1] in ("lt", "le", "gt", "ge"):
                di = di or DefIndex(fn)
                for o in (rv[2], rv[3]):
                    r = di.resolve(o)
                    if r[0] == "place":
                        f2 = place_fields(r[1])
                        if f2 and f2[-1] and "MemoryLayout::" in f2[-1]:
                            compares.setdefault(f2[-1], []).append((fn, s))
    ck.floor(R, "wasm_memory_layout_fields_written", len(writes), 3)
    # "sized-from": the final value of the allocator determines the size of the linear memory
    sizers = set()
    mem_builders = [f for f in lang.fns if "::compiler::wasmgen" in f.path and roles.constructs_adt(f, "wasm_encoder::core::memories::MemoryType") + roles.constructs_adt(f, "wasm_encoder::MemoryType") > 0]
    mem_callees = set()
    for f in mem_builders:
        mem_callees.add(f.path)
        for b, t in f.calls():
            c = callee(t)
            if c:
                mem_callees.add(c)
    for fn in lang.fns:
        if fn.path not in mem_callees:
            continue
        for b, s in fn.all_stmts():
            if s[KIND] == "a" and s[5][0] == "use" and s[5][1][0] in ("cp", "mv"):
                f2 = place_fields(s[5][1][1])
                if f2 and f2[-1] and "MemoryLayout::" in f2[-1]:
                    sizers.add(f2[-1])
    # a region is named by where it starts (the constant its allocator is initialised with), not by the field's name
    starts = {}
    for fn in lang.fns:
        if "compiler::wasmgen" not in fn.path or fn.kind == "promoted":
            continue
        for b, s in fn.all_stmts():
            if s[KIND] == "a" and s[5][0] == "agg" and s[5][1][0] == "adt" and s[5][1][1].endswith("::MemoryLayout"):
                adt_ = facts.adt(s[5][1][1]) or {}
                fl_ = (adt_.get("variants") or [{"f": []}])[0]["f"]
                di_ = DefIndex(fn)
                for i_, o in enumerate(s[5][2]):
                    r_ = ("const", o) if o[0] == "c" else di_.resolve(o)
                    if r_[0] == "const" and i_ < len(fl_) and len(r_[1]) > 3 and r_[1][1] == "i":
                        starts[fl_[i_][0]] = r_[1][3]
    for fld, ws in sorted(writes.items()):
        adv = [w for w in ws if w[2] == "advance"]
        if not adv:
            continue
        name = fld.split("::")[-1]
        name = ("region@%s" % starts[name]) if name in starts else name
        if fld in sizers:
            ck.ok(R, "bump|%s" % name, {"field": fld, "advance_sites": len(adv), "bounded_by": "the linear memory is sized from its final value"})
        elif compares.get(fld):
            ck.ok(R, "bump|%s" % name, {"field": fld, "advance_sites": len(adv), "compared_in": compares[fld][0][0].short})
        else:
            ck.bad(
                R,
                "bump|%s" % name,
                "bump allocator %s is advanced at %d site(s) (e.g. %s) but never compared with the end of its linear-memory region: a program that allocates more than the region holds overlaps the next region silently"
                % (name, len(adv), adv[0][0].short),
                ", ".join(sorted({f.where(s) for f, s, _ in adv})[:5]),
            )


def _closures_in(e, out):
    if isinstance(e, tuple):
        if e and e[0] == "agg" and isinstance(e[1], str) and e[1].startswith("closure:"):
            out.append(e[1][len("closure:"):])
        for x in e:
            _closures_in(x, out)


def rule_region_alloc(ck, facts, R):
    """the register allocator of the bytecode generator places a new value after every live region"""
    from ..symex import PathLimit, SymEx, show

    lang = facts.crate(roles.LANG)
    n = 0
    for f in lang.fns:
        if "::compiler::bytecodegen" not in f.path or f.kind == "promoted":
            continue
        if not any(s[KIND] == "a" and s[5][0] == "agg" and s[5][1][0] == "adt" and s[5][1][1].endswith("::MemoryRegion") for _, s in f.all_stmts()):
            continue
        sx = SymEx(f, max_paths=32, facts=facts)
        try:
            paths = sx.run(0)
        except PathLimit:
            paths = sx.paths
        regions = []
        for p in paths:
            for e in p.events:
                if e[0] == "call" and e[1].split("::")[-1] == "insert":
                    for a in e[2]:
                        if a[0] == "agg" and str(a[1]).endswith("::MemoryRegion") and len(a[2]) == 2:
                            regions.append(a)
        seen = set()
        for a in regions:
            if repr(a) in seen:
                continue
            seen.add(repr(a))
            cls = []
            _closures_in(a[2][0], cls)
            if not cls or not any(m in repr(a[2][0]) for m in ("::max_by_key", "::max'", "::max_by", "::fold", "::last")):
                continue  # an address given by the caller / an alias into an existing region (GetElement)
            n += 1
            key = "region-alloc|%s" % f.short.split("::")[-1]
            bad = None
            for cp in cls:
                g = facts.fn(cp)
                if g is None:
                    bad = "closure %s not found" % cp
                    break
                sg = SymEx(g, max_paths=16, facts=facts)
                try:
                    gp = sg.run(0)
                except PathLimit:
                    gp = sg.paths
                rets = [q.env.get(0) for q in gp if q.end == "return"]
                for r0 in rets:
                    txt = repr(r0)
                    # address + size of the same region (checked add: `.0` of an add-with-overflow is the sum)
                    if not ("MemoryRegion::0" in txt and "MemoryRegion::1" in txt and ("'add" in txt or "::add'" in txt)):
                        bad = "%s yields %s" % (g.short.split("::")[-1], show(r0)[:80])
            if bad:
                ck.bad(R, key, "%s: the address of a newly allocated register region is not the largest `address + size` of the live regions (%s): a one-word value can be placed inside a live multi-word value (a tuple, a record), whose words it then overwrites" % (f.short, bad), f.where())
            else:
                ck.ok(R, key, {"fn": f.short, "closures": len(cls)})
    ck.floor(R, "register_region_allocations", n, 2)


def run(ck, facts, cg, anchors, tier, pid, literal=True):
    R = "%s.bounds" % pid
    ck.rule(
        R,
        "every narrowing cast to an operand-encoding type (u8/i8/u16/i16) in the bytecode generator is range-checked "
        "(constant in range, source type fits, reduced, or a dominating comparison of the same value); the f64->f16 "
        "literal encoding accepts only exact round trips; bump allocators of the wasm memory layout are compared with a limit; "
        "no unwrap of a checked narrowing",
    )
    n = rule_casts(ck, facts, R, "::compiler::bytecodegen", "bytecodegen")
    ck.floor(R, "bytecodegen_narrowing_casts_found", n, 20)
    if literal:
        rule_literal_fidelity(ck, facts, R)
    rule_checked_unwrap(ck, facts, R, "::compiler::bytecodegen")
    rule_bump_allocators(ck, facts, R)
    rule_region_alloc(ck, facts, R)
