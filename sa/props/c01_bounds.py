def run(ck, facts, cg, anchors, tier, pid):
    pass
