"""C08 — state migration plans are well-formed (construction-site discipline of the diff in `state-tree`)."""
from .. import roles
from ..callgraph import CallGraph
from ..cfg import DefIndex, dominators, natural_loops, reachable
from ..facts import KIND, callee, callee_def, const_int, place_fields
from ..rules import cover
from ..symex import PathLimit, SymEx, show

LEVEL = "other"
EXPLANATION = (
    "Static construction-site discipline of the state-tree diff: copy patches are built in exactly one place, only under the "
    "shape-equality predicate and from the two path_to_address results; the shape predicate is true only on the diagonal of "
    "node kinds and compares both payloads; the LCS table recurrence reads exactly its three canonical predecessors and the "
    "backtrack consumes (old,new) indices as Common(-1,-1)/Insert(0,-1)/Delete(-1,0) with matching payloads; the destination "
    "buffer is a fresh zeroed vector of the new total size; identical layouts return no plan before any diffing. "
    "The optimality clause ('every surviving subtree is carried over') is decided only as far as these necessary conditions."
)
ST = "state_tree"
PATCH = "state_tree::patch::CopyFromPatch"
SKEL = "state_tree::tree::StateTreeSkeleton"
DIFFRES = "state_tree::tree_diff::DiffResult"


def fns(facts):
    # hand-written PartialEq impls are part of the diff's contract (the no-change fast path uses ==); only derives are skipped
    return [f for f in facts.crate(ST).fns if not roles.is_derived(f) or " as std::cmp::PartialEq>::eq" in f.path]



def _st_callees(facts, path):
    """state-tree functions called from `path` and its closures"""
    out = set()
    for g in facts.family(ST, path):
        for _, t in g.calls():
            c = callee(t) or ""
            h = facts.fn(c) if c.startswith(ST + "::") else None
            if h is not None:
                out.add(h.root)
    return out


def reaches_itself(facts, path):
    """is the function recursive, directly or through helpers of the crate (an extracted loop, a phase split off)?"""
    seen = set()
    work = list(_st_callees(facts, path))
    while work:
        p = work.pop()
        if p == path:
            return True
        if p in seen:
            continue
        seen.add(p)
        work.extend(_st_callees(facts, p))
    return False


def recursion_members(facts, path):
    """the function, the helpers on its recursion cycle, and all their closures"""
    mem = {path}
    for p in _st_callees(facts, path):
        if p != path and (path in _st_callees(facts, p) or any(path in _st_callees(facts, q) for q in _st_callees(facts, p))):
            mem.add(p)
    out = []
    for p in sorted(mem):
        out.extend(facts.family(ST, p))
    return out


def constructions(fs, adt):
    out = []
    for f in fs:
        for b, s in f.all_stmts():
            if s[KIND] == "a" and s[5][0] == "agg" and s[5][1][0] == "adt" and s[5][1][1] == adt:
                out.append((f, b, s))
    return out


def rule_patch_sites(ck, facts):
    R = "C08.patch-sites"
    ck.rule(R, "CopyFromPatch is constructed only in the recursive diff, in a block dominated by the true edge of the shape-equality predicate, with src/dst/size taken from path_to_address of the old resp. new skeleton")
    fs = fns(facts)
    sites = constructions(fs, PATCH)
    ck.floor(R, "copy_patch_construction_sites", len(sites), 1)
    # role: the recursive diff = the function that calls itself and constructs the patch
    for f, b, s in sites:
        root = facts.fn(f.root) or f
        selfrec = reaches_itself(facts, root.path)
        key = "site|%s" % root.short
        if not selfrec:
            ck.bad(R, key, "CopyFromPatch is constructed in %s, which is not the recursive tree diff: a copy that is not justified by a shape match of two subtrees" % f.short, f.where(s))
            continue
        # dominated by predicate true edge
        dom = dominators(f)
        di = DefIndex(f)
        guarded = None
        for d in dom[b]:
            t = f.term(d)
            if t[KIND] != "switch":
                continue
            r = di.resolve(t[4])
            if r[0] == "call":
                cn = callee(r[1]) or ""
                if cn.startswith("state_tree::") and f.local_ty(r[1][6][0]) == "bool":
                    # true edge = otherwise (switch on bool lists value 0)
                    false_targets = [tb for v, tb in t[6] if v == "0"]
                    true_target = t[7]
                    if b in reachable(f, true_target, avoid=false_targets) and b not in reachable(f, false_targets[0], avoid=[true_target]) if false_targets else False:
                        guarded = (cn, r[1])
        if not guarded:
            ck.bad(R, key + "|unguarded", "%s constructs CopyFromPatch on a path that is not dominated by the true branch of the shape predicate" % f.short, f.where(s))
            continue
        pred_name, pred_call = guarded
        # the fields: src_addr, dst_addr, size <- (path_to_address(old..)).0 , (path_to_address(new..)).0 , .1
        sx = SymEx(f, max_paths=64, max_steps=3000, facts=facts)
        try:
            paths = sx.run(0, stop_blocks=[b])
        except PathLimit:
            paths = sx.paths
        ok_paths = 0
        for p in paths:
            if p.end != "stop":
                continue
            # evaluate the statements of the block up to the aggregate, then its operands, in this path's env
            for st in f.stmts(b):
                if st is s:
                    break
                if st[KIND] == "a":
                    sx.assign(p, st[4], sx.rvalue(p, st[5]))
            ops = [sx.operand(p, o) for o in s[5][2]]
            srcs = []
            for o in ops:
                txt = show(o, 0)
                srcs.append(o)
            def origin(e):
                # find path_to_address call inside and which receiver arg it has, and the tuple field index
                fld = None
                x = e
                while True:
                    if x[0] == "fld" and isinstance(x[2], int):
                        fld = x[2] if fld is None else fld
                        x = x[1]
                    elif x[0] in ("down", "deref", "ref"):
                        x = x[1]
                    elif x[0] == "call" and x[1].endswith(("::expect", "::unwrap")):
                        x = x[2][0]
                    elif x[0] == "call" and x[1].endswith("path_to_address"):
                        recv = x[2][0]
                        while recv[0] in ("ref", "deref"):
                            recv = recv[1]
                        return (recv, fld)
                    else:
                        return None
            o = [origin(x) for x in ops]
            if all(o) and len(o) == 3:
                ok_paths += 1
                (r0, f0), (r1, f1), (r2, f2) = o
                names = [f0, f1, f2]
                # field order of the struct: src_addr, dst_addr, size
                good = r0 == ("arg", 1) and r1 == ("arg", 2) and f0 == 0 and f1 == 0 and f2 == 1 and r2 in (("arg", 1), ("arg", 2))
                if good:
                    ck.ok(R, key, {"fn": f.short, "guard": pred_name.split("::")[-1], "src": "path_to_address(old).0", "dst": "path_to_address(new).0", "size": "path_to_address(..).1"})
                else:
                    ck.bad(R, key + "|fields", "%s fills CopyFromPatch{src_addr,dst_addr,size} from %s (expected old.addr, new.addr, size)" % (f.short, [(show(r), i) for r, i in o]), f.where(s))
                break
        if not ok_paths:
            ck.bad(R, key + "|fields", "%s: the fields of CopyFromPatch do not come from path_to_address results" % f.short, f.where(s))
        # the predicate is applied to the nodes found at the same two paths
        ck.note("patch construction in %s guarded by %s" % (f.short, pred_name))


def rule_predicate(ck, facts):
    R = "C08.shape-predicate"
    ck.rule(R, "the shape-equality predicate returns a constant false for every pair of different node kinds and, for every kind, a comparison that involves the payloads of both nodes")
    # role: fn(&Skel,&Skel)->bool in tree_diff that switches on discriminants of both args
    cands = []
    for f in fns(facts):
        if f.d["argc"] == 2 and f.local_ty(0) == "bool" and f.kind in ("fn", "assoc") and "StateTreeSkeleton" in f.local_ty(1) and "StateTreeSkeleton" in f.local_ty(2):
            if len(cover.enum_switches(f, SKEL)) >= 2:
                cands.append(f)
    ck.require(R, len(cands) >= 2, "anchor|shape-predicate", "no fn(&StateTreeSkeleton,&StateTreeSkeleton)->bool switching on both kinds found in tree_diff")
    adt = facts.adt(SKEL)
    for f in cands:
        sx = SymEx(f, max_paths=128, facts=facts)
        try:
            paths = sx.run(0)
        except PathLimit as e:
            ck.bad(R, "unanalysable|%s" % f.short, "shape predicate too large to analyse: %s" % e, f.where())
            continue
        kinds = {v["d"]: v["n"] for v in adt["variants"]}
        seen = {}
        zipped = {}
        for p in paths:
            if p.end != "return":
                continue
            k1 = k2 = None
            for c, v, pos in p.conds:
                if c[0] == "disc" and pos:
                    base = c[1]
                    while base[0] in ("deref", "ref"):
                        base = base[1]
                    if base == ("arg", 1):
                        k1 = kinds.get(str(v))
                    elif base == ("arg", 2):
                        k2 = kinds.get(str(v))
            ret = p.env.get(0)
            seen.setdefault((k1, k2), []).append(ret)
            if ret is not None and ret[0] != "k" and "::zip" in repr(ret) and "::len" not in repr(ret) and not any("len" in repr(c) for c, _, _ in p.conds):
                zipped.setdefault((k1, k2), []).append(ret)
        diag = 0
        for (k1, k2), rets in sorted(seen.items(), key=str):
            if k1 is None:
                continue
            if k2 is None or k1 != k2:
                for r in rets:
                    if not (r and r[0] == "k" and r[1] is False):
                        ck.bad(R, "offdiag|%s|%s" % (k1, k2), "%s can return non-false for nodes of different kinds (%s vs %s): %s" % (f.short, k1, k2, show(r) if r else r), f.where())
                        break
                else:
                    ck.ok(R, "offdiag|%s|%s" % (k1, k2))
            else:
                diag += 1
                good = False
                for r in rets:
                    if r is None:
                        continue
                    txt = repr(r)
                    if r[0] == "k":
                        continue
                    # must mention payloads of both args
                    if "('arg', 1)" in txt and "('arg', 2)" in txt:
                        good = True
                prefix = zipped.get((k1, k2), [])
                if good and prefix:
                    ck.bad(R, "diag|%s|prefix" % k1, "%s: two %s nodes are compared element by element over `zip` without comparing the lengths (%s): a child list that is a prefix of the other compares equal, so a layout that gained or lost cells at the tail of a call is taken for unchanged and the old buffer is kept verbatim" % (f.short, k1, show(prefix[0])[:80]), f.where())
                elif good:
                    ck.ok(R, "diag|%s" % k1, {"kind": k1, "result": [show(r) for r in rets if r][:2]})
                else:
                    ck.bad(R, "diag|%s" % k1, "%s: for two %s nodes the result %s does not compare the payloads of both nodes" % (f.short, k1, [show(r) for r in rets if r][:2]), f.where())
        ck.floor(R, "node_kinds_on_diagonal", diag, len(adt["variants"]))


def _idx(e):
    """(symbol, offset) of an index expression"""
    if e[0] == "fld" and e[2] == 0 and e[1][0] == "bin" and e[1][1] in ("sub_ov", "add_ov") and e[1][3][0] == "k":
        s, o = _idx(e[1][2])
        return (s, o - e[1][3][1] if e[1][1] == "sub_ov" else o + e[1][3][1])
    if e[0] == "bin" and e[1] in ("sub", "add") and e[3][0] == "k":
        s, o = _idx(e[2])
        return (s, o - e[3][1] if e[1] == "sub" else o + e[3][1])
    return (e, 0)


def _cell(e):
    """((rowsym,off),(colsym,off)) if e is table[row][col] (value or place), else None"""
    x = e
    while x[0] in ("deref", "ref"):
        x = x[1]
    if x[0] == "call" and x[1].endswith(("::index", "::index_mut")) and len(x[2]) == 2:
        inner = x[2][0]
        while inner[0] in ("deref", "ref"):
            inner = inner[1]
        if inner[0] == "call" and inner[1].endswith(("::index", "::index_mut")) and len(inner[2]) == 2:
            return (_idx(inner[2][1]), _idx(x[2][1]))
    return None


def _flatten_max(e):
    if e[0] == "call" and e[1].endswith("::max") and len(e[2]) == 2:
        return _flatten_max(e[2][0]) + _flatten_max(e[2][1])
    return [e]


def rule_lcs(ck, facts):
    R = "C08.lcs"
    ck.rule(R, "LCS table: cell(i,j) = max(cell(i-1,j), cell(i,j-1)) and, when the pair scores > 0, also cell(i-1,j-1)+score; backtrack: Common moves (-1,-1) with payload (i-1,j-1), Insert (0,-1) with j-1, Delete (-1,0) with i-1, one result per iteration")
    cands = [f for f in fns(facts) if f.kind == "fn" and constructions([f], DIFFRES)]
    ck.require(R, len(cands) == 1, "anchor|lcs", "expected exactly one function constructing DiffResult values, found %d" % len(cands))
    if len(cands) != 1:
        return
    f = cands[0]
    loops = natural_loops(f)
    ck.floor(R, "loops_in_lcs", len(loops), 3)
    # ---- the fill loop: the innermost loop containing stores through index_mut(index_mut(..))
    fill = None
    for h, body in sorted(loops, key=lambda l: len(l[1])):
        has_store = any(
            s[KIND] == "a" and s[4][1] == ["*"] for b in body for s in f.stmts(b)
        ) and any((callee(f.term(b)) or "").endswith("::index_mut") for b in body if f.term(b)[KIND] == "call")
        if has_store:
            fill = (h, body)
            break
    ck.require(R, fill is not None, "anchor|fill-loop", "no loop writing the DP table found in %s" % f.short)
    if fill:
        h, body = fill
        sx = SymEx(f, max_paths=32, facts=facts)
        try:
            paths = sx.run(h, stop_blocks=[])
        except PathLimit:
            paths = sx.paths
        recs = []
        for p in paths:
            if p.end != "loop" or p.end_block != h:
                continue
            stores = [e for e in p.events if e[0] == "store" and _cell(e[1])]
            if len(stores) != 1:
                continue
            tgt = _cell(stores[0][1])
            (rs, ro), (cs, co) = tgt
            terms = set()
            for t in _flatten_max(stores[0][2]):
                c = _cell(t)
                if c and c[0][0] == rs and c[1][0] == cs:
                    terms.add((c[0][1] - ro, c[1][1] - co, False))
                elif t[0] == "bin" and t[1] == "add":
                    c = _cell(t[2]) or _cell(t[3])
                    if c and c[0][0] == rs and c[1][0] == cs:
                        terms.add((c[0][1] - ro, c[1][1] - co, True))
                    else:
                        terms.add(("?", show(t), False))
                else:
                    terms.add(("?", show(t), False))
            scored = any(c[0] == "bin" and c[1] == "gt" and pos is False for c, v, pos in p.conds) or any(c[0] == "bin" and c[1] == "gt" and pos and v == 1 for c, v, pos in p.conds)
            recs.append((scored, terms))
        ck.setcount("lcs_fill_paths", len(recs))
        want_plain = {(-1, 0, False), (0, -1, False)}
        want_scored = want_plain | {(-1, -1, True)}
        got_plain = [t for s_, t in recs if not s_]
        got_scored = [t for s_, t in recs if s_]
        for name, got, want in (("no-match", got_plain, want_plain), ("match", got_scored, want_scored)):
            if len(got) == 1 and got[0] == want:
                ck.ok(R, "recurrence|%s" % name, {"branch": name, "predecessors": sorted(map(str, got[0]))})
            else:
                ck.bad(R, "recurrence|%s" % name, "LCS table recurrence (%s branch) reads %s, expected %s (offsets relative to the written cell; True = plus score)" % (name, [sorted(map(str, g)) for g in got], sorted(map(str, want))), f.where())
    # ---- table dimensions vs. fill ranges: the table has len+1 rows/columns and the backtrack starts at [len][len],
    #      so each fill loop must run 1..=len (an exclusive 1..len leaves the last row/column at its initial 0)
    di = DefIndex(f)
    lens = {}
    for b, t in f.calls():
        if (callee(t) or "").split("::")[-1] == "len" and t[6] is not None and not t[6][1]:
            lens[t[6][0]] = t

    def len_local(op):
        for _ in range(6):
            if op[0] not in ("cp", "mv") or op[1][1]:
                return None
            if op[1][0] in lens:
                return op[1][0]
            r = di.resolve(op)
            if r[0] == "call" and r[1][6] is not None and r[1][6][0] in lens:
                return r[1][6][0]
            if r[0] == "rv" and r[1][5][0] == "use":
                op = r[1][5][1]
                continue
            # a user variable assigned once from the len() temp
            ds = di.defs.get(op[1][0], [])
            if len(ds) == 1 and ds[0][1] is not None and ds[0][2][5][0] == "use":
                op = ds[0][2][5][1]
                continue
            return None
        return None

    dims = set()
    for b, t in f.calls():
        if (callee(t) or "").endswith("from_elem") and len(t[5]) >= 2:
            r = di.resolve(t[5][1])
            if r[0] == "rv" and r[1][5][0] == "bin" and r[1][5][1] in ("add", "add_ov"):
                for o in (r[1][5][2], r[1][5][3]):
                    l = len_local(o)
                    if l is not None:
                        dims.add(l)
            elif r[0] == "place" and r[1][1] and r[1][1][-1][0] == "f":
                r2 = di.resolve(["cp", [r[1][0], []]])
                if r2[0] == "rv" and r2[1][5][0] == "bin" and r2[1][5][1] in ("add", "add_ov"):
                    for o in (r2[1][5][2], r2[1][5][3]):
                        l = len_local(o)
                        if l is not None:
                            dims.add(l)
    ck.require(R, len(dims) == 2, "anchor|table-dims", "the DP table is not allocated as (len+1) x (len+1) from two slice lengths (found %d dimension lengths)" % len(dims))
    ranges = []
    for b, t in f.calls():
        c = callee(t) or ""
        if c.endswith("RangeInclusive::<Idx>::new") or (c.split("::")[-1] == "new" and "RangeInclusive" in c):
            l = len_local(t[5][1]) if len(t[5]) == 2 else None
            if l in dims:
                ranges.append((l, "inclusive", const_int(t[5][0]), t))
    for b, st in f.all_stmts():
        if st[KIND] == "a" and st[5][0] == "agg" and st[5][1][0] == "adt" and st[5][1][1].endswith("ops::Range") and len(st[5][2]) == 2:
            l = len_local(st[5][2][1])
            if l in dims:
                ranges.append((l, "exclusive", const_int(st[5][2][0]), st))
    for l in sorted(dims):
        mine = [r for r in ranges if r[0] == l]
        name = "dim%d" % (sorted(dims).index(l))
        if len(mine) == 1 and mine[0][1] == "inclusive" and mine[0][2] == 1:
            ck.ok(R, "fill-range|%s" % name, {"range": "1..=len", "table": "len+1"})
        else:
            desc = ["%s%s" % (("%s.." % r[2]), "=len" if r[1] == "inclusive" else "len") for r in mine]
            ck.bad(R, "fill-range|%s" % name, "the DP table has len+1 entries in this dimension and the backtrack starts at index len, but the fill loop(s) over it run %s (expected exactly one loop 1..=len): the last row/column keeps its initial 0, so a deletion/insertion at the tail makes the backtrack mis-match the preceding elements (their state is not carried over)" % (desc or "over no range of that length"), f.where(mine[0][3]) if mine else f.where())
    # ---- the backtrack loop: the loop that constructs DiffResult values
    sites = constructions([f], DIFFRES)
    bt = None
    for h, body in sorted(loops, key=lambda l: len(l[1])):
        if all(b in body for _, b, _ in sites):
            bt = (h, body)
            break
    ck.require(R, bt is not None, "anchor|backtrack-loop", "DiffResult values are not all constructed inside one loop")
    if not bt:
        return
    h, body = bt
    sx = SymEx(f, max_paths=64, facts=facts)
    try:
        paths = sx.run(h)
    except PathLimit:
        paths = sx.paths
    # the two cursors: locals compared with 0 in the loop header condition
    n_iter = 0
    kinds_seen = set()
    common_paths = 0
    common_guided = 0

    def _mentions_cell(e, d=0):
        if not isinstance(e, tuple) or d > 25:
            return False
        if e and e[0] in ("call", "deref", "ref") and _cell(e):
            return True
        return any(_mentions_cell(x, d + 1) for x in e if isinstance(x, tuple))

    for p in paths:
        if p.end != "loop" or p.end_block != h:
            continue
        n_iter += 1
        pushes = [e for e in p.events if e[0] == "call" and e[1].endswith("::push") and e[2][1][0] == "agg" and e[2][1][1].startswith(DIFFRES)]
        if len(pushes) != 1:
            ck.bad(R, "backtrack|results-per-iteration", "a backtrack iteration pushes %d results (expected exactly one): the matching would skip or duplicate an element" % len(pushes), f.where())
            continue
        agg = pushes[0][2][1]
        kind = agg[1].rsplit("::", 1)[1]
        kinds_seen.add(kind)
        payload = [_idx(o) for o in agg[2]]
        # deltas of every local that moved by a constant
        deltas = {}
        for l, e in p.env.items():
            s, o = _idx(e)
            if s == ("unk", "_%d" % l) and o != 0:
                deltas[l] = o
        # cursor identity: payload symbols
        if kind == "Common":
            common_paths += 1
            if any(_mentions_cell(c) for c, v, pos in p.conds):
                common_guided += 1
            syms = [pl[0] for pl in payload]
            offs = [pl[1] for pl in payload]
            moved = sorted(deltas.items())
            good = offs == [-1, -1] and len(syms) == 2 and syms[0] != syms[1] and all(s[0] == "unk" for s in syms) and sorted(deltas.get(int(s[1][1:]), 0) for s in syms) == [-1, -1] and len(deltas) == 2
        else:
            s0, o0 = payload[0]
            good = o0 == -1 and s0[0] == "unk" and deltas == {int(s0[1][1:]): -1}
        key = "backtrack|%s" % kind
        if good:
            ck.ok(R, key, {"result": kind, "payload_offsets": [pl[1] for pl in payload], "cursor_deltas": deltas})
        else:
            ck.bad(R, key, "backtrack: a %s step has payload %s and moves the cursors by %s (expected payload index = cursor-1 and exactly the matching cursor(s) decremented by 1)" % (kind, [(show(s), o) for s, o in payload], deltas), f.where())
    ck.floor(R, "backtrack_iteration_paths", n_iter, 4)
    # ---- does the walk back follow the table it filled?  The fill step takes the maximum of three moves (the
    # diagonal may lose against skipping one side); a walk that takes the diagonal whenever the pair scores > 0
    # contradicts that: it pairs a child with the first similar sibling it meets from the end, even when the table
    # says that keeping the identical one further left is better.
    if common_paths:
        if common_guided == 0:
            ck.bad(R, "walk|diagonal-ignores-table", "%s fills the table with max(diagonal+score, up, left) but the walk back takes the diagonal whenever the pair scores > 0 without consulting the table: appending a call that merely shares a leading cell with its predecessors (old [A,B] -> new [A,B,X]) pairs B with X and A with B, so the surviving subtrees A and B are not carried over" % f.short, f.where())
        else:
            ck.ok(R, "walk|diagonal-follows-table", {"common_paths": common_paths, "guided_by_table": common_guided})
            # a table-guided walk maximises the score: then the score must grow with what a pairing carries over.
            # Counting patches gives an unchanged subtree (one patch, whatever its size) less weight than a similar
            # sibling that shares two separate cells.
            for g in fns(facts):
                if g.kind == "promoted":
                    continue
                dg = None
                for b2, st in g.all_stmts():
                    if st[KIND] == "a" and st[5][0] == "cast" and st[5][1] == "IntToFloat":
                        dg = dg or DefIndex(g)
                        r = dg.resolve(st[5][2])
                        if r[0] == "call" and (callee(r[1]) or "").split("::")[-1] == "len" and "HashSet" in (callee(r[1]) or ""):
                            ck.bad(R, "score|counts-patches", "%s scores a pairing of children by the number of patches while the walk back now follows the best-scoring path: an unchanged subtree is one patch, a similar sibling sharing two cells is two, so inserting such a sibling in front of an unchanged call re-pairs the call with it and drops its state" % g.short, g.where(st))
    ck.require(R, kinds_seen >= {"Common", "Insert", "Delete"}, "backtrack|kinds", "backtrack does not produce all of Common/Insert/Delete (%s)" % sorted(kinds_seen))


def rule_score_dominance(ck, facts):
    """an unchanged subtree outweighs every pairing with a node that merely contains (or shares) some of its cells"""
    from ..rules import cover as _cover

    R = "C08.lcs"
    fs = fns(facts)
    planners = [f for f in fs if f.kind == "fn" and any(st[KIND] == "a" and st[5][0] == "agg" and st[5][1][0] == "adt" and st[5][1][1].endswith("CopyFromPatch") for _, st in f.all_stmts()) and reaches_itself(facts, f.path)]
    ck.require(R, len(planners) == 1, "anchor|planner", "the recursive function that builds the copy patches was not found")
    if len(planners) != 1:
        return
    f = planners[0]
    sx = SymEx(f, max_paths=400, max_steps=40000, facts=facts)
    try:
        paths = sx.run(0)
    except PathLimit:
        paths = sx.paths
    rets = [p.env.get(0) for p in paths if p.end == "return"]
    exact = [r for r in rets if r and r[0] == "agg" and len(r[2]) == 2 and "CopyFromPatch" in repr(r[2][0])]
    empty = [r for r in rets if r and r[0] == "agg" and len(r[2]) == 2 and "CopyFromPatch" not in repr(r[2][0])]
    ck.require(R, bool(exact) and bool(empty), "anchor|planner-returns", "%s: the (patches, weight) results of the exact-match and the nothing-carried paths were not found" % f.short)
    if not (exact and empty):
        return
    # (a) nothing carried weighs nothing: the pairing of two calls starts from 0 and only adds what matched children
    # carry, so it never reaches the weight of an exact match of either node
    nz = [r for r in empty if r[2][1] != ("k", 0, "usize")]
    if nz:
        ck.bad(R, "score|base-weight", "%s: a pairing in which no child was matched is given the weight %s instead of 0: a call whose children are all found inside a larger sibling then weighs as much as the call matched with its unchanged self, the tie goes to the sibling, and the unchanged call loses its words" % (f.short, show(nz[0][2][1])[:60]), f.where())
    else:
        ck.ok(R, "score|base-weight", {"paths": len(empty)})
    # (b) the exact match weighs the whole subtree, root included
    w = exact[0][2][1]
    counter = None
    if w[0] == "call":
        counter = facts.fn(w[1])
    if counter is None:
        ck.bad(R, "score|exact-weight", "%s: the weight of an exact match is %s, not a count over the matched subtree" % (f.short, show(w)[:80]), f.where())
        return
    adt = None
    for pth, a in facts.crate("state_tree").adts.items():
        if pth.endswith("StateTreeSkeleton"):
            adt = pth
    cov = _cover.coverage(facts, counter, adt) if adt else None
    ck.require(R, cov is not None, "anchor|counter", "%s does not dispatch on the layout node kinds" % counter.short)
    if cov is None:
        return
    bad = None
    n_arm = 0
    for v in sorted(x["n"] for x in facts.adt(adt)["variants"]):
        tb = cov.arm_target(v) if v in cov.primary_handled() else cov.primary.otherwise
        if tb is None:
            continue
        sc = SymEx(counter, payload_place=cov.primary.place, max_paths=32, facts=facts)
        try:
            ps = sc.run(tb)
        except PathLimit:
            ps = sc.paths
        for q in ps:
            if q.end != "return":
                continue
            n_arm += 1
            r0 = q.env.get(0)
            txt = repr(r0)
            recursive = "sum" in txt or counter.path in txt
            if recursive:
                # 1 + sum(children)
                if not ("('k', 1, 'usize')" in txt and "add" in txt):
                    bad = (v, show(r0)[:80])
            else:
                if not (r0[0] == "k" and isinstance(r0[1], int) and r0[1] >= 1):
                    bad = (v, show(r0)[:80])
    if bad:
        ck.bad(R, "score|exact-weight", "%s counts a %s node as %s: a call must count itself in addition to its children (and a cell at least 1), otherwise an unchanged call weighs exactly as much as a larger sibling that contains all of its cells, the tie is broken towards the sibling, and the unchanged call restarts from zero" % (counter.short, bad[0], bad[1]), counter.where())
    else:
        ck.ok(R, "score|exact-weight", {"counter": counter.short, "arms": n_arm})



def rule_all_pairs(ck, facts):
    """the planner scores every (old child, new child) pair before it asks the LCS"""
    R = "C08.lcs"
    fs = fns(facts)
    planners = [f for f in fs if f.kind == "fn" and any(st[KIND] == "a" and st[5][0] == "agg" and st[5][1][0] == "adt" and st[5][1][1].endswith("CopyFromPatch") for _, st in f.all_stmts()) and reaches_itself(facts, f.path)]
    if len(planners) != 1:
        return  # reported by the score-dominance rule's anchor
    fam = recursion_members(facts, planners[0].path)
    NARROW = ("skip", "take", "step_by", "take_while", "skip_while", "map_while", "saturating_sub", "abs_diff", "windows", "chunks", "split_at")
    n = 0
    for g in fam:
        di = DefIndex(g)

        def is_len(op, gg=g, dd=di, depth=0):
            r = dd.resolve(op)
            if r[0] == "call":
                return (callee(r[1]) or "").split("::")[-1] in ("len",)
            if r[0] == "rv" and r[1][5][0] in ("len", "ptrmeta", "un"):
                return True
            if r[0] == "arg" and depth < 2 and gg.kind in ("fn", "assoc"):
                # a length handed in by the caller: every call site in the crate passes a `len()`
                sites = [(h, t) for h in fs for _, t in h.calls() if (callee(t) or "") == gg.path and len(t[5]) >= r[1]]
                return bool(sites) and all(is_len(t[5][r[1] - 1], h, DefIndex(h), depth + 1) for h, t in sites)
            return False

        for b, st in g.all_stmts():
            if st[KIND] == "a" and st[5][0] == "agg" and st[5][1][0] == "adt" and st[5][1][1].endswith("ops::Range") and len(st[5][2]) == 2:
                n += 1
                lo, hi = st[5][2]
                key = "all-pairs|range|%s" % ("planner" if g.path == g.root else "closure")
                if const_int(lo) == 0 and is_len(hi):
                    ck.ok(R, key, {"range": "0..len"})
                else:
                    ck.bad(R, key, "%s walks children over a range that is not `0..len` of a child list (%s..%s): the LCS scores a pair it was not given as 0, so a surviving subtree that an edit moved outside the range is never paired and loses its words although the edit left it untouched" % (planners[0].short, "0" if const_int(lo) == 0 else "computed", "len" if is_len(hi) else "computed"), g.where(st))
        for b, t in g.calls():
            c = (callee(t) or "").split("::")[-1].split("<")[0]
            if c in NARROW and (callee(t) or "").startswith(("std::", "core::", "<std::", "<core::", "<usize", "usize::")):
                n += 1
                ck.bad(R, "all-pairs|narrowing|%s" % c, "%s restricts which children it looks at with `%s`: every (old child, new child) pair must be scored, the LCS treats a missing pair as 'nothing in common'" % (planners[0].short, c), g.where(t))
    ck.floor(R, "planner_child_ranges", n, 2)


def rule_apply(ck, facts):
    R = "C08.apply"
    ck.rule(R, "the destination handed to apply_patches is a fresh zero-filled vector of plan.total_size with no write in between; apply_patches copies [src,src+size) to [dst,dst+size) of equal length; identical layouts return None before take_diff; no unsafe access")
    fs = fns(facts)
    # apply site: caller of apply_patches
    applies = [(f, t) for f in fs for _, t in f.calls() if (callee(t) or "").endswith("::apply_patches")]
    ck.floor(R, "apply_patches_call_sites", len(applies), 1)
    for f, t in applies:
        di = DefIndex(f)
        r = di.resolve(t[5][0])
        # &mut *deref_mut(&mut vec) ...
        sx = SymEx(f, max_paths=8, facts=facts)
        try:
            paths = sx.run(0, stop_at_call=lambda n, tt: tt is t)
        except PathLimit:
            paths = []
        good = False
        for p in paths:
            if p.end != "stopcall":
                continue
            dst = p.events[-1][2][0]
            x = dst
            while x[0] in ("ref", "deref") or (x[0] == "call" and ("deref" in x[1] or "as_mut" in x[1] or "index" in x[1])):
                x = x[1] if x[0] in ("ref", "deref") else x[2][0]
            writes_before = [e for e in p.events[:-1] if e[0] == "store"]
            if x[0] == "call" and x[1].endswith("from_elem") and x[2][0] == ("k", 0, "u64") and not writes_before:
                size = x[2][1]
                if "total_size" in repr(size):
                    good = True
        key = "zero-dst|%s" % f.short
        if good:
            ck.ok(R, key, {"fn": f.short, "dst": "vec![0u64; plan.total_size]"})
        else:
            ck.bad(R, key, "%s does not hand apply_patches a fresh zero-filled vector sized from the plan's total_size: words not covered by a patch would keep old contents" % f.short, f.where(t))
    # apply_patches body: copy_from_slice(new[dst..dst+size], old[src..src+size])
    ap = [f for f in fs if f.short.endswith("patch::apply_patches")]
    ck.require(R, len(ap) == 1, "anchor|apply_patches", "apply_patches not found")
    for f in ap:
        calls = [(callee(t) or "") for _, t in f.calls()]
        unsafe = [c for c in calls if "get_unchecked" in c or "from_raw_parts" in c or c.endswith("::copy_nonoverlapping")]
        if unsafe:
            ck.bad(R, "unsafe|apply_patches", "apply_patches uses unchecked access %s" % unsafe[:2], f.where())
        else:
            ck.ok(R, "unsafe|apply_patches")
        # both ranges built from addr .. addr+size with the same size field
        sx = SymEx(f, max_paths=16, facts=facts)
        try:
            paths = sx.run(0)
        except PathLimit:
            paths = sx.paths
        shape = None
        for p in paths:
            for e in p.events:
                if e[0] == "call" and e[1].endswith("::copy_from_slice"):
                    shape = (show(e[2][0], 0), show(e[2][1], 0))
        if shape and "dst_addr" in shape[0] and "src_addr" in shape[1] and shape[0].count("size") >= 1 and shape[1].count("size") >= 1 and "new" not in shape[1]:
            ck.ok(R, "copy-shape|apply_patches", {"dst": shape[0][:120], "src": shape[1][:120]})
        elif shape:
            ck.bad(R, "copy-shape|apply_patches", "apply_patches copies %s <- %s (expected new[dst_addr..dst_addr+size] <- old[src_addr..src_addr+size])" % shape, f.where())
        else:
            ck.bad(R, "copy-shape|apply_patches", "no copy_from_slice found in apply_patches", f.where())
    # every patch of the plan is applied
    from ..cfg import natural_loops, reachable as _reach

    SKIPPERS = ("take_while", "take", "skip", "skip_while", "step_by", "filter", "filter_map", "map_while", "nth", "find", "position", "any", "all", "first", "last", "split_first", "split_last", "get", "chunks", "windows")
    for f in ap:
        fam = facts.family(f.crate if hasattr(f, "crate") else "state_tree", f.root)
        used = sorted({(callee(t) or "").split("::")[-1] for g in fam for _, t in g.calls()} & set(SKIPPERS))
        loops = natural_loops(f)
        silent = False
        for hdr, body in loops:
            copies = {b for b in body if f.term(b)[KIND] == "call" and (callee(f.term(b)) or "").endswith("::copy_from_slice")}
            if not copies:
                continue
            # from the header, around the loop and back to the header without copying
            for s0 in f.succs(hdr):
                if s0 in body and hdr in _reach(f, s0, avoid=copies | (set(range(len(f.bb))) - set(body))):
                    silent = True
        if used or silent or not loops:
            ck.bad(R, "every-patch|apply_patches", "apply_patches does not apply every patch of the plan (%s): a patch that is skipped, or everything after the point where the iteration stops, leaves surviving words zero in the new storage" % ("the patch list goes through `%s`" % "`, `".join(used) if used else "an iteration can end without copying"), f.where())
        else:
            ck.ok(R, "every-patch|apply_patches", {"loops": len(loops)})
    # identical layouts => None before diffing
    planners = [f for f in fs for _, t in f.calls() if (callee(t) or "").endswith("tree_diff::take_diff")]
    ck.floor(R, "plan_builders", len(planners), 1)
    for f in planners:
        dom = dominators(f)
        di = DefIndex(f)
        tb = [b for b, t in f.calls() if (callee(t) or "").endswith("tree_diff::take_diff")][0]
        ok = False
        for d in dom[tb]:
            t = f.term(d)
            if t[KIND] == "switch":
                r = di.resolve(t[4])
                if r[0] == "call" and (callee(r[1]) or "").endswith(("::eq", "::ne")):
                    ok = True
        if ok:
            ck.ok(R, "identical-noop|%s" % f.short, {"fn": f.short})
        else:
            ck.bad(R, "identical-noop|%s" % f.short, "%s calls take_diff without first comparing the two layouts for equality (identical layouts must produce no plan)" % f.short, f.where())


def rule_addressing(ck, facts):
    R = "C08.addressing"
    ck.rule(R, "path_to_address: the offset of child k is the sum of total_size over the first k siblings (take(k)), plus the child's own offset; total_size of a call node is the sum over all children; Delay cells are len + the 2 header words")
    fs = fns(facts)
    pa = [f for f in fs if f.short.endswith("::path_to_address")]
    ts = [f for f in fs if f.short.endswith("StateTreeSkeleton::<T>::total_size") or f.short.endswith("::total_size")]
    ck.require(R, len(pa) >= 1 and len(ts) >= 1, "anchor|addressing", "path_to_address / total_size not found")
    for f in pa:
        names = [(callee(t) or "") for _, t in f.calls()]
        has_take = any(n.endswith("::take") for n in names)
        has_sum = any(n.endswith("::sum") for n in names)
        rec = any(n == f.path for n in names)
        # take's count must be the path head (index 0 of the path slice), not +1/-1
        sx = SymEx(f, max_paths=32, facts=facts)
        try:
            paths = sx.run(0)
        except PathLimit:
            paths = sx.paths
        take_ok = None
        add_ok = None
        for p in paths:
            for e in p.events:
                if e[0] == "call" and e[1].endswith("::take"):
                    n = e[2][1]
                    s, o = _idx(n)
                    take_ok = (o == 0)
        if has_take and has_sum and rec and take_ok:
            ck.ok(R, "prefix-sum|path_to_address", {"fn": f.short})
        else:
            ck.bad(R, "prefix-sum|path_to_address", "%s: child offset is not sum(total_size) over take(child_idx) + recursive offset (take=%s sum=%s recursion=%s count_exact=%s)" % (f.short, has_take, has_sum, rec, take_ok), f.where())
    for f in ts:
        cov = cover.coverage(facts, f, SKEL)
        if not cov:
            continue
        missing = [v for v in cov.names if v not in cov.primary_handled()]
        if missing or cov.catchall:
            ck.bad(R, "total_size|cover", "total_size has no explicit arm for %s" % (missing or sorted(cov.catchall)), f.where())
        else:
            ck.ok(R, "total_size|cover")


def rule_fast_path(ck, facts, forward=True, converse=True):
    """consumers of a migration plan that also know both layouts may skip the plan and keep the old buffer verbatim
    only when the layouts are equal"""
    R = "C08.fast-path"
    ck.rule(R, "where a runtime holds both the old and the new state layout and compares them, every path that installs a verbatim copy of the old state buffer takes the `layouts are equal` edge of that comparison (an empty patch list alone does not mean `nothing changed`: it also describes a swap in which no subtree survives), and conversely every path with equal layouts and an empty plan installs a copy of the old buffer")
    sites = []
    for crate in (roles.LANG, "mimium_cli", "mimium_audiodriver"):
        try:
            fl = facts.crate(crate).fns
        except KeyError:
            continue
        for f in fl:
            if f.kind == "promoted" or "::test" in f.path:
                continue
            eqs = [t for _, t in f.calls() if (callee(t) or "").split("::")[-1] in ("eq", "ne") and "StateTreeSkeleton" in ((t[4].get("full") or "") if isinstance(t[4], dict) else "")]
            if eqs:
                sites.append((f, eqs))
    ck.floor(R, "layout_comparison_sites", len(sites), 1)
    for f, eqs in sites:
        sx = SymEx(f, max_paths=400, max_steps=30000, facts=facts)
        try:
            paths = sx.run(0)
        except PathLimit:
            paths = sx.paths
        n_copy = 0
        bad = None
        for p in paths:
            if p.end != "return":
                continue
            eq_pos = None
            eq_term = None
            for i, e in enumerate(p.events):
                if e[0] == "call" and any(e[3] is t for t in eqs):
                    eq_pos, eq_term = i, ("call", e[1], e[2])
            if eq_pos is None:
                continue
            clones = [e for e in p.events[eq_pos + 1:] if e[0] == "call" and e[1].split("::")[-1] in ("clone", "to_vec", "to_owned") and "u64" in (e[3][4].get("full") or "")]
            # only a copy that is *installed* counts: it reaches the runtime's state setter / the new machine's storage
            setters = [e for e in p.events[eq_pos + 1:] if e[0] == "call" and e[1].split("::")[-1] in ("set_global_state_data",)]
            if setters:
                def _root(x):
                    while isinstance(x, tuple) and x and (x[0] in ("ref", "deref") or (x[0] == "call" and x[1].split("::")[-1] in ("deref", "as_slice", "as_ref", "borrow") and x[2])):
                        x = x[1] if x[0] in ("ref", "deref") else x[2][0]
                    return x
                installed = [_root(e[2][-1]) for e in setters]
                clones = [c for c in clones if any(i == ("call", c[1], c[2]) for i in installed)]
            if not clones:
                continue
            n_copy += 1
            truth = None
            for ce, v, pos in p.conds:
                if ce == eq_term:
                    truth = (v != 0) if pos else None
                    if not pos and tuple(v) == (0,):
                        truth = True
            is_ne = eq_term[1].split("::")[-1] == "ne"
            equal = (truth is True and not is_ne) or (truth is False and is_ne)
            if not equal:
                bad = clones[0][3]
        # converse: equal layouts and an empty plan => the old buffer is what gets installed
        lost = None
        n_keep = 0
        for p in paths:
            if p.end != "return":
                continue
            eq_true = False
            empty_true = False
            for ce, v, pos in p.conds:
                if ce[0] == "call" and any(ce[1] == (callee(t) or "") for t in eqs) and ce[1].split("::")[-1] == "eq":
                    if (pos and v != 0) or ((not pos) and tuple(v) == (0,)):
                        eq_true = True
                if ce[0] == "call" and ce[1].split("::")[-1] == "is_empty" and "patches" in repr(ce[2]):
                    if (pos and v != 0) or ((not pos) and tuple(v) == (0,)):
                        empty_true = True
            if not (eq_true and empty_true):
                continue
            setters = [e for e in p.events if e[0] == "call" and e[1].split("::")[-1] in ("set_global_state_data",)]
            if not setters:
                continue
            n_keep += 1
            x = setters[-1][2][-1]
            while isinstance(x, tuple) and x and (x[0] in ("ref", "deref") or (x[0] == "call" and x[1].split("::")[-1] in ("deref", "as_slice", "as_ref", "borrow") and x[2])):
                x = x[1] if x[0] in ("ref", "deref") else x[2][0]
            if not (isinstance(x, tuple) and x and x[0] == "call" and x[1].split("::")[-1] in ("clone", "to_vec", "to_owned")):
                lost = setters[-1][3]
        if n_keep and converse:
            key2 = "unchanged-keeps|%s" % f.short.split("::")[-1]
            if lost is None:
                ck.ok(R, key2, {"fn": f.short, "paths_with_equal_layouts_and_empty_plan": n_keep, "installed": "copy of the old buffer"})
            else:
                ck.bad(R, key2, "%s: on a path where the layouts are equal and the plan is empty the installed state is not a copy of the old buffer (the prewarmed zero state with no patch applied): swapping an unchanged program resets every cell" % f.short, f.where(lost))
        key = "verbatim-copy|%s" % f.short.split("::")[-1]
        if not forward:
            continue
        if n_copy == 0:
            ck.ok(R, key, {"fn": f.short, "verbatim_copy_paths_after_comparison": 0})
        elif bad is None:
            ck.ok(R, key, {"fn": f.short, "verbatim_copy_paths_after_comparison": n_copy, "all_on": "layouts equal"})
        else:
            ck.bad(R, key, "%s compares the old and the new layout but also keeps the old state buffer verbatim on a path where they differ: a swap in which no subtree survives (empty patch list) installs the stale words under the new layout instead of starting from zero with the new size" % f.short, f.where(bad))


def rule_no_plan(ck, facts):
    """the protocol between the plan builder and the runtimes: `None` means `the layouts are equal, keep the buffer`"""
    R = "C08.fast-path"
    found = 0
    for crate in (ST, roles.LANG, "mimium_cli"):
        try:
            fl = facts.crate(crate).fns
        except KeyError:
            continue
        for f in fl:
            if f.kind == "promoted" or "::test" in f.path or "Option<" not in f.local_ty(0) or "StateStoragePatchPlan" not in f.local_ty(0):
                continue
            eqs = [(b, t) for b, t in f.calls() if (callee(t) or "").split("::")[-1] in ("eq", "ne") and "StateTreeSkeleton" in ((t[4].get("full") or "") if isinstance(t[4], dict) else "")]
            nones = [(b, st) for b, st in f.all_stmts() if st[KIND] == "a" and st[4][0] == 0 and st[5][0] == "agg" and st[5][1][0] == "adt" and st[5][1][1].endswith("::Option") and st[5][1][3] == "None"]
            if not nones:
                continue
            found += 1
            key = "no-plan|%s" % f.short.split("::")[-1]
            if not eqs:
                ck.bad(R, key, "%s answers `no plan` (None) without comparing the two layouts: the runtimes read None as `layouts equal, keep the old buffer`" % f.short, f.where(nones[0][1]))
                continue
            dom = dominators(f)
            # blocks reached only through the `equal` edge of a comparison
            equal_edges = []
            for b, t in eqs:
                is_ne = (callee(t) or "").split("::")[-1] == "ne"
                nb = t[7]
                # follow straight-line blocks to the switch on the call's result
                for _ in range(6):
                    if nb is None:
                        break
                    tt = f.term(nb)
                    if tt[KIND] == "switch":
                        zero = [tb for v, tb in tt[6] if int(v) == 0]
                        other = tt[7]
                        if zero:
                            equal_edges.append(zero[0] if is_ne else other)
                        break
                    sc = f.succs(nb)
                    nb = sc[0] if len(sc) == 1 else None
            bad = None
            for b, st in nones:
                if not any(e == b or e in dom.get(b, ()) for e in equal_edges):
                    bad = st
            if bad is None:
                ck.ok(R, key, {"fn": f.short, "none_returns": len(nones), "all_under": "layouts equal"})
            else:
                ck.bad(R, key, "%s answers `no plan` (None) on a path that is not the `layouts are equal` edge of its skeleton comparison: the runtimes read None as `keep the old state buffer verbatim`, so a swap whose diff carries nothing over (every stateful site replaced) leaves the stale words under the new layout instead of an all-zero buffer of the new size" % f.short, f.where(bad))
    ck.floor(R, "plan_builders_answering_none", found, 1)


def _leaves_of(e, out):
    if isinstance(e, tuple):
        if len(e) == 2 and e[0] == "arg" and isinstance(e[1], int):
            out.add(e[1])
            return
        for x in e:
            _leaves_of(x, out)


def rule_source_size(ck, facts):
    """the runtimes size their state storage lazily (first dsp call); a migration may be requested before that"""
    from ..rules.guards import Terms, strip
    R = "C08.apply-source"
    ck.rule(R, "where a runtime applies migration patches, the old buffer it reads from has been brought to the old layout's total size first: a `resize(total_size, 0)` of that buffer — unconditional, or under `len < total_size` — lies on every path to the call (the storage gets its size only at the first dsp call, so a swap at time 0 would read past an empty buffer)")
    sites = []
    for crate in (roles.LANG,):
        for f in facts.crate(crate).fns:
            if f.kind == "promoted" or "::test" in f.path or "runtime::" not in f.path:
                continue
            for b, t in f.calls():
                c = callee(t) or ""
                if c.endswith("patch::apply_patches") or c.endswith("apply_state_storage_patch_plan"):
                    sites.append((f, b, t, 1 if c.endswith("apply_patches") else 0))
    ck.floor(R, "runtime_patch_application_sites", len(sites), 2)
    for f, b, t, argi in sites:
        T = Terms(f)
        src = strip(T.op(t[5][argi]))
        # unwrap slice views of a Vec: as_slice / deref results are already followed by Terms; keep the root
        dom = dominators(f)
        ok = False
        detail = None
        wrong_side = None
        for b2, t2 in f.calls():
            c2 = callee(t2) or ""
            if c2.split("::")[-1] != "resize" or "Vec" not in c2 or len(t2[5]) < 2:
                continue
            tgt = strip(T.op(t2[5][0]))
            if tgt != src:
                continue
            size_term = repr(T.op(t2[5][1]))
            # the size must come from a total_size() call
            di = T.di
            r = di.resolve(t2[5][1])
            from_total = False
            cur = t2[5][1]
            for _ in range(8):
                r = di.resolve(cur)
                if r[0] == "call":
                    if (callee(r[1]) or "").split("::")[-1] == "total_size":
                        from_total = True
                    break
                if r[0] == "rv" and r[1][5][0] in ("cast", "un"):
                    cur = r[1][5][2]
                    continue
                if r[0] == "rv" and r[1][5][0] == "use":
                    cur = r[1][5][1]
                    continue
                break
            if not from_total:
                continue
            # whose layout: the size must be computed from the running side (argument 1 = self) only
            sxp = SymEx(f, max_paths=300, max_steps=30000, facts=facts)
            try:
                pp = sxp.run(0, stop_at_call=lambda n_, tt, t2=t2: tt is t2)
            except PathLimit:
                pp = sxp.paths
            sides = set()
            for p_ in pp:
                if p_.end == "stopcall":
                    _leaves_of(p_.events[-1][2][1], sides)
            if sides and sides != {1}:
                wrong_side = (f, t2, sorted(map(str, sides)))
                continue
            if b2 in dom.get(b, ()):
                ok, detail = True, "unconditional resize"
                break
            # conditional: the branch that guards the resize dominates the call and compares len(buffer) with the size
            for d in dom.get(b2, ()):
                if d == b2 or d not in dom.get(b, ()) or f.term(d)[KIND] != "switch" or f.term(d)[4][0] not in ("cp", "mv"):
                    continue
                c = T.op(f.term(d)[4])
                if c[0] == "bin" and c[1] in ("lt", "gt", "le", "ge", "ne") and (("len", src) in (c[2], c[3])):
                    ok, detail = True, "resize under a length test"
            if ok:
                break
        key = "source|%s" % f.short.split("::")[-1]
        if not ok and wrong_side is not None and wrong_side[0] is f:
            ck.bad(R, key, "%s pads the old state buffer to a size that is not computed from the running program's layout alone (the size reads arguments %s; self = 1, incoming = 2): when the edit shrinks the layout and the old storage is not fully grown yet (a swap before the first dsp call, or a trailing cell in a branch not yet taken), the buffer stays shorter than the old layout and apply_patches reads past it" % (f.short, wrong_side[2]), f.where(wrong_side[1]))
            continue
        if ok:
            ck.ok(R, key, {"fn": f.short, "old_buffer": detail})
        else:
            ck.bad(R, key, "%s applies migration patches reading from a buffer that was not brought to the old layout's size: the state storage is empty until the first dsp call, so a hot swap requested before it makes apply_patches read past the end of the old buffer (panic in the audio thread) instead of migrating from all-zero state" % f.short, f.where(t))


def run(ck, facts, tier):
    ck.floor("C08.anchor", "state_tree_bodies", len(facts.crate(ST).fns), 40)
    rule_patch_sites(ck, facts)
    rule_predicate(ck, facts)
    rule_lcs(ck, facts)
    rule_score_dominance(ck, facts)
    rule_all_pairs(ck, facts)
    rule_apply(ck, facts)
    rule_addressing(ck, facts)
    rule_fast_path(ck, facts)
    rule_no_plan(ck, facts)
    rule_source_size(ck, facts)
    ck.not_decided("optimality of the greedy backtrack ('every surviving subtree is carried over') beyond the recurrence/backtrack shape rules")
    ck.not_decided("'never writes a destination word twice' for arbitrary trees (follows from monotone matching + prefix-sum addressing, which are checked as shapes, not proved)")
