"""C11 — scheduled tasks run exactly once at their sample time (agreement of the two queue implementations)."""
from .. import roles
from ..cfg import DefIndex, dominators, natural_loops, reachable
from ..facts import KIND, callee, callee_def, place_fields
from ..symex import PathLimit, SymEx, show

LEVEL = "other"
EXPLANATION = (
    "Agreement of the VM and WASM task queues and ordering of the per-sample protocol, decided on MIR: both queues have the "
    "same element type and container; the ordering of tasks compares the due time and nothing else; the f64→sample-index "
    "conversion at enqueue is the same expression on both runtimes; both enqueue paths reject `when <= current` and both "
    "drain loops pop only under `when <= now` (same operators); in both run_dsp implementations the plugin workers run "
    "before the dsp call and the output is read after it. Exactly-once over histories, ordering among equal times and closure "
    "lifetime are not decided."
)
SCHED = "mimium_scheduler"


# ---- anchors by role (private names of the scheduler crate are free to change) -------------------------------------
def _heap_call(c, names):
    return "BinaryHeap" in c and c.split("::")[-1] in names


def due_poppers(sc):
    """functions that take a task off the pending queue (they call BinaryHeap::pop)"""
    return {f.path for f in sc.fns if f.kind != "promoted" and "::test" not in f.path and any(_heap_call(callee(t) or "", ("pop",)) for _, t in f.calls())}


def clock_setters(sc):
    """methods `fn(&mut self, t)` whose whole effect is to store their argument in a field of self"""
    out = set()
    for f in sc.fns:
        if f.kind != "assoc" or f.d.get("argc") != 2 or "::test" in f.path:
            continue
        if any((callee(t) or "").split("::")[-1] not in ("lock", "unwrap", "expect", "deref", "deref_mut", "borrow_mut", "write") for _, t in f.calls()):
            continue  # taking the lock that guards the field is part of storing it
        stores = [st for _, st in f.all_stmts() if st[KIND] == "a" and st[4][1] and st[4][0] != 0 and any(x for x in place_fields(st[4]))]
        if len(stores) == 1 and stores[0][5][0] == "use" and stores[0][5][1][0] in ("cp", "mv"):
            di = DefIndex(f)
            r = di.resolve(stores[0][5][1])
            if r == ("arg", 2) or (stores[0][5][1][1][0] == 2):
                out.add(f.path)
    return out


def sample_workers(sc):
    """the per-sample routines of the scheduler: implementations of a trait method that is given the sample time and
    (transitively, <= 2 calls) pops the pending queue"""
    pops = due_poppers(sc)
    out = []
    for f in sc.fns:
        if f.kind != "assoc" or not f.d.get("trait") or "::test" in f.path:
            continue
        near = {callee(t) or "" for _, t in f.calls()}
        near2 = set(near)
        for c in near:
            g = next((h for h in sc.fns if h.path == c), None)
            if g is not None:
                near2 |= {callee(t) or "" for _, t in g.calls()}
        if f.path in pops or near2 & pops:
            if any("Time" in ty for ty in f.d.get("locals", [])[: f.d.get("argc", 0) + 1]):
                out.append(f)
    return out


def rule_queue_types(ck, facts):
    R = "C11.queue"
    ck.rule(R, "both pending-task containers are BinaryHeap<Reverse<Task>> over the same Task type")
    c = facts.crate(SCHED)
    fields = []
    for a in c.adts.values():
        for v in a["variants"]:
            for fname, fty in v["f"]:
                if "BinaryHeap" in fty:
                    fields.append((a["p"], fname, fty))
    ck.floor(R, "task_queue_fields", len(fields), 2)
    tys = {t for _, _, t in fields}
    if len(tys) == 1 and "Reverse<" in list(tys)[0] and "Task" in list(tys)[0]:
        ck.ok(R, "same-type", {"fields": ["%s.%s" % (p.split("::")[-1], n) for p, n, _ in fields], "type": list(tys)[0]})
    else:
        ck.bad(R, "same-type", "the VM and WASM task queues have different types %s: ordering/tie behaviour can differ between the runtimes" % sorted(tys))


def rule_task_order(ck, facts):
    R = "C11.order"
    ck.rule(R, "the Ord of Task compares the `when` fields of both tasks and nothing else (a min-heap on Reverse<Task> then always exposes the earliest due task); PartialOrd delegates to Ord")
    c = facts.crate(SCHED)
    cmps = [f for f in c.fns if f.d.get("trait", "").endswith("cmp::Ord") and f.d.get("self_ty", "").endswith("Task") and f.short.endswith("::cmp")]
    ck.require(R, len(cmps) == 1, "anchor|Task::cmp", "impl Ord for Task not found (%d candidates)" % len(cmps))
    for f in cmps:
        sx = SymEx(f, max_paths=32, facts=facts)
        try:
            paths = sx.run(0)
        except PathLimit:
            paths = sx.paths
        rets = [p.env.get(0) for p in paths if p.end == "return"]
        good = len(rets) == 1
        if good:
            r = rets[0]
            txt = repr(r)
            good = r is not None and r[0] == "call" and r[1].endswith("::cmp") and txt.count("Task::when") == 2 and "Task::closure" not in txt and "('arg', 1)" in txt and "('arg', 2)" in txt
        # any comparison of another field anywhere in the body?
        other_fields = set()
        for b, s in f.all_stmts():
            if s[KIND] == "a":
                for pl in ([s[5][1]] if s[5][0] == "ref" else []):
                    for fl in place_fields(pl):
                        if fl and fl.endswith("::closure"):
                            other_fields.add(fl)
        if good and not other_fields:
            ck.ok(R, "cmp|when-only", {"fn": f.short, "returns": show(rets[0])})
        else:
            ck.bad(R, "cmp|when-only", "%s does not order tasks by their due time alone (%d return paths%s): the heap top may be a task that is not the earliest due one, so due tasks wait behind later ones" % (f.short, len(rets), ", reads field `closure`" if other_fields else ""), f.where())
    pcs = [f for f in c.fns if f.d.get("trait", "").endswith("cmp::PartialOrd") and f.d.get("self_ty", "").endswith("Task") and f.short.endswith("::partial_cmp")]
    for f in pcs:
        callsn = [(callee(t) or "") for _, t in f.calls()]
        if cmps and any(n == cmps[0].path for n in callsn):
            ck.ok(R, "partial_cmp|delegates")
        else:
            ck.bad(R, "partial_cmp|delegates", "%s does not delegate to Task::cmp" % f.short, f.where())


def _time_exprs(facts, f, own=False):
    """symbolic expressions that become Task.when / Time(..) in f (and its closures)"""
    out = []
    for g in ([f] if own else facts.family(SCHED, f.root if f.root != f.path else f.path)):
        sx = SymEx(g, max_paths=64, facts=facts)
        try:
            paths = sx.run(0)
        except PathLimit:
            paths = sx.paths
        for p in paths:
            for l, e in p.env.items():
                pass
            for e in p.events:
                if e[0] == "call":
                    for a in e[2]:
                        if a[0] == "agg" and a[1].endswith("Time::Time") and "FloatToInt" in repr(a[2][0]):
                            out.append((g, a[2][0]))
    return out


def norm_time(e):
    """strip the source of the f64 (argument fetch) to a leaf, keep the conversion operators"""
    if e[0] == "cast":
        return ("cast", e[1], norm_time(e[2]), e[4])
    if e[0] == "call":
        n = e[1].split("::")[-1]
        if n in ("round", "floor", "ceil", "trunc", "abs", "max", "min"):
            return ("call", n, tuple(norm_time(a) for a in e[2]))
        return ("src",)
    if e[0] in ("deref", "ref", "idx", "fld"):
        return ("src",)
    return ("src",)


def rule_time_conversion(ck, facts):
    R = "C11.time"
    ck.rule(R, "the conversion of the scheduled f64 time to a sample index is the same expression (a bare `as u64` truncation) on the VM path and on the WASM path")
    c = facts.crate(SCHED)
    # every function of the scheduler crate that converts an f64 into a `Time` it hands on; the WASM side is the one
    # written as host closures (the plugin's WASM function map), the VM side the rest
    conv = [f for f in c.fns if f.kind != "promoted" and "::test" not in f.path and _time_exprs(facts, f, own=True)]
    wasm = [f for f in conv if f.kind == "closure" and "wasm" in f.path.lower()]
    vm = [f for f in conv if f not in wasm]
    ck.require(R, bool(vm) and bool(wasm), "anchor|schedule-paths", "schedule_at (VM) / the wasm schedule closure not found")
    if not vm or not wasm:
        return
    a = set()
    for v in vm:
        a |= {repr(norm_time(e)) for g, e in _time_exprs(facts, v, own=True)}
    b = set()
    for w in wasm:
        b |= {repr(norm_time(e)) for g, e in _time_exprs(facts, w, own=True)}
    ck.setcount("vm_time_exprs", len(a))
    ck.setcount("wasm_time_exprs", len(b))
    want = repr(("cast", "FloatToInt", ("src",), "u64"))
    if a and b and a == b == {want}:
        ck.ok(R, "same-conversion", {"vm": sorted(a), "wasm": sorted(b)})
    else:
        ck.bad(R, "same-conversion", "scheduled time is converted differently on the two runtimes (VM %s, WASM %s): a fractional due time lands on different samples" % (sorted(a), sorted(b)), vm[0].where())


def _guards(facts, f, target_suffix):
    """comparison operators guarding calls to *target_suffix in f: list of (op-callee, true_edge?)"""
    out = []
    dom = dominators(f)
    di = DefIndex(f)
    for b, t in f.calls():
        if not (callee(t) or "").endswith(target_suffix):
            continue
        ops = []
        for d in dom[b]:
            tt = f.term(d)
            if tt[KIND] != "switch":
                continue
            r = di.resolve(tt[4])
            if r[0] == "call":
                n = (callee_def(r[1]) or callee(r[1]) or "")
                if n.endswith(("::le", "::lt", "::ge", "::gt")):
                    false_t = [x for v, x in tt[6] if v == "0"]
                    on_true = b in reachable(f, tt[7], avoid=false_t)
                    ops.append((n.rsplit("::", 1)[1], on_true, repr(sorted(place_fields(a[1]) if a[0] in ("cp", "mv") else [] for a in r[1][5]))))
            elif r[0] == "rv" and r[1][5][0] == "bin" and r[1][5][1] in ("le", "lt", "ge", "gt"):
                false_t = [x for v, x in tt[6] if v == "0"]
                on_true = b in reachable(f, tt[7], avoid=false_t)
                ops.append((r[1][5][1], on_true, ""))
        out.append((b, ops))
    return out


def rule_guards(ck, facts):
    R = "C11.guards"
    ck.rule(R, "pop of the pending queue happens only under `when <= now` on both runtimes; both enqueue paths reject `when <= current time`")
    c = facts.crate(SCHED)
    # drain sites: functions that call BinaryHeap::pop
    drains = [f for f in c.fns if any((callee(t) or "").endswith("BinaryHeap::<T, A>::pop") or (callee(t) or "").endswith("BinaryHeap::<T>::pop") or "BinaryHeap" in (callee(t) or "") and (callee(t) or "").endswith("::pop") for _, t in f.calls()) and "::tests" not in f.path]
    ck.floor(R, "drain_functions", len(drains), 2)
    sigs = {}
    for f in drains:
        g = _guards(facts, f, "::pop")
        ops = sorted({(op, tr) for _, lst in g for op, tr, _ in lst})
        sigs[f.short] = ops
        if ("le", True) in ops:
            ck.ok(R, "drain|%s" % f.short, {"fn": f.short, "guard": "when <= now"})
        else:
            ck.bad(R, "drain|%s" % f.short, "%s pops a task without the guard `when <= now` on the true edge (found %s): tasks could run early or never" % (f.short, ops), f.where())
    # enqueue rejection: panic guarded by `when <= current`
    enq = []
    for f in c.fns:
        if "::tests" in f.path:
            continue
        pushes = [t for _, t in f.calls() if "BinaryHeap" in (callee(t) or "") and (callee(t) or "").endswith("::push")]
        if not pushes:
            continue
        di = DefIndex(f)
        ops = set()
        for b, blk in enumerate(f.bb):
            tt = blk["t"]
            if blk["c"] or tt[KIND] != "switch":
                continue
            r = di.resolve(tt[4])
            if r[0] == "call" and (callee_def(r[1]) or "").endswith(("::le", "::lt", "::ge", "::gt")):
                # does the true edge lead to a panic?
                tgt = tt[7]
                diverges = any((callee(f.term(x)) or "").startswith(("core::panicking", "std::rt::panic")) for x in reachable(f, tgt, avoid=[v for _, v in tt[6]]) if f.term(x)[KIND] == "call")
                if diverges:
                    ops.add((callee_def(r[1]) or "").rsplit("::", 1)[1])
            elif r[0] == "rv" and r[1][5][0] == "bin" and r[1][5][1] in ("le", "lt", "ge", "gt"):
                tgt = tt[7]
                diverges = any((callee(f.term(x)) or "").startswith(("core::panicking", "std::rt::panic")) for x in reachable(f, tgt, avoid=[v for _, v in tt[6]]) if f.term(x)[KIND] == "call")
                if diverges:
                    ops.add(r[1][5][1])
        enq.append((f, ops))
    ck.floor(R, "enqueue_functions", len(enq), 2)
    allops = {tuple(sorted(o)) for _, o in enq}
    if len(allops) == 1 and ("le",) in allops:
        ck.ok(R, "enqueue|reject-past", {"fns": [f.short for f, _ in enq], "reject": "when <= current"})
    else:
        ck.bad(R, "enqueue|reject-past", "the enqueue paths do not reject past times with the same test `when <= current` (%s)" % [(f.short, sorted(o)) for f, o in enq], enq[0][0].where() if enq else None)


def rule_protocol(ck, facts):
    R = "C11.protocol"
    ck.rule(R, "in both DspRuntime::run_dsp implementations every call of the plugin workers' on_sample precedes (dominates) the dsp call, and the output cache is written after it")
    impls = []
    for crate in ("mimium_audiodriver", "mimium_lang"):
        for f in facts.crate(crate).fns:
            if f.d.get("trait", "").endswith("DspRuntime") and f.short.endswith("::run_dsp"):
                impls.append((crate, f))
    ck.floor(R, "run_dsp_impls", len(impls), 2)
    for crate, f in impls:
        fam = facts.family(crate, f.path)
        dsp_blocks = [b for b, t in f.calls() if (callee(t) or "").endswith(("::execute_idx", "::execute_dsp"))]
        # workers are called in f itself (for loop) or in a closure passed to for_each (called before dsp in f)
        worker_sites = []
        for g in fam:
            for b, t in g.calls():
                n = callee_def(t) or callee(t) or ""
                if n.endswith("AudioWorker::on_sample"):
                    worker_sites.append((g, b))
        if not dsp_blocks or not worker_sites:
            ck.bad(R, "anchor|%s" % f.short, "%s: dsp call or worker call not found" % f.short, f.where())
            continue
        dom = dominators(f)
        ok = True
        for g, b in worker_sites:
            if g.path == f.path:
                # must not be reachable from the dsp call
                if any(b in reachable(f, d) and b != d for d in dsp_blocks):
                    ok = False
            else:
                # closure: the call that consumes the closure (for_each) must dominate the dsp call
                site = None
                for bb, s in f.all_stmts():
                    if s[KIND] == "a" and s[5][0] == "agg" and s[5][1][0] == "closure" and s[5][1][1] == g.path:
                        site = bb
                if site is None or not all(site in dom[d] for d in dsp_blocks):
                    ok = False
        # every worker, every sample: a worker call inside a closure is run for each worker only if the closure is
        # consumed exhaustively (`for_each`, `fold`); handed to a lazy adaptor whose consumer may stop early (`find`,
        # `any`, `all`, `try_for_each`, ...), the workers after the first hit are skipped on that sample
        SHORT = ("find", "find_map", "any", "all", "position", "take_while", "map_while", "try_for_each", "try_fold", "next", "nth", "take", "skip_while", "peekable", "step_by")
        for g, b in worker_sites:
            if g.path == f.path:
                continue
            consumer = None
            for bb, s2 in f.all_stmts():
                if s2[KIND] == "a" and s2[5][0] == "agg" and s2[5][1][0] == "closure" and s2[5][1][1] == g.path:
                    dst = s2[4][0]
                    for b3, t3 in f.calls():
                        if any(a[0] in ("cp", "mv") and a[1][0] == dst for a in t3[5]):
                            consumer = (callee(t3) or "").split("::")[-1]
            names = {(callee(t3) or "").split("::")[-1] for _, t3 in f.calls()}
            key2 = "every-worker|%s" % f.short
            if consumer in ("for_each", "fold") or not (names & set(SHORT)):
                ck.ok(R, key2)
            else:
                ck.bad(R, key2, "%s hands the closure that calls the workers' on_sample to `%s` and consumes the result with a short-circuiting adaptor (%s): on a sample where one worker's result ends the iteration the workers after it are not run at all — a scheduler registered behind it misses that sample, and the tasks due then run late" % (f.short, consumer, ", ".join(sorted(names & set(SHORT)))), f.where())
        if ok:
            ck.ok(R, "workers-before-dsp|%s" % f.short, {"fn": f.short, "worker_sites": len(worker_sites)})
        else:
            ck.bad(R, "workers-before-dsp|%s" % f.short, "%s: a plugin worker can run after the dsp call of the same sample (scheduled tasks would fire one sample late)" % f.short, f.where())


def rule_driver_clock(ck, facts):
    """the time a driver hands to run_dsp is the sample counter that `now` reads"""
    R = "C11.protocol"
    n = 0
    ad = facts.crate("mimium_audiodriver")
    for f in ad.fns:
        if f.kind == "promoted" or "::test" in f.path:
            continue
        sites = [(b, t) for b, t in f.calls() if (callee_def(t) or callee(t) or "").endswith("::run_dsp") and len(t[5]) >= 2]
        if not sites:
            continue
        # forwarders pass their own argument on
        di = DefIndex(f)
        for b, t in sites:
            r = di.resolve(t[5][1]) if t[5][1][0] in ("cp", "mv") else None
            if r and r[0] == "arg":
                continue
            n += 1
            sx = SymEx(f, max_paths=64, max_steps=8000, facts=facts)
            try:
                paths = sx.run(0, stop_at_call=lambda nm, tt, t=t: tt is t)
            except PathLimit:
                paths = sx.paths
            exprs = {repr(p.events[-1][2][1]) for p in paths if p.end == "stopcall"}
            key = "driver-clock|%s" % f.short
            if exprs and all("Atomic" in e and ("::load" in e or "fetch_add" in e) for e in exprs):
                ck.ok(R, key, {"fn": f.short, "time": "the shared sample counter"})
            else:
                ck.bad(R, key, "%s passes run_dsp a time that is not read from the driver's sample counter (the atomic that `now` and the scheduler's `@` read): %s. When the two clocks drift apart (a second block, a restart) tasks scheduled against `now` are compared with a time that starts over, and never become due" % (f.short, "; ".join(sorted(x[:90] for x in exprs)) or "no path to the call analysed"), f.where(t))
    ck.floor(R, "driver_ticks", n, 2)


def rule_drain(ck, facts):
    R = "C11.drain"
    ck.rule(R, "(every sample) in the VM worker's on_sample, the channel that delivers newly scheduled tasks is polled and the current time is stored on every path to a return (no early exit before them); (all due tasks) a loop that pops the pending queue leaves only because the queue is empty or its head is not due: no other condition (a count, a buffer size) ends the drain")
    sc = facts.crate(SCHED)
    # (every sample)
    setters = clock_setters(sc)
    poppers = due_poppers(sc)
    allw = sample_workers(sc)
    # the VM worker is the one fed through a channel
    workers = [f for f in allw if any((callee(t) or "").split("::")[-1] in ("try_recv", "try_iter", "recv_timeout") for _, t in f.calls())]
    ck.require(R, len(workers) == 1, "anchor|on_sample", "VM scheduler worker (the per-sample routine that polls the task channel) not found")
    for f in workers:
        dom = dominators(f)
        rets = [b for b in range(f.nblocks()) if not f.is_cleanup(b) and f.term(b)[KIND] == "return"]
        polls = [b for b, t in f.calls() if (callee(t) or "").split("::")[-1] in ("try_recv", "try_iter", "recv_timeout")]
        times = [b for b, t in f.calls() if (callee(t) or "") in setters]
        tl = {i for i, ty in enumerate(f.d.get("locals", [])) if 1 <= i <= f.d.get("argc", 0) and "Time" in ty}
        for b, st in f.all_stmts():
            # or a direct store of the time argument into a field of self
            if st[KIND] == "a" and st[4][1] and st[4][0] == 1 and st[5][0] == "use" and st[5][1][0] in ("cp", "mv") and st[5][1][1][0] in tl:
                times.append(b)
        ck.require(R, bool(polls) and bool(times), "anchor|poll-and-time", "on_sample no longer polls the channel / stores the current time")
        for what, blocks in (("poll", polls), ("time", times)):
            ok = bool(blocks) and all(any(p in dom.get(r, ()) for p in blocks) for r in rets)
            key = "every-sample|%s" % what
            if ok:
                ck.ok(R, key)
            else:
                ck.bad(R, key, "%s can return without %s: on the samples where it leaves early, tasks scheduled meanwhile stay in the channel and the `must be in the future` test later compares against a stale time, so a task scheduled while a later one is pending runs late" % (f.short, "polling the channel of newly scheduled tasks" if what == "poll" else "storing the current time"), f.where())
        # (order) what dsp of the previous sample scheduled for this sample is still in the channel: it has to be in
        # the queue before the due tasks of this sample are run, and before the time the `in the future` test compares
        # with moves on
        runs = [b for b, t in f.calls() if (callee(t) or "") in poppers or (callee(t) or "").split("::")[-1] == "execute_closure"]
        if polls and runs:
            late = [r for r in runs if not any(p in dom.get(r, ()) and p != r for p in polls)]
            if not late:
                ck.ok(R, "order|poll-before-run")
            else:
                ck.bad(R, "order|poll-before-run", "%s runs the due tasks before it has moved the newly scheduled tasks from the channel into the queue: a task that dsp scheduled for exactly the next sample is still in the channel when that sample's tasks run, and is rejected afterwards because its time is no longer in the future" % f.short, f.where(f.term(late[0])))
    # (clock) both runtimes keep a copy of the current sample index for the `must be in the future` test of `@`; in the
    # per-sample routine it is set to the sample being served — the routine's time argument itself, no arithmetic
    from ..rules.guards import Terms
    nclk = 0
    for f in allw:
        T = Terms(f)
        for b, t in f.calls():
            if (callee(t) or "") not in setters or len(t[5]) < 2:
                continue
            nclk += 1
            term = T.op(t[5][1])
            key = "clock|%s" % ("wasm" if "wasm" in f.path.lower() else "vm")
            if "'bin'" in repr(term):
                ck.bad(R, key, "%s sets the scheduler's clock to a value computed from the sample time (%s) instead of the sample time itself: `@` compares a task's time with that clock, so while dsp of sample t runs a task scheduled for t+1 is refused as `not in the future` (or one scheduled for t is accepted) on this runtime only" % (f.short, repr(term)[:80]), f.where(t))
            else:
                ck.ok(R, key)
    ck.floor(R, "clock_updates_in_on_sample", nclk, 2)
    # (all due tasks)
    n = 0
    for f in sc.fns:
        if f.kind == "promoted" or "::test" in f.path:
            continue
        pops = [b for b, t in f.calls() if _heap_call(callee(t) or "", ("pop",)) or ((callee(t) or "") in poppers and (callee(t) or "") != f.path)]
        if not pops:
            continue
        di = DefIndex(f)
        for h, body in natural_loops(f):
            if not any(b in body for b in pops):
                continue
            n += 1
            bad = None
            for b in sorted(body):
                t = f.term(b)
                if t[KIND] != "switch":
                    continue
                succs = [tb for _, tb in t[6]] + [t[7]]
                if all(x in body for x in succs):
                    continue
                # classify the exit condition
                op = t[4]
                ok = False
                cur = op
                for _ in range(6):
                    if cur[0] not in ("cp", "mv"):
                        break
                    r = di.resolve(cur)
                    if r[0] == "rv" and r[1][5][0] == "disc":
                        src = di.resolve(["cp", [r[1][5][1][0], []]])
                        if src[0] == "call" and ((callee(src[1]) or "").split("::")[-1] in ("peek", "pop", "try_recv", "next") or (callee(src[1]) or "") in poppers):
                            ok = True
                        break
                    if r[0] == "call":
                        c = callee(r[1]) or ""
                        if c.split("::")[-1] in ("le", "lt", "ge", "gt") and "Time" in ((r[1][4].get("full") or "") if isinstance(r[1][4], dict) else ""):
                            ok = True
                        break
                    if r[0] == "rv" and r[1][5][0] == "use":
                        cur = r[1][5][1]
                        continue
                    if r[0] == "rv" and r[1][5][0] == "bin" and r[1][5][1] in ("le", "lt", "ge", "gt"):
                        txt = repr(r[1][5])
                        ok = "Task::when" in txt or "Time::0" in txt
                        break
                    break
                if not ok:
                    bad = t
            key = "all-due|%s" % f.short.split("::")[-1]
            if bad is None:
                ck.ok(R, key)
            else:
                ck.bad(R, key, "%s: the loop that pops the pending queue can also end on a condition that is neither `queue empty` nor `head not due` (a count / buffer-size test): when more tasks are due than that bound, the rest run on later samples — late, and differently from the other runtime" % f.short, f.where(bad))
    ck.floor(R, "drain_loops", n, 2)


def rule_closure_lifetime(ck, facts):
    """a closure handed to the scheduler lives in WASM linear memory until it runs; the memory it was allocated from
    must not be reclaimed before that"""
    from .c03 import _w_seq
    R = "C11.closure-lifetime"
    ck.rule(R, "WASM: the host function behind `@` keeps the address of the scheduled closure until its sample comes; therefore the exported routine that runs scheduled closures must not give the allocator's memory back when the closure body returns (save / restore of the allocation pointer around the indirect call), because a task that re-schedules itself or another function allocates that closure inside the body")
    # (1) does a WASM plugin function retain one of its arguments?
    retaining = []
    for crate in facts.crate_names():
        if not crate.startswith("mimium_") or crate in (roles.LANG,):
            continue
        for f in facts.crate(crate).fns:
            if f.kind != "closure" or "wasm" not in f.path:
                continue
            from ..rules.chainwalk import taint
            argc = f.d.get("argc", 0)
            args = set(range(2, argc + 1))  # closure env is _1
            T = taint(f, args)
            for b, t in f.calls():
                c = callee(t) or ""
                if c.split("::")[-1] in ("push", "push_back", "insert") and any(k in c for k in ("BinaryHeap", "Vec", "VecDeque", "HashMap", "BTreeMap")):
                    if any(a[0] in ("cp", "mv") and a[1][0] in T for a in t[5][1:]):
                        retaining.append((f, t))
    ck.floor(R, "retaining_plugin_functions", len(retaining), 1)
    # (2) the executor trampoline template
    lang = facts.crate(roles.LANG)
    tr = [f for f in lang.fns if f.short.endswith("WasmGenerator::generate_exec_closure_trampoline")]
    ck.require(R, len(tr) == 1, "anchor|trampoline", "generator of the exported closure executor not found")
    if len(tr) != 1 or not retaining:
        return
    f = tr[0]
    seq = _w_seq(facts, f)
    if not seq:
        ck.bad(R, "unanalysable|trampoline", "the executor trampoline is no longer a straight-line template", f.where())
        return
    names = [n for n, _, _ in seq]
    saved = None
    rewinds = None
    for k, (n, ops, t) in enumerate(seq):
        if n == "GlobalGet" and "alloc_ptr" in repr(ops) and k + 1 < len(seq) and seq[k + 1][0] == "LocalSet":
            saved = (repr(seq[k + 1][1]), k)
        if n == "GlobalSet" and "alloc_ptr" in repr(ops) and k > 0 and seq[k - 1][0] == "LocalGet" and saved and repr(seq[k - 1][1]) == saved[0]:
            if any(m in ("CallIndirect", "Call") for m in names[saved[1]:k]):
                rewinds = t
    key = "executor|generate_exec_closure_trampoline"
    if rewinds is None:
        ck.ok(R, key, {"executor": "does not reclaim allocations of the closure body", "retaining": [g.short for g, _ in retaining]})
    else:
        g, gt = retaining[0]
        ck.bad(R, key, "the exported closure executor restores the allocation pointer after the scheduled closure returns, while %s stores the closure address it is given until a later sample: a closure created inside a running task (`a@(now+2.0)` inside `a`) is reclaimed at once and its memory is reused by the next task's closure — with two different self-rescheduling functions the WASM runtime runs the wrong one" % g.short, f.where(rewinds))


def rule_handoff(ck, facts):
    """never dropped: the hand-off of a newly scheduled task to the queue cannot fail silently"""
    R = "C11.handoff"
    ck.rule(R, "a task accepted by `@` reaches the pending queue: every hand-off in the scheduler is a heap push or a channel `send` whose failure aborts (unwrap/expect) or is returned; a `try_send` / `try_push` whose error is only logged or ignored drops tasks when the queue is full, and the channel that carries tasks to the audio worker is not created with a capacity (`sync_channel(n)`): more than n `@` calls between two ticks would block or be dropped")
    n = 0
    for f in facts.crate(SCHED).fns:
        if f.kind == "promoted" or "::test" in f.path:
            continue
        di = None
        for b, t in f.calls():
            c = callee(t) or ""
            short = c.split("::")[-1]
            if short == "sync_channel" and "mpsc" in c:
                n += 1
                ck.bad(R, "bounded-channel|%s" % f.short, "%s creates the task channel with a fixed capacity: once that many tasks were scheduled between two audio ticks, further `@` calls block the caller or (with try_send) are dropped" % f.short, f.where(t))
            elif short == "channel" and "mpsc" in c:
                n += 1
                ck.ok(R, "unbounded-channel|%s" % f.short)
            if short in ("try_send", "try_push", "send_timeout") and ("mpsc" in c or "Sender" in c):
                n += 1
                # is the result used to abort or returned?
                di = di or DefIndex(f)
                dest = t[6][0] if t[6] is not None else None
                aborts = False
                if dest is not None:
                    for b2, t2 in f.calls():
                        c2 = (callee(t2) or "").split("::")[-1]
                        if c2 in ("unwrap", "expect", "unwrap_or_else") and any(a[0] in ("cp", "mv") and a[1][0] == dest for a in t2[5]):
                            aborts = True
                    for _, st in f.all_stmts():
                        if st[KIND] == "a" and st[4][0] == 0 and any(isinstance(x, list) and len(x) == 2 and x[0] in ("cp", "mv") and x[1][0] == dest for x in ([st[5][1]] if st[5][0] == "use" else [])):
                            aborts = True
                if aborts:
                    ck.ok(R, "fallible-send|%s" % f.short)
                else:
                    ck.bad(R, "fallible-send|%s" % f.short, "%s hands the task over with `%s` and neither aborts on failure nor returns it: a full queue drops the task silently (it never runs)" % (f.short, short), f.where(t))
            if short == "send" and ("mpsc" in c or "Sender" in c):
                n += 1
                ck.ok(R, "send|%s" % f.short)
    ck.floor(R, "handoff_sites", n, 2)



def rule_clock_width(ck, facts):
    """the sample counter keeps its 64 bits on the way to `now` and to the scheduler"""
    R = "C11.time"
    NARROW = ("u32", "u16", "u8", "i32", "i16", "i8")
    n = 0
    for cr in ("mimium_audiodriver", "mimium_scheduler", roles.LANG):
        if cr not in facts.files:
            continue
        for f in facts.crate(cr).fns:
            if f.kind == "promoted" or "::test" in f.path:
                continue
            loads = [t for _, t in f.calls() if (callee(t) or "").split("::")[-1] == "load" and ("AtomicU64" in (callee(t) or "") or "Atomic::<u64>" in (callee(t) or "")) and t[6] is not None and not t[6][1]]
            if not loads:
                continue
            taint = {t[6][0] for t in loads}
            changed = True
            while changed:
                changed = False
                for _, st in f.all_stmts():
                    if st[KIND] != "a" or st[4][1] or st[4][0] in taint:
                        continue
                    rv = st[5]
                    src = rv[1] if rv[0] == "use" else None
                    if src is not None and src[0] in ("cp", "mv") and src[1][0] in taint:
                        taint.add(st[4][0])
                        changed = True
            n += len(loads)
            bad = None
            for _, st in f.all_stmts():
                if st[KIND] == "a" and st[5][0] == "cast" and st[5][2][0] in ("cp", "mv") and st[5][2][1][0] in taint and st[5][4] in NARROW:
                    bad = st
            owner = f.root.split("::", 1)[1] if "::" in f.root else f.root
            key = "clock-width|%s|%s" % (cr.replace("mimium_", ""), owner)
            if bad is None:
                ck.ok(R, key)
            else:
                ck.bad(R, key, "%s narrows the 64-bit sample counter to %s before handing it on: after 2^32 samples (about a day at 48 kHz) the program's `now` starts again from 0 while the scheduler's own clock keeps counting, so every `f@(now + d)` is computed in the past (the VM worker aborts with `Scheduled time .. must be in the future`; WASM reads the full counter)" % (f.short, bad[5][4]), f.where(bad))
    ck.floor(R, "sample_counter_reads", n, 3)


def run(ck, facts, tier):
    ck.floor("C11.anchor", "scheduler_bodies", len(facts.crate(SCHED).fns), 25)
    rule_handoff(ck, facts)
    rule_queue_types(ck, facts)
    rule_task_order(ck, facts)
    rule_time_conversion(ck, facts)
    rule_guards(ck, facts)
    rule_protocol(ck, facts)
    rule_driver_clock(ck, facts)
    rule_clock_width(ck, facts)
    rule_drain(ck, facts)
    rule_closure_lifetime(ck, facts)
    # a closure handed to `@` is an argument of a call: the task's run ends with a release that the call-time retain pays for
    from . import c12 as _c12

    _c12.rule_guard_set(ck, facts)
    ck.not_decided("exactly-once execution over histories, order among tasks due at the same sample, lifetime of scheduled closures")
