"""C09 — staged (macro) code means the same as the code it generates (encode/decode table agreement)."""
from .. import roles
from ..callgraph import CallGraph
from ..cfg import DefIndex, reachable
from ..facts import KIND, callee, const_str, const_fn
from ..rules import cover
from ..symex import PathLimit, SymEx, show
from .c01_ops import str_of

LEVEL = "other"
EXPLANATION = (
    "Encode/decode agreement of the staging translation, decided on MIR: translate_code and translate_stage0 match every Expr "
    "form explicitly (no catch-all); every combinator name the translator can emit is registered with the same number of "
    "arguments; for every Expr form, one of the combinators emitted for it is implemented by a function that rebuilds that "
    "same form; typed value→code conversion walks tuples/records/arrays by running word offsets (prefix sums), not by element "
    "index; numbers become literals through plain Display formatting (shortest round-trip) at every site; temporaries "
    "introduced by the translation are gensyms. Equality of outputs of staged and hand-expanded programs is not decided."
)
STAGING = "::compiler::translate_staging::"
COMB = "::plugin::codegen_combinators::"


def emitted_names(facts, lang):
    """name -> list of (fn, term, arity or None) for every call make_apply*(name, ..) in translate_staging"""
    out = {}
    helpers = {}
    for f in lang.fns:
        if STAGING not in f.path or "::tests" in f.path or f.kind == "promoted":
            continue
        di = None
        for b, t in f.calls():
            c = callee(t) or ""
            short = c.split("::")[-1]
            if not (STAGING in c and short.startswith("make_apply")):
                continue
            di = di or DefIndex(f)
            name = str_of(f, di, t[5][0]) if t[5] else None
            if name is None:
                continue
            arity = None
            if short == "make_apply0":
                arity = 0
            elif short in ("make_apply1", "make_apply_str"):
                arity = 1
            else:
                # vec![a, b, c] : into_vec(box [a,b,c])
                sx = SymEx(f, max_paths=1, max_steps=10, facts=facts)
                r = di.resolve(t[5][1]) if len(t[5]) > 1 else None
                arity = _vec_len(f, di, t[5][1]) if len(t[5]) > 1 else None
            out.setdefault(name, []).append((f, t, arity))
    return out


def _vec_len(f, di, op, depth=0):
    """length of a `vec![..]` literal operand, if it is one"""
    if depth > 6 or op[0] not in ("cp", "mv"):
        return None
    r = di.resolve(op)
    if r[0] == "call":
        c = callee(r[1]) or ""
        if c.endswith("::into_vec") or "box_assume_init_into_vec" in c or c.endswith("::from_elem"):
            # find an array aggregate written in this function whose length we can read: look for the array temp
            for a in r[1][5]:
                n = _vec_len(f, di, a, depth + 1)
                if n is not None:
                    return n
            # vec! of nightly: the array is written through a raw pointer; search the defining block for an array agg
            b = None
            for bb, t in f.calls():
                if t is r[1]:
                    b = bb
            if b is not None:
                for p in [b] + list(f.preds(b)):
                    for s in f.stmts(p):
                        if s[KIND] == "a" and s[5][0] == "agg" and s[5][1][0] == "array":
                            return len(s[5][2])
        if c.endswith("Vec::<T>::new") or c.endswith("::new") and "Vec" in c:
            return 0
        return None
    if r[0] == "rv":
        rv = r[1][5]
        if rv[0] == "agg" and rv[1][0] == "array":
            return len(rv[2])
        if rv[0] in ("cast", "ref") :
            inner = rv[2] if rv[0] == "cast" else ["cp", [rv[1][0], []]]
            return _vec_len(f, di, inner, depth + 1)
    return None


def registered(facts, lang):
    """name -> (impl fn path, arity) from the mk_cls(name, impl, fty(vec![..], ret)) table"""
    out = {}
    for f in lang.fns:
        if COMB not in f.path or f.kind == "promoted":
            continue
        di = None
        for b, t in f.calls():
            c = callee(t) or ""
            if not c.split("::")[-1].startswith("mk_cls"):
                continue
            di = di or DefIndex(f)
            name = str_of(f, di, t[5][0])
            impl = None
            for a in t[5]:
                fn_ = const_fn(a)
                if fn_:
                    impl = fn_
                elif a[0] in ("cp", "mv"):
                    r = di.resolve(a)
                    if r[0] == "const" and const_fn(r[1]):
                        impl = const_fn(r[1])
                    elif r[0] == "rv" and r[1][5][0] == "cast" and r[1][5][2][0] == "c" and const_fn(r[1][5][2]):
                        impl = const_fn(r[1][5][2])
            arity = None
            # third arg: fty(vec![..], ret)
            if len(t[5]) >= 3:
                r = di.resolve(t[5][2])
                if r[0] == "call":
                    arity = _vec_len(f, di, r[1][5][0]) if r[1][5] else None
            if name:
                out[name] = (impl, arity, f.where(t))
    return out


def rule_forms(ck, facts, lang):
    R = "C09.forms"
    ck.rule(R, "translate_code and translate_stage0 have an explicit arm for every Expr variant (no catch-all arm), so a new or forgotten form cannot be silently passed through untranslated")
    found = 0
    for suffix in ("translate_code", "translate_stage0"):
        f = facts.fn("mimium_lang::compiler::translate_staging::" + suffix)
        if f is None:
            continue
        found += 1
        cov = cover.coverage(facts, f, roles.EXPR)
        if cov is None:
            ck.bad(R, "anchor|%s" % suffix, "%s does not match on Expr" % suffix, f.where())
            continue
        if cov.catchall:
            ck.bad(R, "catchall|%s" % suffix, "%s has a catch-all arm covering %s" % (suffix, sorted(cov.catchall)), f.where())
        else:
            ck.ok(R, "exhaustive|%s" % suffix, {"fn": suffix, "arms": len(cov.primary_handled())})
    ck.require(R, found == 2, "anchor|translators", "translate_code / translate_stage0 not found")


def rule_names(ck, facts, lang):
    R = "C09.names"
    ck.rule(R, "every combinator name emitted by the staging translation is registered in the combinator table, with the number of arguments the registered signature takes")
    em = emitted_names(facts, lang)
    reg = registered(facts, lang)
    ck.floor(R, "emitted_combinator_names", len(em), 30)
    ck.floor(R, "registered_combinators", len(reg), 35)
    for name, sites in sorted(em.items()):
        f, t, ar = sites[0]
        if name not in reg:
            ck.bad(R, "unregistered|%s" % name, "the staging translation emits a call to `%s` (%s) but no combinator of that name is registered: quoting that form fails with an unbound variable" % (name, f.short), f.where(t))
            continue
        impl, rar, where = reg[name]
        ars = {a for _, _, a in sites if a is not None}
        if rar is not None and ars and ars != {rar}:
            ck.bad(R, "arity|%s" % name, "`%s` is emitted with %s argument(s) but registered with %s" % (name, sorted(ars), rar), f.where(t))
        else:
            ck.ok(R, "name|%s" % name, {"name": name, "emitted_arity": sorted(ars), "registered_arity": rar, "impl": (impl or "").split("::")[-1]})
    return em, reg


def rule_decode(ck, facts, lang, em, reg):
    R = "C09.decode"
    ck.rule(R, "for every Expr form F with an arm in translate_code, at least one combinator emitted from that arm (directly or through the arm's helper functions) is implemented by a function that constructs Expr::F")
    f = facts.fn("mimium_lang::compiler::translate_staging::translate_code")
    if f is None:
        return
    cov = cover.coverage(facts, f, roles.EXPR)
    cg = CallGraph(facts, [roles.LANG])
    stop = {"mimium_lang::compiler::translate_staging::translate_code", "mimium_lang::compiler::translate_staging::translate_stage0"}
    # variant constructed by each impl (through its helpers in the combinator module)
    built = {}
    for name, (impl, ar, _) in reg.items():
        if not impl:
            continue
        par = cg.reach([impl], stop=lambda p: COMB not in p and p != impl)
        vs = set()
        for p in par:
            g = cg.fns.get(p)
            if g is None or COMB not in g.path:
                continue
            for b, s in g.all_stmts():
                if s[KIND] == "a" and s[5][0] == "agg" and s[5][1][0] == "adt" and s[5][1][1] == roles.EXPR:
                    vs.add(s[5][1][3])
        built[name] = vs
    # (always) a combinator that rebuilds a form does so on every path: a path that hands a child back in place of the
    # node (`code_block` returning the body when it does not start with a `let`) changes the tree, and with it scoping
    nb = 0
    for name, (impl, ar, _) in sorted(reg.items()):
        g = cg.fns.get(impl) if impl else None
        if g is None or len(built.get(name) or ()) != 1:
            continue  # `lift` and the like build whatever the value's type asks for: not the rebuild of one form
        helpers_building = set()
        for p2 in cg.reach([impl], stop=lambda p: COMB not in p and p != impl):
            h = cg.fns.get(p2)
            if h is not None and h.path != g.path and COMB in h.path and any(s2[KIND] == "a" and s2[5][0] == "agg" and s2[5][1][0] == "adt" and s2[5][1][1] == roles.EXPR for _, s2 in h.all_stmts()):
                helpers_building.add(h.path)
        building = set()
        for b, s2 in g.all_stmts():
            if s2[KIND] == "a" and s2[5][0] == "agg" and s2[5][1][0] == "adt" and s2[5][1][1] == roles.EXPR:
                building.add(b)
        for b, t in g.calls():
            if (callee(t) or "") in helpers_building or ((callee(t) or "").startswith("mimium_lang::") and set(cg.reach([callee(t)], stop=lambda p: COMB not in p)) & helpers_building):
                building.add(b)
        if not building:
            continue  # builds through closures only: not a straight rebuild
        allocs = [b for b, t in g.calls() if (callee(t) or "").split("::")[-1] in ("alloc_code", "set_stack")]
        if not allocs:
            continue
        nb += 1
        seen = reachable(g, 0, avoid=building)
        rets = [b for b in seen if g.term(b)[KIND] == "return"]
        # only paths that hand a code value back count (an arity / type complaint may return early)
        bypass = [b for b in rets if any(a in seen for a in allocs)]
        key = "always|%s" % name
        if bypass:
            ck.bad(R, key, "%s (the implementation of `%s`) has a path that returns a code value without constructing the node it stands for (Expr::%s): what was quoted as that form comes back as something else (e.g. a block without its block, so the names bound in it stay visible after it)" % (g.short, name, "/".join(sorted(built[name]))), g.where())
        else:
            ck.ok(R, key)
    ck.floor(R, "combinators_rebuilding_on_every_path", nb, 15)
    n = 0
    for v in sorted(cov.primary_handled()):
        tb = cov.arm_target(v)
        region = reachable(f, tb, stop=[cov.primary.block])
        fns_in_arm = set()
        direct = []
        for b in region:
            t = f.term(b)
            if t[KIND] == "call":
                c = callee(t)
                if c and STAGING in c and c not in stop:
                    fns_in_arm.add(c)
        par = cg.reach(sorted(fns_in_arm), stop=lambda p: p in stop or STAGING not in p)
        names = set()
        for name, sites in em.items():
            for g, t, _ in sites:
                if (g.path == f.path and any(t is f.term(b) for b in region)) or (g.path in par and g.path not in stop) or (g.root in par and g.root not in stop):
                    names.add(name)
        if not names:
            continue
        n += 1
        hit = [nm for nm in names if v in built.get(nm, ())]
        unreg = [nm for nm in names if nm not in reg]
        if hit:
            ck.ok(R, "form|%s" % v, {"form": v, "emits": sorted(names), "rebuilt_by": hit[:3]})
            # (no-bypass) a child that was translated is wrapped again: no path of the arm runs the translation on a
            # child and then returns without passing an emission (it would hand the child's code back in place of the
            # node's — e.g. a quoted block without its block when the body does not start with a binding)
            emit_fns = {g.path for sites in em.values() for g, _, _ in sites} | {g.root for sites in em.values() for g, _, _ in sites}
            site_terms = [t for sites in em.values() for g, t, _ in sites if g.path == f.path]
            E = set()
            for b in region:
                t = f.term(b)
                if t[KIND] != "call":
                    continue
                c = callee(t) or ""
                if any(t is st for st in site_terms) or (c in emit_fns and c not in stop) or (c in par and c not in stop and set(cg.reach([c], stop=lambda p: p in stop or STAGING not in p)) & emit_fns):
                    E.add(b)
            recs = [b for b in region if f.term(b)[KIND] == "call" and (callee(f.term(b)) or "") == f.path]
            bypass = None
            for rb in recs:
                seen_b = set()
                work = [x for x in f.succs(rb) if x in region]
                while work and bypass is None:
                    x = work.pop()
                    if x in seen_b or x in E or x == cov.primary.block:
                        continue
                    seen_b.add(x)
                    if f.term(x)[KIND] == "return":
                        bypass = rb
                        break
                    work.extend(y for y in f.succs(x) if y in region or f.term(y)[KIND] == "return")
                if bypass is not None:
                    # an optional child that is absent (`Then(e, None)` is `e`) is decided on the payload's own Option;
                    # what is reported is a decision taken by looking at the *form* of a child (a switch on an `Expr`)
                    _di = DefIndex(f)
                    shape = False
                    before = {x for x in region if x != cov.primary.block and rb in reachable(f, x, stop=[cov.primary.block])}
                    for x in seen_b | {rb} | before:
                        t2 = f.term(x)
                        if t2[KIND] == "switch" and t2[4][0] in ("cp", "mv"):
                            r2 = _di.resolve(t2[4])
                            if r2[0] == "rv" and r2[1][5][0] == "disc" and "ast::Expr" in f.local_ty(r2[1][5][1][0]) and "Option" not in f.local_ty(r2[1][5][1][0]) and r2[1][5][1][0] != cov.primary.place[0]:
                                shape = True
                    if not shape:
                        bypass = None
                        continue
                    break
            if recs:
                if bypass is None:
                    ck.ok(R, "no-bypass|%s" % v)
                else:
                    ck.bad(R, "no-bypass|%s" % v, "the arm of translate_code for Expr::%s translates a child and has a path that returns that result without wrapping it in the combinator that rebuilds the %s: for some shapes of the child the quoted node is replaced by its child (a quoted `{ .. }` loses its block, and the names bound in it leak into the code around the splice)" % (v, v), f.where(f.term(bypass)))
        elif unreg and all(nm not in reg for nm in names):
            # already reported by C09.names
            ck.note("decode: form %s only emits unregistered combinators %s (reported by C09.names)" % (v, unreg))
            n -= 1
        else:
            ck.bad(R, "form|%s" % v, "quoting an Expr::%s emits %s, none of whose implementations constructs an Expr::%s: quote-then-splice does not rebuild the same form" % (v, sorted(names), v), f.where())
    ck.floor(R, "forms_with_combinators", n, 15)


def rule_offsets(ck, facts, lang):
    R = "C09.offsets"
    ck.rule(R, "typed value→code conversion: inside the arms for aggregate types, element slices start at a running word offset that is advanced by each element's word size (a local accumulator updated in the loop), never at the element index")
    cands = [f for f in lang.fns if COMB in f.path and f.short.endswith("raw_words_to_code_expr")]
    ck.require(R, len(cands) == 1, "anchor|raw_words_to_code_expr", "typed value→code conversion not found")
    for f in cands:
        fam = facts.family(roles.LANG, f.path)
        cov = cover.coverage(facts, f, roles.TYPE)
        if not cov:
            ck.bad(R, "anchor|match", "raw_words_to_code_expr does not match on Type", f.where())
            continue
        for v in ("Tuple", "Record"):
            if v not in cov.primary_handled():
                continue
            tb = cov.arm_target(v)
            region = reachable(f, tb, stop=[cov.primary.block])
            clos = []
            uses_enumerate = False
            for b in region:
                for s in f.stmts(b):
                    if s[KIND] == "a" and s[5][0] == "agg" and s[5][1][0] == "closure":
                        g = facts.fn(s[5][1][1])
                        if g is not None:
                            clos.append(g)
                t = f.term(b)
                if t[KIND] == "call" and (callee(t) or "").endswith("::enumerate"):
                    uses_enumerate = True
            # the accumulator: a closure (or the region) that both reads word_size and writes an upvar/local by += size
            acc = False
            slice_from_index = False
            for g in clos + [f]:
                blocks = region if g is f else range(len(g.bb))
                has_ws = any(g.term(b)[KIND] == "call" and (callee(g.term(b)) or "").endswith("::word_size") for b in blocks if not g.is_cleanup(b))
                adds = False
                for b in blocks:
                    if g.is_cleanup(b):
                        continue
                    for s in g.stmts(b):
                        if s[KIND] == "a" and s[5][0] == "bin" and s[5][1] in ("add", "add_ov"):
                            adds = True
                if has_ws and adds:
                    acc = True
            key = "arm|%s" % v
            if acc and not uses_enumerate:
                ck.ok(R, key, {"arm": v, "offset": "running sum of word_size"})
            else:
                ck.bad(R, key, "raw_words_to_code_expr (arm %s): element words are not sliced by a running word offset (accumulator=%s, enumerate=%s): a multi-word element shifts every later element" % (v, acc, uses_enumerate), f.where())


def rule_numbers(ck, facts, lang):
    R = "C09.numbers"
    ck.rule(R, "every site that turns an f64 into a float literal of generated code formats it with the plain `{}` template or to_string (shortest round-trip representation); all such sites use the same template")
    sites = []
    for f in lang.fns:
        if COMB not in f.path and "::interpreter" not in f.path and "builtin_functins" not in f.path:
            continue
        if f.kind == "promoted":
            continue
        lits = [s for b, s in f.all_stmts() if s[KIND] == "a" and s[5][0] == "agg" and s[5][1][0] == "adt" and s[5][1][1].endswith("ast::Literal") and s[5][1][3] == "Float"]
        if not lits:
            continue
        di = DefIndex(f)
        tmpl = []
        for b, t in f.calls():
            c = callee(t) or ""
            if c.endswith("Arguments::<'a>::new") or "Arguments::<'a>::new_" in c:
                for a in t[5][:1]:
                    r = di.resolve(a)
                    txt = None
                    if r[0] == "rv" and r[1][5][0] == "ref":
                        d = di.single_def(r[1][5][1][0])
                        if d and d[1] is not None and d[2][5][0] == "use" and d[2][5][1][0] == "c":
                            txt = d[2][5][1][3] if len(d[2][5][1]) > 3 else str(d[2][5][1])
                    tmpl.append((c.split("::")[-1], txt))
            if c.endswith("ToString>::to_string"):
                tmpl.append(("to_string", None))
        for x in tmpl:
            sites.append((f, x))
    ck.floor(R, "float_literal_formatting_sites", len(sites), 1)  # one shared helper is as good as many sites
    templates = {}
    for f, (kind, txt) in sites:
        templates.setdefault((kind, txt), []).append(f)
    fmt_templates = {k: v for k, v in templates.items() if k[0] != "to_string"}
    if len(fmt_templates) <= 1:
        ck.ok(R, "same-template", {"templates": [str(k) for k in templates], "sites": len(sites)})
    else:
        major = max(fmt_templates.items(), key=lambda kv: len(kv[1]))[0]
        for k, fs in fmt_templates.items():
            if k != major:
                ck.bad(R, "template|%s" % fs[0].short, "%s formats a number for a generated literal with template %s while the other sites use %s: lifted numbers lose their exact value" % (fs[0].short, k, major), fs[0].where())



def rule_typed_first(ck, facts, lang, R="C09.numbers"):
    """a number whose type is known is never put through the guess that takes small bit patterns for handles"""
    from ..cfg import dominators

    ck.rule(R + ".typed-first", "the untyped word-to-code conversion (by role: the function that asks both the array storage and the code-value table whether a raw word is one of their handles, and otherwise reads it as a float) is a guess: 0.0 and the subnormals have the bit patterns of small handles. Where a conversion knows the type of the value (it dispatches on `Type`), it calls the guess only behind a positive answer of the array storage for that word, or when no type was available")
    H = set()
    for f in lang.fns:
        if COMB not in f.path or f.kind not in ("fn", "assoc"):
            continue
        nm = {(callee(t) or "").split("::")[-1] for _, t in f.calls()}
        if "try_get_array" in nm and "try_get_code" in nm:
            H.add(f.path)
    ck.require(R, len(H) >= 1, "anchor|heuristic", "the untyped word-to-code conversion was not found")
    n = 0
    for f in lang.fns:
        if COMB not in f.path or f.kind == "promoted" or f.path in H:
            continue
        sites = [(b, t) for b, t in f.calls() if (callee(t) or "") in H]
        if not sites:
            continue
        cov = cover.coverage(facts, f, roles.TYPE)
        if cov is None or cov.primary is None:
            continue  # no type in sight: the fallback
        dom = dominators(f)
        di = DefIndex(f)
        for b, t in sites:
            if cov.primary.block not in dom[b]:
                continue  # not inside the dispatch on the type
            n += 1
            guarded = False
            for d in dom[b]:
                tt = f.term(d)
                if tt[KIND] != "switch" or tt[4][0] not in ("cp", "mv"):
                    continue
                r = di.resolve(tt[4])
                if r[0] == "call" and (callee(r[1]) or "").split("::")[-1] in ("is_some", "is_ok") and r[1][5]:
                    r2 = di.resolve(r[1][5][0])
                    if r2[0] == "rv" and r2[1][5][0] == "ref":
                        r2 = di.resolve(["cp", [r2[1][5][1][0], []]])
                    if r2[0] == "call" and (callee(r2[1]) or "").split("::")[-1] == "try_get_array":
                        guarded = True
                if r[0] == "rv" and r[1][5][0] == "disc":
                    r2 = di.resolve(["cp", [r[1][5][1][0], []]])
                    if r2[0] == "call" and (callee(r2[1]) or "").split("::")[-1] == "try_get_array":
                        guarded = True
            owner = f.root.split("::")[-1]
            key = "typed-first|%s" % owner
            if guarded:
                ck.ok(R, key, {"site": owner})
            else:
                ck.bad(R, key, "%s knows the type of the value it lifts and still hands a number to the untyped conversion without first finding the word in the array storage: a macro-stage 0.0 (bit pattern 0, like the subnormals) is taken for code value #0 and an unrelated earlier fragment is spliced instead of the literal" % f.short, f.where(t))
    ck.floor(R, "typed_calls_of_the_untyped_conversion", n, 1)


def rule_gensym(ck, facts, lang, R="C09.gensym"):
    ck.rule(R, "names invented by the staging translation (strings built with format!/to_string and turned into symbols inside translate_staging) come only from the gensym function that draws from a counter")
    n = 0
    gens = []
    for f in lang.fns:
        if STAGING not in f.path or "::tests" in f.path or f.kind == "promoted":
            continue
        fmts = [t for _, t in f.calls() if (callee(t) or "").endswith("fmt::format") or (callee(t) or "").endswith("alloc::fmt::format")]
        if not fmts:
            continue
        n += 1
        reads_counter = any("LocalKey" in (callee(t) or "") or "Cell" in (callee(t) or "") or "fetch_add" in (callee(t) or "") for g in facts.family(roles.LANG, f.root) for _, t in g.calls())
        root = f.root.split("::", 1)[1]
        if reads_counter:
            gens.append(root)
            ck.ok(R, "gensym|%s" % root, {"fn": root, "draws_from": "counter"})
        else:
            ck.bad(R, "invented-name|%s" % root, "%s builds a name by formatting without drawing from the gensym counter: generated binders can collide with each other or with user names across nesting levels" % f.short, f.where(fmts[0]))
    ck.floor(R, "name_formatting_functions", n, 1)
    ck.require(R, bool(gens), "anchor|gensym", "no gensym function (formats a name from a counter) found in translate_staging")


REWRITERS = (
    "compiler::translate_staging::translate_stage0",
    "compiler::translate_staging::translate_code",
    "compiler::mirgen::convert_pronoun::convert_macro_pipe",
    "compiler::mirgen::convert_pronoun::convert_macroexpand",
    "compiler::mirgen::convert_pronoun::convert_operators",
)


def _find_aggs(e, enum, out, depth=0):
    if not isinstance(e, tuple) or depth > 30:
        return
    if e and e[0] == "agg" and isinstance(e[1], str) and e[1].startswith(enum + "::"):
        out.append(e)
    for x in e:
        if isinstance(x, tuple):
            _find_aggs(x, enum, out, depth + 1)


def rule_rebuild(ck, facts, lang, R="C09.rebuild"):
    """tree rewriters: an arm that rebuilds the form it matched must put *transformed* children into the new node"""
    from ..rules import cover
    from ..symex import PathLimit, SymEx
    ck.rule(R, "in the staging translation and the macro desugaring passes, an arm that rebuilds the Expr form it matched does not put an untransformed sub-expression of the matched node into the new node: every expression-valued operand of the rebuilt node is the result of a call (the recursive transformation), never the raw payload field")
    adt = facts.adt(roles.EXPR)
    fields = {v["n"]: v["f"] for v in adt["variants"]}
    n = 0
    for short in REWRITERS:
        f = facts.fn("mimium_lang::" + short)
        if f is None:
            ck.bad(R, "anchor|%s" % short, "rewriting pass %s not found" % short)
            continue
        cov = cover.coverage(facts, f, roles.EXPR)
        if cov is None:
            ck.bad(R, "anchor|match|%s" % short, "%s does not match on Expr" % short, f.where())
            continue
        for v in sorted(cov.primary_handled()):
            if cov.arm_diverges(v) or cov.arm_target(v) is None:
                continue
            exprish = [j for j, (fname, fty) in enumerate(fields.get(v, [])) if "ExprNodeId" in fty and "Vec" not in fty]
            if not exprish:
                continue
            sx = SymEx(f, payload_place=cov.primary.place, max_paths=96, max_steps=6000, facts=facts)
            try:
                paths = sx.run(cov.arm_target(v))
            except PathLimit:
                paths = sx.paths
            raw = None
            rebuilt = False
            for p in paths:
                if p.end != "return":
                    continue
                aggs = []
                for e in p.events:
                    if e[0] == "call":
                        _find_aggs(e[2], roles.EXPR, aggs)
                _find_aggs(p.env.get(0), roles.EXPR, aggs)
                for a in aggs:
                    if a[1].rsplit("::", 1)[1] != v:
                        continue
                    rebuilt = True
                    for j, o in enumerate(a[2]):
                        x = o
                        while isinstance(x, tuple) and x and x[0] in ("ref", "deref"):
                            x = x[1]
                        if isinstance(x, tuple) and x and x[0] == "pay" and x[1] == v and x[2] in exprish:
                            raw = (j, x[2])
            if not rebuilt:
                continue
            n += 1
            key = "child|%s|%s" % (short.split("::")[-1], v)
            if raw is None:
                ck.ok(R, key)
            else:
                ck.bad(R, key, "%s: the arm for Expr::%s rebuilds the node with its payload field %d (%s) untransformed as operand %d: quotes / escapes / macro forms inside that sub-expression survive the pass, so the staged program is not the one its splices generate" % (short, v, raw[1], fields[v][raw[1]][0], raw[0]), f.where())
    ck.floor(R, "rebuilding_arms_checked", n, 14)


def rule_subst_order(ck, facts, lang, R="C09.subst-order"):
    """by-name substitution that does not look at binders is only sound on terms whose sub-terms were normalised first"""
    from ..rules import cover
    from ..symex import PathLimit, SymEx
    ck.rule(R, "a substitution that replaces `$name` by an expression without comparing `name` with the binders it passes (no Lambda/Let arm) is only applied to a term that the calling pass has already normalised bottom-up (the term derives from the caller's own recursive call): placeholder parameters are named by position, so an inner un-expanded pipe binds the same name")
    subs = []
    for f in lang.fns:
        if "::compiler::mirgen::convert_pronoun::" not in f.path or f.kind != "fn":
            continue
        argc = f.d.get("argc", 0)
        returns_arg = any(s2[KIND] == "a" and s2[4][0] == 0 and not s2[4][1] and s2[5][0] == "use" and s2[5][1][0] in ("cp", "mv") and not s2[5][1][1][1] and 2 <= s2[5][1][1][0] <= argc for _, s2 in f.all_stmts())
        if not returns_arg:
            continue
        cov = cover.coverage(facts, f, roles.EXPR)
        if cov is None or "Escape" not in cov.primary_handled():
            continue
        binder_aware = any(v in cov.primary_handled() for v in ("Lambda", "Let", "LetRec"))
        subs.append((f, binder_aware))
    ck.require(R, len(subs) >= 1, "anchor|substitution", "no by-name substitution function found in convert_pronoun (anchor lost)")
    n = 0
    for sf, binder_aware in subs:
        for f in lang.fns:
            if f.kind == "promoted" or f.path == sf.path or f.root == sf.path:
                continue
            sites = [t for _, t in f.calls() if (callee(t) or "") == sf.path]
            if not sites:
                continue
            n += len(sites)
            key = "caller|%s|%s" % (f.short.split("::")[-1], sf.short.split("::")[-1])
            if binder_aware:
                ck.ok(R, key, {"substitution": sf.short, "capture_avoiding": True})
                continue
            sx = SymEx(f, max_paths=200, max_steps=12000, facts=facts)
            try:
                paths = sx.run(0)
            except PathLimit:
                paths = sx.paths
            bad = None
            seen = 0
            for p in paths:
                for e in p.events:
                    if e[0] == "call" and any(e[3] is t for t in sites):
                        seen += 1
                        if f.path not in repr(e[2][0]):
                            bad = e[3]
            if seen == 0:
                ck.bad(R, "unanalysable|%s" % f.short.split("::")[-1], "call of %s in %s not reached symbolically" % (sf.short, f.short), f.where(sites[0]))
            elif bad is None:
                ck.ok(R, key, {"substitution": sf.short, "term": "result of the caller's own recursive normalisation"})
            else:
                ck.bad(R, key, "%s applies the by-name substitution %s to a sub-term it has not normalised first (the term does not derive from %s's own recursive call): an inner macro pipe that is still un-expanded binds the same positional placeholder name, and its `$placeholder` is replaced by the outer argument (the generated code uses the wrong value)" % (f.short, sf.short.split("::")[-1], f.short.split("::")[-1]), f.where(bad))
    ck.floor(R, "substitution_call_sites", n, 1)


def run(ck, facts, tier):
    # names inside a splice are resolved by the same resolver as everything else: its scope stack is touched only by
    # its own push / pop (a splice that sets the stack aside resolves a macro parameter to a module member)
    from . import c17 as _c17

    _c17.rule_scope(ck, facts)
    from ..rules import saverestore

    saverestore.run(ck, facts, "C09.stage-tracker", "mimium_lang", scope="::compiler::typing", floor=2, why="the stage a bracket or an escape switches to is the surrounding stage again when the construct ends")
    lang = facts.crate(roles.LANG)
    rule_forms(ck, facts, lang)
    em, reg = rule_names(ck, facts, lang)
    rule_decode(ck, facts, lang, em, reg)
    rule_offsets(ck, facts, lang)
    rule_typed_first(ck, facts, lang)
    rule_numbers(ck, facts, lang)
    rule_gensym(ck, facts, lang)
    rule_rebuild(ck, facts, lang)
    rule_subst_order(ck, facts, lang)
    rule_stage_tracker(ck, facts, lang)
    from ..rules import patcover

    patcover.run(ck, facts, "C09.pattern-cover", roles.LANG)
    patcover.run_match_patterns(ck, facts, "C09.pattern-cover", roles.LANG)
    # type annotations of staged code are rewritten by structural maps over types
    from ..rules import typemap

    typemap.run(ck, facts, "C09.type-map", roles.LANG, roles.TYPE)
    # `f!(args)` must equal splicing `f(args)`: the desugaring passes visit every child (shared with C04)
    from ..rules import belief, rewrite

    rewrite.run(ck, facts, "C04.rewrite-complete", belief.rewriting_passes(), eliminated_variants=belief.eliminated_variant_names())
    from ..rules import exprwalk, flagprop

    flagprop.run(ck, facts, "C09.flag-propagation")

    # the predicate that decides whether a program goes through the staging pipeline at all
    # (found from the code: the tree predicates called, up to two calls deep, by the function that calls
    # translate_staging::translate)
    entries = [f for f in lang.fns if f.kind != "promoted" and any((callee(t) or "").endswith("translate_staging::translate") for _, t in f.calls())]
    near = set()
    frontier = list(entries)
    for _ in range(2):
        nxt = []
        for g in frontier:
            for _, t in g.calls():
                h = facts.fn(callee(t) or "")
                if h is not None and h.path not in near:
                    near.add(h.path)
                    nxt.append(h)
        frontier = nxt
    exprwalk.run(ck, facts, "C09.staging-predicate", only=lambda f: f.path in near or f.root in near)
    exprwalk.run_gating(ck, facts, "C09.staging-gating", only=lambda f: f.path in near or f.root in near)
    ck.not_decided("equality of the outputs of a staged program and its hand expansion; `f!(args)` = splice of `f(args)` as behaviour")


def rule_stage_tracker(ck, facts, lang):
    """a module pulled into the statement list is wrapped in `#stage(main)` … `#stage(<the stage we were in>)`"""
    R = "C09.stage-tracker"
    PS = "mimium_lang::ast::program::ProgramStatement"
    ck.rule(R, "the function that flattens a program into statements wraps the contents of a `mod` / first-loaded `use` in a stage bracket and restores the surrounding stage from a local it keeps (the operand of the restoring DeclareStage is a clone of that local). That local is assigned in the arm that sees a `#stage(..)` declaration: otherwise a module inside a `#stage(macro)` section ends with `#stage(main)` and every macro defined after it lands at the wrong stage")
    cands = []
    for f in lang.fns:
        if "::ast::program::" not in f.path or f.kind == "promoted" or "::test" in f.path:
            continue
        cov = cover.coverage(facts, f, PS)
        if cov and cov.primary is not None and "StageDeclaration" in cov.primary_handled():
            cands.append((f, cov))
    ck.require(R, len(cands) >= 1, "anchor|flattener", "the statement flattener (a dispatch on ProgramStatement with a StageDeclaration arm) was not found")
    n = 0
    for f, cov in cands:
        di = DefIndex(f)
        trackers = set()
        for b, st in f.all_stmts():
            if st[KIND] == "a" and st[5][0] == "agg" and st[5][1][0] == "adt" and st[5][1][3] == "DeclareStage" and st[5][2]:
                r = di.resolve(st[5][2][0])
                if r[0] == "call" and (callee(r[1]) or "").split("::")[-1] == "clone" and r[1][5]:
                    rr = di.resolve(r[1][5][0])
                    if rr[0] == "rv" and rr[1][5][0] in ("ref", "raw") and not rr[1][5][1][1]:
                        trackers.add(rr[1][5][1][0])
        if not trackers:
            continue
        n += 1
        tb = cov.arm_target("StageDeclaration")
        region = set(reachable(f, tb, stop=[cov.primary.block]))
        names = f.dbg_names()
        for l in sorted(trackers):
            assigned = any(st[KIND] == "a" and st[4] == [l, []] for b in region for st in f.stmts(b)) or any(t[6] is not None and t[6] == [l, []] for b, t in f.calls() if b in region)
            key = "tracker|%s" % f.short.split("::")[-1]
            if assigned:
                ck.ok(R, key, {"tracker": names.get(l, "_%d" % l)})
            else:
                ck.bad(R, key, "%s restores the stage after a module from `%s`, but the arm for a `#stage(..)` declaration never assigns it: the restored stage is always the initial one, so `#stage(macro) … mod m { .. } fn quad(c){ .. }` puts quad at the main stage (`Variable quad is defined in stage 1 but accessed from stage 0`)" % (f.short, names.get(l, "_%d" % l)), f.where())
    ck.floor(R, "stage_restoring_flatteners", n, 1)
